"""C16 mode R: replay of the TLC state graph of RefMapFiles on the real ref containers.

The graph (nodes = placement states, edges labelled Step(call, result, common, target) /
PackRefs(arg) / Reopen) is walked so that every transition the backend is allowed to take is
executed at least once from a state the real container reached through real calls.  After every
step the real result and the real state (directory read independently of dulwich, or the
container's content) are compared with the edge's expected result and the target node; the
public read API (refs[n], as_dict, get_symrefs, `in`, get_peeled), a second long-lived handle
and C git's listing are compared with the node the real state corresponds to.  When the real
container leaves the expected path the divergence is reported and the walk continues from the
node that matches the real state (so one open finding does not hide what lies behind it).
"""
from __future__ import annotations

import collections
import os
import time

from . import tlaval, tlc
from .c16_backends import (ABSENT, HEAD, DictBackend, DiskBackend, GitView, Objects, ReftableBackend, nm,
                           result_matches)

METHOD = {"Set": "set_if_equals", "SetIfEquals": "set_if_equals", "AddIfNew": "add_if_new",
          "Remove": "remove_if_equals", "RemoveIfEquals": "remove_if_equals", "SetSymbolic": "set_symbolic_ref",
          "PackRefs": "pack_refs", "GitPack": "get_packed_refs", "Reopen": "__init__", "BatchSet": "batch_update"}


# ------------------------------------------------------------------------------- graph
def entry(rec):
    k = str(rec["k"])
    if k == "absent":
        return ABSENT
    if k == "direct":
        return ("direct", str(rec["v"]))
    return ("sym", tuple(str(x) for x in rec["t"]))


def name_t(n):
    return tuple(str(x) for x in n)


class Graph:
    def __init__(self, dot_path):
        g = tlc.load_dot(dot_path)
        ids = sorted(g.nodes)
        self.idx = {nid: i for i, nid in enumerate(ids)}
        self.loose, self.packed, self.obs, self.dirs = [], [], [], []
        for nid in ids:
            st = g.nodes[nid]
            self.loose.append({name_t(n): entry(e) for n, e in st["loose"].items()})
            self.packed.append({name_t(n): entry(e) for n, e in st["packed"].items()})
            self.obs.append({name_t(n): str(v) for n, v in st["obs"].items()})
            self.dirs.append(frozenset(name_t(d) for d in st["dirs"]))
        self.names = sorted(self.loose[0])
        self.init = self.idx[g.init[0]]
        self.labels, lab_idx = [], {}
        self.edges = [[] for _ in ids]
        for src, es in g.edges.items():
            for lab, dst in es:
                li = lab_idx.get(lab)
                if li is None:
                    li = lab_idx[lab] = len(self.labels)
                    self.labels.append(parse_label(lab))
                self.edges[self.idx[src]].append((li, self.idx[dst]))
        for es in self.edges:
            es.sort()
        self.key_idx, self.lp_idx = {}, {}
        for i in range(len(ids)):
            k = self.key(self.loose[i], self.packed[i])
            self.key_idx[(k, self.dirs[i])] = i
            self.lp_idx.setdefault(k, i)          # representative when directories do not matter
        self.n_edges = sum(len(e) for e in self.edges)

    def key(self, loose, packed):
        return (tuple(loose[n] for n in self.names), tuple(packed[n] for n in self.names))

    def lookup(self, loose, packed, dirs=None):
        """Node with this placement; dirs None = any directory layout (the representative)."""
        if set(loose) != set(self.names) or set(packed) != set(self.names):
            return None
        k = self.key(loose, packed)
        if dirs is None:
            return self.lp_idx.get(k)
        return self.key_idx.get((k, frozenset(dirs)))


def parse_label(lab: str) -> dict:
    lab = lab.strip().replace('\\"', '"').replace("\\\\", "\\")
    if lab.startswith("Step("):
        c, res, common, tgt = tlaval.parse("<<" + lab[5:-1] + ">>")
        return {"op": str(c["op"]), "n": name_t(c["n"]), "old": str(c["old"]), "v": str(c["v"]), "t": name_t(c["t"]),
                "res": str(res), "common": bool(common), "tgt": name_t(tgt)}
    if lab.startswith("PackRefs("):
        arg = tlaval.parse(lab[9:-1])
        return {"op": "PackRefs", "n": (), "old": "ANY", "v": str(arg), "t": (), "res": "None", "common": False, "tgt": ()}
    if lab.startswith("GitPack"):
        return {"op": "GitPack", "n": (), "old": "ANY", "v": "", "t": (), "res": "None", "common": False, "tgt": ()}
    if lab.startswith("Reopen"):
        return {"op": "Reopen", "n": (), "old": "ANY", "v": "", "t": (), "res": "None", "common": True, "tgt": ()}
    raise ValueError(lab)


def call_str(lab):
    op = lab["op"]
    n = "/".join(lab["n"])
    if op == "Set":
        return f"refs[{n}] = {lab['v']}"
    if op == "SetIfEquals":
        return f"set_if_equals({n}, {lab['old']}, {lab['v']})"
    if op == "AddIfNew":
        return f"add_if_new({n}, {lab['v']})"
    if op == "Remove":
        return f"del refs[{n}]"
    if op == "RemoveIfEquals":
        return f"remove_if_equals({n}, {lab['old']})"
    if op == "SetSymbolic":
        return f"set_symbolic_ref({n}, {'/'.join(lab['t'])})"
    if op == "PackRefs":
        return f"pack_refs(all={lab['v'] == 'all'})"
    if op == "GitPack":
        return "git pack-refs --all --prune"
    if op == "BatchSet":
        return f"batch of {lab.get('count', '?')} refs[n] = v"
    return "reopen"


# ------------------------------------------------------------------------------- descriptors
def eff(loose, packed):
    return {n: (loose[n] if loose[n] != ABSENT else packed.get(n, ABSENT)) for n in loose}


def placement(loose, packed, n):
    l, p = loose.get(n, ABSENT), packed.get(n, ABSENT)
    if l == ABSENT and p == ABSENT:
        return "absent"
    if l != ABSENT and p != ABSENT:
        if l[0] == "sym":
            return "sym@loose+stale-packed"
        return "direct@both" if l == p else "direct@loose+stale-packed"
    if l != ABSENT:
        return l[0] + "@loose"
    return "direct@packed"


def is_prefix(a, b):
    return len(a) < len(b) and b[:len(a)] == a


def blockers(loose, packed, tgt):
    out = set()
    for n in loose:
        pl = placement(loose, packed, n)
        if pl == "absent" or n == tgt:
            continue
        if is_prefix(n, tgt):
            out.add("ancestor:" + pl)
        elif is_prefix(tgt, n):
            out.add("descendant:" + pl)
    return ",".join(sorted(out)) or "-"


def content(e):
    return "ZERO" if e == ABSENT else (e[1] if e[0] == "direct" else "SYM")


def state_features(loose, packed, obs):
    f = set()
    for n, e in loose.items():
        if e[0] == "sym":
            f.add({"KeyError": "dangling-symref", "SymrefLoop": "symref-loop"}.get(obs.get(n), "symref"))
            if packed.get(n, ABSENT) != ABSENT:
                f.add("symref-over-stale-packed")
    if any(p != ABSENT for p in packed.values()):
        f.add("packed")
    return ",".join(sorted(f)) or "plain"


def call_case(lab, loose, packed, fs, obs=None):
    """Abstract description of a call relative to the state it is made in (for signatures)."""
    op = lab["op"]
    if op in ("PackRefs", "Reopen", "GitPack", "BatchSet"):
        return f"{op}({lab['v']})"
    e = eff(loose, packed)
    n, tgt = lab["n"], lab["tgt"]
    if lab["old"] == "ANY":
        old = "any"
    elif lab["old"] == "ZERO":
        old = "zero:" + ("match" if content(e.get(tgt, ABSENT)) == "ZERO" else "mismatch")
    else:
        old = "id:" + ("match" if content(e.get(tgt, ABSENT)) == lab["old"] else "mismatch")
    new = ""
    if op in ("Set", "SetIfEquals", "AddIfNew"):
        new = " new=" + ("same" if content(e.get(tgt, ABSENT)) == lab["v"] else "other")
    if op == "SetSymbolic":
        te = e.get(lab["t"], ABSENT)
        new = " to=" + ("self" if lab["t"] == n else te[0])
    head = " HEAD" if n == HEAD else ""
    if obs is not None and e.get(n, ABSENT)[0] == "sym":
        head = {"KeyError": "(dangling)", "SymrefLoop": "(loop)"}.get(obs.get(n), "(resolves)") + head
    return (f"{op} old={old}{new} name={placement(loose, packed, n)}{head} "
            f"target={'=name' if tgt == n else placement(loose, packed, tgt)} "
            f"blockers={blockers(loose, packed, tgt)} fs={fs}")


def short(e, v):
    if e == ABSENT:
        return "absent"
    if e[0] == "sym":
        return "sym"
    return "direct" if (not v or e[1] == v) else "direct(other)"


def diff_desc(lab, want_eff, got_eff):
    out = []
    for n in sorted(set(want_eff) | set(got_eff)):
        w, g = want_eff.get(n, ABSENT), got_eff.get(n, ABSENT)
        if w != g:
            role = "name" if n == lab["n"] else ("target" if n == lab["tgt"] else "other")
            out.append(f"{role}:{short(w, lab['v'])}->{short(g, lab['v'])}")
    return ",".join(sorted(set(out))) or "same"


# ------------------------------------------------------------------------------- one replay worker
class Finding:
    __slots__ = ("sig", "what", "replay")

    def __init__(self, sig, what, replay):
        self.sig, self.what, self.replay = sig, what, replay


class Walker:
    """Replays transitions of `graph` on one backend kind.  `mine(src)` says which source nodes
    this worker is responsible for covering."""

    def __init__(self, graph: Graph, kind: str, objs: Objects, scratch: str, use_git: bool, max_len: int,
                 rng, deadline=None):
        self.g, self.kind, self.objs, self.scratch = graph, kind, objs, scratch
        self.max_len, self.rng = max_len, rng
        self.use_git = use_git
        self.deadline = deadline         # time.time() after which no new behaviour is started
        self.git = GitView(objs, scratch) if (use_git and kind == "disk") else None
        self.by_sig, self.nfindings, self.drift, self.ndrift = {}, 0, [], 0
        self.steps = self.behaviours = self.validated = 0
        self.executed = set()            # (src, label idx) executed from a matching real state
        self.nontrivial = set()
        self.samples = []
        self.api_memo = set()
        self.diverged = set()            # (src, label idx) on which the real backend left the model's path
        g = graph
        self.start = g.init
        # edges this backend may take
        self.allowed = [[(li, d) for (li, d) in es if self.edge_ok(g.labels[li])] for es in g.edges]
        if kind != "disk":
            # directories mean nothing to these backends: walk the quotient graph whose nodes are the
            # representatives of equal (loose, packed) placements
            canon = [g.lookup(g.loose[i], g.packed[i]) for i in range(len(g.edges))]
            self.allowed = [sorted({(li, canon[d]) for (li, d) in es}) if canon[i] == i else []
                            for i, es in enumerate(self.allowed)]
            self.start = canon[g.init]
        self.succ = [sorted({d for (_, d) in es}) for es in self.allowed]

    def edge_ok(self, lab):
        if self.kind == "disk":
            return lab["op"] != "GitPack" or self.use_git
        if lab["op"] in ("PackRefs", "GitPack"):
            return False
        if lab["op"] == "Reopen":
            return self.kind == "reftable"
        return lab["common"]

    def reachable_targets(self):
        """(src, label idx) of every allowed edge whose source is reachable over allowed edges."""
        seen, q = {self.start}, collections.deque([self.start])
        while q:
            x = q.popleft()
            for d in self.succ[x]:
                if d not in seen:
                    seen.add(d)
                    q.append(d)
        return {(s, li) for s in seen for (li, _) in self.allowed[s]}

    def new_backend(self):
        root = os.path.join(self.scratch, self.kind)
        if self.kind == "disk":
            return DiskBackend(self.objs, self.g.names, root)
        if self.kind == "dict":
            return DictBackend(self.objs, self.g.names)
        return ReftableBackend(self.objs, self.g.names, root)

    # -- coverage-driven walk
    def cover(self, targets):
        """targets: set of (src, label idx) to execute.  Returns the ones never reached."""
        g = self.g
        unc = collections.Counter(s for (s, _) in targets)
        remaining = set(targets)
        stuck = 0
        while remaining and stuck < 3:
            if self.deadline is not None and time.time() > self.deadline:
                break
            before = len(remaining)
            be = self.new_backend()
            self.behaviours += 1
            cur, hist = self.start, []
            prev_scan = be.scan() if self.kind == "disk" else None
            n = 0
            while n < self.max_len and remaining:
                pick = None
                for (li, d) in self.allowed[cur]:
                    if (cur, li) in remaining:
                        pick = (li, d)
                        break
                if pick is None:
                    path = self.path_to_uncovered(cur, unc)
                    if path is None:
                        break
                    pick = path
                li, d = pick
                nxt, prev_scan = self.step(be, cur, li, d, hist, prev_scan)
                if (cur, li) in remaining:
                    remaining.discard((cur, li))
                    unc[cur] -= 1
                n += 1
                if nxt is None:
                    break
                cur = nxt
            be.close()
            if len(self.samples) < 2 and hist:
                self.samples.append({"backend": self.kind, "behaviour": [h["call"] + " -> " + h["got"] for h in hist[:12]]})
            stuck = stuck + 1 if len(remaining) == before else 0
        return remaining

    def path_to_uncovered(self, cur, unc):
        """First edge of a shortest path (over allowed edges that the real backend is not known to
        leave) to a node with uncovered out-edges."""
        seen = {cur}
        q = collections.deque()
        div = self.diverged
        for (li, d) in self.allowed[cur]:
            if d not in seen and (cur, li) not in div:
                seen.add(d)
                q.append((d, (li, d)))
        while q:
            node, first = q.popleft()
            if unc[node] > 0:
                return first
            for (li, d) in self.allowed[node]:
                if d not in seen and (node, li) not in div:
                    seen.add(d)
                    q.append((d, first))
        return None

    # -- one step
    def step(self, be, cur, li, dst, hist, prev_scan):
        g = self.g
        lab = g.labels[li]
        got, is_oserr, form = be.call(lab["op"], lab["n"], lab["old"], lab["v"], lab["t"])
        self.steps += 1
        hist.append({"op": lab["op"], "n": list(lab["n"]), "old": lab["old"], "v": lab["v"], "t": list(lab["t"]),
                     "form": form, "call": call_str(lab), "want": lab["res"], "got": got})
        self.executed.add((cur, li))
        pre_l, pre_p = g.loose[cur], g.packed[cur]
        if dst != cur or lab["res"] not in ("True", "None"):
            self.nontrivial.add((cur, li))
        sc = be.scan() if self.kind == "disk" else None
        loose, packed, peeled = be.state(sc) if self.kind == "disk" else be.state()
        if self.kind == "disk":
            rdirs = be.dirs(sc)
            real = g.lookup(loose, packed, rdirs)
        else:
            rdirs = None
            real = g.lookup(loose, packed)
            dst = g.lookup(g.loose[dst], g.packed[dst])        # directories mean nothing here
        want_eff, got_eff = eff(g.loose[dst], g.packed[dst]), eff(loose, packed)
        pre_eff = eff(pre_l, pre_p)
        fs = be.fs_diagnosis(prev_scan, lab["tgt"]) if (self.kind == "disk" and lab["tgt"]) else "-"
        case = call_case(lab, pre_l, pre_p, fs, g.obs[cur])
        site = f"{be.site}.{METHOD[lab['op']]}"
        bad = False
        if not result_matches(lab["res"], got, is_oserr, form):
            bad = True
            self.report(site, "result", f"{case} want={lab['res']} got={got} change={diff_desc(lab, pre_eff, got_eff)}",
                        f"{call_str(lab)} returned {got}, the contract says {lab['res']}", hist, be,
                        {"expected_state": _ser(want_eff), "real_state": _ser(got_eff)})
        if got_eff != want_eff and not bad:
            bad = True
            clause = "pack-visible" if lab["op"] == "PackRefs" else ("reopen-visible" if lab["op"] == "Reopen" else "state")
            self.report(site, clause, f"{case} result={got} change={diff_desc(lab, pre_eff, got_eff)}",
                        f"after {call_str(lab)} -> {got} the refs differ from the contract: {diff_desc(lab, want_eff, got_eff)}",
                        hist, be, {"expected_state": _ser(want_eff), "real_state": _ser(got_eff)})
        if not bad and real != dst:
            self.ndrift += 1
        if not bad and real != dst and len(self.drift) < 20:
            self.drift.append(f"{self.kind}: placement after {call_str(lab)} in {case}: real loose={_ser(loose)} "
                              f"packed={_ser(packed)} dirs={sorted('/'.join(d) for d in (rdirs or ()))}; model "
                              f"loose={_ser(g.loose[dst])} packed={_ser(g.packed[dst])} dirs={sorted('/'.join(d) for d in g.dirs[dst])}")
        if not bad:
            self.validated += 1
        if real != dst:
            self.diverged.add((cur, li))
        if real is None and self.kind == "disk":
            real = g.lookup(loose, packed)          # unknown directory layout: go on from the representative
        if real is None:
            return None, sc
        self.check_reads(be, real, sc, peeled, hist)
        return real, sc

    # -- read API, second handle, git
    def check_reads(self, be, node, sc, peeled, hist):
        g = self.g
        loose, packed, obs = g.loose[node], g.packed[node], g.obs[node]
        e = eff(loose, packed)
        feats = state_features(loose, packed, obs)
        api = be.api()
        site = be.site
        for n in g.names:
            pl = placement(loose, packed, n)
            if api["get"][n] != obs[n]:
                self.report(f"{site}.__getitem__", "read", f"name={pl} want={_cls(obs[n])} got={_cls(api['get'][n])}",
                            f"refs[{'/'.join(n)}] gives {api['get'][n]}, the contract says {obs[n]}", hist, be, {})
            if api["contains"][n] != (e[n] != ABSENT):
                self.report(f"{site}.__contains__", "read", f"name={pl} got={api['contains'][n]}",
                            f"{'/'.join(n)} in refs gives {api['contains'][n]}", hist, be, {})
            p = api["peeled"][n]
            if obs[n] in self.objs.peel:
                if p is not None and p != self.objs.peel[obs[n]]:
                    tag = "tag" if self.objs.peel[obs[n]] != obs[n] else "commit"
                    self.report(f"{site}.get_peeled", "peeled",
                                f"name={pl}{_tagns(n)} value={tag} got={'itself' if p == obs[n] else _cls(p)}",
                                f"get_peeled({'/'.join(n)}) gives {p}; the ref holds {obs[n]} which peels to {self.objs.peel[obs[n]]}",
                                hist, be, {})
            elif p is not None and not (isinstance(p, str) and p in ("exc:KeyError", "exc:SymrefLoop")):
                self.report(f"{site}.get_peeled", "peeled", f"name={pl}{_tagns(n)} unresolvable got={_cls(p)}",
                            f"get_peeled({'/'.join(n)}) gives {p} for a ref that does not resolve", hist, be, {})
        want_dict = {n: v for n, v in obs.items() if v in self.objs.ids}
        if api["as_dict"] != want_dict:
            self.report(f"{site}.as_dict", "read", f"state={feats} got={_got(api['as_dict'])}",
                        f"as_dict() gives {_ser(api['as_dict'])}, the contract says {_ser(want_dict)}", hist, be, {})
        want_sym = {n: x[1] for n, x in e.items() if x[0] == "sym"}
        if api["symrefs"] != want_sym:
            self.report(f"{site}.get_symrefs", "read", f"state={feats} got={_got(api['symrefs'])}",
                        f"get_symrefs() gives {_ser(api['symrefs'])}, the contract says {_ser(want_sym)}", hist, be, {})
        for s in api["sub"]:
            wk, wa = sub_expected(e, obs, s["base"], s["mode"], self.objs.ids)
            if s["keys"] != wk:
                self.report(f"{site}.subkeys", "read", sub_case(s, loose, packed, s["keys"]),
                            f"subkeys({base_str(s)!r}) gives {s['keys']}, the refs under it are {wk}", hist, be, {})
            if s["asd"] != wa:
                self.report(f"{site}.as_dict", "read", sub_case(s, loose, packed, s["asd"]),
                            f"as_dict({base_str(s)!r}) gives {_ser(s['asd'])}, the contract says {_ser(wa)}", hist, be, {})
        if self.kind != "disk":
            return
        try:
            od = {tuple(k.decode().split("/")): self.objs.val(v) for k, v in be.observer.as_dict().items()}
        except Exception as ex:  # noqa: BLE001
            od = "exc:" + type(ex).__name__
        if od != want_dict and api["as_dict"] == want_dict:
            self.report(f"{site}.get_packed_refs", "stale-handle", f"state={feats} got={_dictdiff(want_dict, od)}",
                        f"a second, long-lived container sees {_ser(od)} instead of {_ser(want_dict)}", hist, be, {})
        if self.git is not None:
            self.check_git(be, node, sc, hist)

    def check_git(self, be, node, sc, hist):
        g = self.g
        loose, packed, obs = g.loose[node], g.packed[node], g.obs[node]
        fp = be.fingerprint(sc)
        if (node, fp) in self.api_memo:
            return
        self.api_memo.add((node, fp))
        view = self.git.view(sc, fp)
        for clause, case, what in git_diffs(self.objs, view, obs, loose, packed):
            self.report(be.site, "git-view", f"{clause} {case}", what, hist, be, {"git": view})

    def report(self, site, clause, case, what, hist, be, extra):
        """One finding per signature: the occurrence with the shortest history is kept."""
        sig = f"{site}|{clause}|{case}"
        self.nfindings += 1
        old = self.by_sig.get(sig)
        if old is not None and len(old.replay["calls"]) <= len(hist):
            return
        obj = {"backend": self.kind, "names": [list(n) for n in self.g.names], "calls": [dict(h) for h in hist],
               "clause": clause, "case": case}
        obj.update(extra)
        self.by_sig[sig] = Finding(sig, what, obj)

    @property
    def findings(self):
        return list(self.by_sig.values())


def base_str(s):
    raw = "/".join(s["base"])
    return raw + "/" if s["mode"] == "slash" else (raw[:-1] if s["mode"] == "partial" else raw)


def sub_expected(e, obs, base, mode, ids):
    """Keys under a base (whole path components) and their resolved values, from the state."""
    if mode == "partial":
        return [], {}
    under = [n for n, x in e.items() if x != ABSENT and len(n) > len(base) and n[:len(base)] == tuple(base)]
    return sorted(n[len(base):] for n in under), {n[len(base):]: obs[n] for n in under if obs.get(n) in ids}


def sub_case(s, loose, packed, got):
    raw = base_str(s)
    near = [n for n in loose if "/".join(n).startswith(raw.rstrip("/"))]
    pk = any(packed.get(n, ABSENT) != ABSENT for n in near)
    return f"base={'/'.join(s['base'])} mode={s['mode']} packed-below={'yes' if pk else 'no'} got={_got(got)}"


def git_diffs(objs, view, obs, loose, packed):
    """Differences between C git's listing of the directory and what the state (obs = refs[n] for
    every name, loose/packed placement) says it should list: [(clause, case, what)] with the clause
    names of RefMapTrace (git-refs, git-peeled, git-symref, git-head)."""
    out = []
    feats = state_features(loose, packed, obs)
    if view["err"]:
        out.append(("git-refs", f"git-error state={feats}", f"git fails on the directory: {view['err']}"))
    want = {}
    for n, v in obs.items():
        if v in objs.ids and (n != HEAD or view["head_ok"]):
            want["/".join(n)] = v
            if objs.peel[v] != v:
                want["/".join(n) + "^{}"] = objs.peel[v]
    for k in sorted(set(want) | set(view["refs"])):
        w, r = want.get(k), view["refs"].get(k)
        if w != r:
            pl = k.endswith("^{}")
            base = tuple(k[:-3].split("/")) if pl else tuple(k.split("/"))
            out.append(("git-peeled" if pl else "git-refs",
                        f"show-ref name={placement(loose, packed, base)}"
                        f"{' tag-namespace' if base[:2] == ('refs', 'tags') else ''} want={_pres(w)} got={_pres(r)}"
                        f"{'' if (w is None or r is None) else '(other)'}",
                        f"git show-ref -d lists {k} as {r}, the contract says {w}"))
    want_fer = {k: v for k, v in want.items() if k.startswith("refs/") and not k.endswith("^{}")}
    if view["for_each_ref"] != want_fer:
        out.append(("git-refs", f"for-each-ref state={feats} got={_dictdiff(want_fer, view['for_each_ref'])}",
                    f"git for-each-ref lists {view['for_each_ref']}, the contract says {want_fer}"))
    e = eff(loose, packed)
    for k in want_fer:
        # %(symref) names the end of the chain; here only: does git see a symbolic ref at all
        # (RefMapTrace compares the name)
        n = tuple(k.split("/"))
        if bool(view["symref"].get(k, "")) != (e[n][0] == "sym"):
            out.append(("git-symref", f"name={placement(loose, packed, n)} want={'sym' if e[n][0] == 'sym' else 'direct'}",
                        f"git for-each-ref %(symref) of {k} is {view['symref'].get(k)!r}, the ref is {e[n]}"))
    if view["head_ok"]:
        ws = "/".join(e[HEAD][1]) if e.get(HEAD, ABSENT)[0] == "sym" else None
        if view["head_sym"] != ws:
            out.append(("git-head", f"symbolic-ref HEAD want={'sym' if ws else 'none'}",
                        f"git symbolic-ref HEAD gives {view['head_sym']!r}, the contract says {ws!r}"))
    return out


def _cls(v):
    if v is None:
        return "None"
    if isinstance(v, str) and (v.startswith("v") or v.startswith("?")):
        return "id"
    return str(v)


def _tagns(n):
    return " tag-namespace" if tuple(n[:2]) == ("refs", "tags") else ""


def _got(v):
    return v if isinstance(v, str) else "wrong-content"


def _pres(v):
    return "absent" if v is None else "present"


def _ser(m):
    if not isinstance(m, dict):
        return m
    out = {}
    for k, v in m.items():
        kk = "/".join(k) if isinstance(k, tuple) else str(k)
        if isinstance(v, tuple):
            if v == ABSENT:
                continue
            if len(v) == 2 and v[0] == "direct" and isinstance(v[1], str):
                v = v[1]
            elif len(v) == 2 and v[0] == "sym" and isinstance(v[1], tuple):
                v = "ref: " + "/".join(v[1])
            else:
                v = "/".join(v)          # a ref name
        out[kk] = v
    return out


def _dictdiff(want, got):
    if not isinstance(got, dict):
        return str(got)
    out = []
    for k in set(want) | set(got):
        if want.get(k) != got.get(k):
            out.append("missing" if k not in got else ("extra" if k not in want else "wrong-value"))
    return ",".join(sorted(set(out))) or "same"

"""C16, ref-name part: dulwich.refs.check_ref_format versus specs/RefName.tla versus git.

spec -> code: TLC enumerates every token string up to a bound (one initial state per string, with
the bytes and the specification's verdict); the harness runs check_ref_format and
`git check-ref-format` on exactly those bytes.
code -> spec: the harness builds names TLC does not enumerate (every byte value in several
contexts; random long names out of rule-relevant fragments), records what dulwich and git say,
and TLC (RefNameTrace) judges every recorded verdict with Valid().

A name on which git and the specification disagree is a specification error (machinery failure),
never a finding; a finding is dulwich differing from the specification (and from git where git
can be asked: no NUL byte, no leading '-')."""
from __future__ import annotations

import json
import multiprocessing as mp
import os
import re
import subprocess

from . import tlaval, tlc
from .core import MachineryError

SITE = "dulwich/refs.py:check_ref_format"
_RE_BLOCK = re.compile(r"^/\\ (ok|bytes) = (.*)$", re.M)
FRAGMENTS = [b"/", b"/", b"/", b".", b"..", b".lock", b".lock/", b"lock", b".loc", b"@", b"@{", b"{", b"\\", b"~", b"^", b":",
             b"?", b"*", b"[", b" ", b"\x7f", b"\x01", b"\x1f", b"\t", b"\n", b"x", b"ab", b"refs", b"heads", b"HEAD", b"-",
             b"\x80", b"\xff", b"\xc3\xa9", b"}", b"]", b"_", b"0", b"//", b"/.", b"./", b"@/", b"a@b", b"x.lockx", b".LOCK"]


def start_models(ctx, pool):
    d = ctx.tmpdir("names")
    dump = os.path.join(d, "names")
    cfg = ctx.pick("RefName_enum4.cfg", "RefName_enum5.cfg")
    return {"enum": pool.submit(tlc.run, "RefName.tla", cfg, workers=ctx.pick(2, 6), timeout=3000, dump_states=dump),
            "dump": dump + ".dump", "cfg": cfg}


def load_dump(path):
    out = []
    with open(path) as f:
        text = f.read()
    for block in re.split(r"^State \d+:\s*$", text, flags=re.M):
        block = " ".join(block.split())            # TLC wraps long tuples over several lines
        if not block:
            continue
        mb = re.search(r"/\\ bytes = <<([0-9, ]*)>>", block)
        mo = re.search(r"/\\ ok = (TRUE|FALSE)", block)
        if not mb or not mo:
            raise MachineryError(f"cannot parse state dump block: {block[:200]}")
        inner = mb.group(1).strip()
        out.append((bytes(int(x) for x in inner.split(",")) if inner else b"", mo.group(1) == "TRUE"))
    return out


# ------------------------------------------------------------------------------- implementations
def dulwich_verdict(name: bytes):
    from dulwich.refs import check_ref_format
    try:
        return bool(check_ref_format(name))
    except Exception as e:  # noqa: BLE001 - an exception is a (wrong) answer
        return "exc:" + type(e).__name__


def git_askable(name: bytes) -> bool:
    return b"\x00" not in name and not name.startswith(b"-") and len(name) > 0


_GIT_ENV = None


def _git_chunk(names):
    global _GIT_ENV
    if _GIT_ENV is None:
        _GIT_ENV = {"PATH": os.environ.get("PATH", "/usr/bin:/bin"), "HOME": "/nonexistent", "GIT_CONFIG_NOSYSTEM": "1",
                    "GIT_CONFIG_GLOBAL": "/dev/null", "LC_ALL": "C"}
    out = []
    for n in names:
        if not git_askable(n):
            out.append(None)
            continue
        p = subprocess.run(["git", "check-ref-format", n], env=_GIT_ENV, stdout=subprocess.DEVNULL, stderr=subprocess.DEVNULL)
        out.append(True if p.returncode == 0 else (False if p.returncode == 1 else "rc%d" % p.returncode))
    return out


def git_verdicts(names, nproc):
    if not names:
        return []
    size = max(50, -(-len(names) // (nproc * 8)))
    chunks = [names[i:i + size] for i in range(0, len(names), size)]
    with mp.get_context("fork").Pool(nproc) as pool:
        res = pool.map(_git_chunk, chunks, chunksize=1)
    return [v for ch in res for v in ch]


def classes(name: bytes) -> str:
    out = []
    for b in name:
        ch = chr(b)
        if ch in "/.@{\\~^:?*[lock":
            s = ch
        elif b < 32:
            s = "C"
        elif b == 127:
            s = "D"
        elif b == 32:
            s = "S"
        else:
            s = "x"
        if s == "x" and out and out[-1] == "x":
            continue
        out.append(s)
    return "".join(out) or "(empty)"


def judge(ctx, name, spec, dul, git, how):
    """Compare one name.  Returns True when dulwich agrees with the specification."""
    if git is not None and git != spec:
        raise MachineryError(f"RefName.tla and git check-ref-format disagree on {name!r}: spec {spec}, git {git} "
                             f"(specification error, fix the specification)")
    if dul == spec:
        return True
    kind = "accepts-invalid" if dul is True else ("rejects-valid" if dul is False else f"raises-{dul}")
    ctx.violation(f"{SITE}|{kind}|{classes(name)}",
                  f"check_ref_format({name!r}) = {dul}; git-check-ref-format rules say {spec}" + (f", git says {git}" if git is not None else ""),
                  {"kind": "refname", "name_hex": name.hex(), "spec": spec, "dulwich": dul, "git": git, "found_by": how})
    return False


# ------------------------------------------------------------------------------- run
def record(ctx, pool, nproc, use_git):
    """code -> spec: names TLC does not enumerate; verdicts of dulwich and git recorded, judged by
    RefNameTrace in the background."""
    rng = ctx.rng
    extra, seen = [], set()

    def add(n):
        if n not in seen and len(n) <= 60:
            seen.add(n)
            extra.append(n)
    for b in range(256):
        c = bytes([b])
        for tpl in (c + b"/x", b"x/" + c, b"x/" + c + b"y", b"x" + c + b"/y", b"x/y" + c, c + c + b"/x", b"x/@" + c, b"x/" + c + b"lock",
                    b"x/a." + c + b"ock", b"x/a.loc" + c, c, b"x/a" + c + b"b/c"):
            add(tpl)
    nrand = ctx.pick(5000, 150000)
    for _ in range(nrand):
        k = rng.randint(2, 9)
        add(b"".join(rng.choice(FRAGMENTS) for _ in range(k)))
    dul = [dulwich_verdict(n) for n in extra]
    nask = len(extra) if not ctx.quick else min(len(extra), 6000)
    gits = git_verdicts(extra[:nask], nproc) if use_git else []
    gits += [None] * (len(extra) - len(gits))
    d = ctx.tmpdir("nm")
    path = os.path.join(d, "cases.ndjson")

    def s3(v):
        return "na" if v is None else ("T" if v is True else ("F" if v is False else "X"))
    with open(path, "w") as f:
        for i, (n, dv, gv) in enumerate(zip(extra, dul, gits)):
            f.write(json.dumps({"id": i, "b": list(n), "dul": s3(dv), "git": s3(gv)}, separators=(",", ":")) + "\n")
    fut = pool.submit(tlc.run, "RefNameTrace.tla", "RefNameTrace.cfg", workers=ctx.pick(2, 6), timeout=3000, env={"CASE_FILE": path})
    return {"extra": extra, "dul": dul, "gits": gits, "fut": fut}


def finish(ctx, futs, rec, nproc, use_git):
    # ---- spec -> code: the enumerated names
    res = futs["enum"].result()
    ctx.add_tlc(f"{futs['cfg']} (every token string up to the bound, verdict by Valid, invariant Sane)", res)
    cases = load_dump(futs["dump"])
    if len(cases) != res.distinct:
        raise MachineryError(f"state dump has {len(cases)} names, TLC reported {res.distinct}")
    os.remove(futs["dump"])
    names = [b for b, _ in cases]
    gits = git_verdicts(names, nproc) if use_git else [None] * len(names)
    agree = 0
    for (name, spec), g in zip(cases, gits):
        agree += judge(ctx, name, spec, dulwich_verdict(name), g, "enumeration")
    ctx.count(len(names))
    ctx.validated(agree)
    ctx.log(f"ref names: {len(names)} enumerated names, dulwich agrees on {agree}, git asked on {sum(g is not None for g in gits)}")
    # ---- code -> spec: the recorded names
    extra, dul, rgits = rec["extra"], rec["dul"], rec["gits"]
    r2 = rec["fut"].result()
    ctx.add_tlc("RefNameTrace (recorded verdicts of dulwich and git judged by Valid)", r2, require_ok=False)
    if not r2.completed or r2.distinct != len(extra) or "Error:" in r2.output:
        raise MachineryError(f"RefNameTrace judged {r2.distinct} of {len(extra)} names\n{r2.output[-2000:]}")
    bad = 0
    for line in r2.output.splitlines():
        if line.startswith('<<"MISMATCH"'):
            _, i, v, dv, gv = tlaval.parse(line.strip())
            bad += not judge(ctx, extra[i], v == "T", dul[i], rgits[i], "recorded verdict judged by TLC")
    ctx.count(len(extra))
    ctx.validated(len(extra) - bad)
    special = [n for n in set(names) | set(extra) if classes(n) != "x"]
    ctx._nontrivial.update(("name", n.hex()) for n in special)
    ctx.cov["refname"] = {"enumerated": len(names), "recorded": len(extra), "git_asked_recorded": sum(g is not None for g in rgits),
                          "nontrivial": len(special)}
    k = len(extra) // 3
    ctx.sample({"kind": "refname", "name": repr(extra[k]), "dulwich": dul[k], "git": rgits[k]}, limit=5)
    ctx.log(f"ref names: {len(extra)} recorded names judged by TLC, {bad} disagreements")


def replay(ctx, obj):
    name = bytes.fromhex(obj["name_hex"])
    dv = dulwich_verdict(name)
    gv = _git_chunk([name])[0]
    d = ctx.tmpdir("nm")
    path = os.path.join(d, "cases.ndjson")
    with open(path, "w") as f:
        f.write(json.dumps({"id": 0, "b": list(name), "dul": "T" if dv is True else ("F" if dv is False else "X"), "git": "na"}) + "\n")
    r = tlc.run("RefNameTrace.tla", "RefNameTrace.cfg", workers=1, timeout=300, env={"CASE_FILE": path})
    mism = [l for l in r.output.splitlines() if l.startswith('<<"MISMATCH"')]
    print(f"  name {name!r}: check_ref_format -> {dv}; git check-ref-format -> {gv}; RefName!Valid -> "
          f"{'differs: ' + mism[0] if mism else 'agrees with dulwich'}")
    print("replay verdict:", "VIOLATION reproduced" if mism else "no disagreement")
    return 1 if mism else 0

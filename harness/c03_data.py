"""C03 helpers shared by the check (parent) and its worker children.  Never imports dulwich.

* limbs <-> int, declared-size buckets (canonical classes used in violation signatures)
* deterministic blobs from small recipes (so that large bases never travel through JSON)
* materialisation of an output from the segment list computed by TLC
* a minimal git pack writer / reader used ONLY as a projection (C git as encoder / decoder)
* fast reader for TLC state dumps whose values are ints, strings, booleans and flat int tuples
"""
from __future__ import annotations

import hashlib
import random
import struct
import zlib


# ------------------------------------------------------------------ numbers
def limbs_to_int(d):
    """base-128 digits, least significant first; (-1,) = the delta declares no size."""
    if len(d) == 1 and d[0] == -1:
        return None
    n = 0
    for i, x in enumerate(d):
        n |= x << (7 * i)
    return n


def int_to_limbs(n):
    out = []
    while n:
        out.append(n & 0x7F)
        n >>= 7
    return out


def bucket(declared):
    if declared is None:
        return "none"
    for name, lim in (("<2^30", 1 << 30), ("[2^30,2^63)", 1 << 63), ("[2^63,2^64)", 1 << 64)):
        if declared < lim:
            return name
    return ">=2^64"


# ------------------------------------------------------------------ blobs
_cache = {}


def pattern_base(n: int) -> bytes:
    """The base of length n used for op-level cases (TLC only knows the length)."""
    if n not in _cache:
        if len(_cache) > 6:
            _cache.clear()
        _cache[n] = random.Random(0xC03 ^ n).randbytes(n)
    return _cache[n]


def blob(recipe) -> bytes:
    """recipe = list of parts: ["hex", s] | ["rand", seed, n] | ["rep", byte, n] | ["pat", n]
    | ["slice", recipe, a, b] | ["text", seed, nlines]"""
    out = []
    for part in recipe:
        k = part[0]
        if k == "hex":
            out.append(bytes.fromhex(part[1]))
        elif k == "rand":
            out.append(random.Random(part[1]).randbytes(part[2]))
        elif k == "rep":
            out.append(bytes([part[1]]) * part[2])
        elif k == "pat":
            out.append(pattern_base(part[1]))
        elif k == "slice":
            out.append(blob(part[1])[part[2]:part[3]])
        elif k == "text":
            r = random.Random(part[1])
            words = [b"alpha", b"beta", b"gamma", b"delta", b"epsilon", b"zeta", b"eta", b"theta", b"iota", b"kappa"]
            lines = []
            for i in range(part[2]):
                lines.append(b"%d: " % i + b" ".join(r.choice(words) for _ in range(r.randint(1, 8))) + b"\n")
            out.append(b"".join(lines))
        else:
            raise ValueError(k)
    return b"".join(out)


def materialise(base: bytes, delta: bytes, flat) -> bytes:
    """flat = (kind, off, n, kind, off, n, ...) as computed by TLC; kind 0 = base, 1 = delta."""
    out = []
    for i in range(0, len(flat), 3):
        k, off, n = flat[i], flat[i + 1], flat[i + 2]
        src = base if k == 0 else delta
        piece = src[off:off + n]
        if len(piece) != n:
            raise ValueError("segment outside its source")
        out.append(piece)
    return b"".join(out)


def sha1(b: bytes) -> str:
    return hashlib.sha1(b).hexdigest()


# ------------------------------------------------------------------ git pack projection
def git_blob_sha(data: bytes) -> bytes:
    return hashlib.sha1(b"blob %d\x00" % len(data) + data).digest()


def _obj_header(type_num: int, size: int) -> bytes:
    c = (type_num << 4) | (size & 0x0F)
    size >>= 4
    out = bytearray()
    while size:
        out.append(c | 0x80)
        c = size & 0x7F
        size >>= 7
    out.append(c)
    return bytes(out)


def _ofs(rel: int) -> bytes:
    out = [rel & 0x7F]
    rel >>= 7
    while rel:
        rel -= 1
        out.append(0x80 | (rel & 0x7F))
        rel >>= 7
    return bytes(reversed(out))


def write_pack(objs):
    """objs: ("blob", data) | ("obj", type_num, data) | ("ofs_delta", index of the base entry (earlier), delta_bytes).
    -> (pack bytes, [offset of each entry])."""
    parts = [b"PACK", struct.pack(">LL", 2, len(objs))]
    pos = 12
    offs = []
    for o in objs:
        offs.append(pos)
        if o[0] == "blob":
            e = _obj_header(3, len(o[1])) + zlib.compress(o[1], 1)
        elif o[0] == "obj":
            e = _obj_header(o[1], len(o[2])) + zlib.compress(o[2], 1)
        else:
            e = _obj_header(6, len(o[2])) + _ofs(pos - offs[o[1]]) + zlib.compress(o[2], 1)
        parts.append(e)
        pos += len(e)
    data = b"".join(parts)
    return data + hashlib.sha1(data).digest(), offs


def read_pack_entry(data: bytes, off: int):
    """-> (type_num, size, base, payload, next_off); base = ('ofs', abs_offset) | ('ref', sha20) | None."""
    start = off
    c = data[off]
    off += 1
    t = (c >> 4) & 7
    size = c & 0x0F
    shift = 4
    while c & 0x80:
        c = data[off]
        off += 1
        size |= (c & 0x7F) << shift
        shift += 7
    base = None
    if t == 6:
        c = data[off]
        off += 1
        rel = c & 0x7F
        while c & 0x80:
            c = data[off]
            off += 1
            rel = ((rel + 1) << 7) | (c & 0x7F)
        base = ("ofs", start - rel)
    elif t == 7:
        base = ("ref", data[off:off + 20])
        off += 20
    d = zlib.decompressobj()
    payload = d.decompress(data[off:])
    used = len(data) - off - len(d.unused_data)
    if len(payload) != size:
        raise ValueError("pack entry size mismatch")
    return t, size, base, payload, off + used


# ------------------------------------------------------------------ TLC dump reader
def _val(v: str):
    c = v[0]
    if c == "<":
        inner = v[2:-2].strip()
        return tuple(int(x) for x in inner.split(",")) if inner else ()
    if c == '"':
        return v[1:-1]
    if v == "TRUE":
        return True
    if v == "FALSE":
        return False
    return int(v)


def read_dump(path, start=0, end=None):
    """Yield one dict per state of a TLC `-dump` file; [start, end) must be aligned to 'State ' lines.
    Long tuples are wrapped by TLC over several lines (continuation lines start with blanks)."""
    with open(path, "rb") as f:
        f.seek(start)
        pos = start
        cur = None
        name = None
        buf = None
        for raw in f:
            if end is not None and pos >= end:
                break
            pos += len(raw)
            line = raw.decode("ascii").rstrip("\n")
            if line.startswith("/\\ "):
                if name is not None:
                    cur[name] = _val("".join(buf))
                name, _, v = line[3:].partition(" = ")
                buf = [v]
            elif line.startswith("State "):
                if name is not None:
                    cur[name] = _val("".join(buf))
                    name = None
                if cur is not None:
                    yield cur
                cur = {}
            elif line.strip() and name is not None:
                buf.append(line.strip())
        if name is not None:
            cur[name] = _val("".join(buf))
        if cur:
            yield cur


def split_dump(path, parts):
    """Byte offsets aligned to state boundaries: [(start, end), ...]."""
    import mmap
    import os
    size = os.path.getsize(path)
    if size == 0:
        return []
    with open(path, "rb") as f:
        mm = mmap.mmap(f.fileno(), 0, access=mmap.ACCESS_READ)
        cuts = [0]
        for i in range(1, parts):
            p = mm.find(b"\nState ", size * i // parts)
            if p < 0:
                break
            p += 1
            if p > cuts[-1]:
                cuts.append(p)
        cuts.append(size)
        mm.close()
    return [(cuts[i], cuts[i + 1]) for i in range(len(cuts) - 1) if cuts[i] < cuts[i + 1]]

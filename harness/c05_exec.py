"""C05 worker: materialise one case as real repositories, execute the transfer through the real
dulwich code (and C git), record what happened as a trace for TransferTrace.tla.

A job (plain dict):
  tid, U {par, tr, ent, lnk, tg}, sh [commit numbers with a branch on the sender], full 0/1,
  rh [..], rt [..] (receiver branches / tag refs), wants [[kind, n]..], forged 0/1,
  op "fetch" | "clone" | "push", transport (see TRANSPORTS), caps {mode, thin, ofs, sideband,
  inctag, nodone, v2}, slayout / rlayout "loose" | "gitpack" | "bitmap", skew {commit: time}.
run_job(job) -> list of trace records (dicts ready for json.dumps).  Nothing here decides a
verdict; TLC does.
"""
from __future__ import annotations

import io
import os
import shutil
import socket
import sys
import threading
import time
import traceback

from . import c05_lib as L

ZERO = b"0" * 40
_state = {}


# --------------------------------------------------------------------------- recording dulwich server
def _server():
    s = _state.get("srv")
    if s is None:
        s = _state["srv"] = _Server()
    return s


class _Server:
    """One dulwich TCPGitServer per worker process, serving any absolute path; the handlers are the
    real UploadPackHandler / ReceivePackHandler with the Protocol object's pkt-line and byte level
    calls recorded."""

    def __init__(self):
        from dulwich.repo import Repo
        from dulwich.server import Backend, ReceivePackHandler, TCPGitServer, UploadPackHandler
        outer = self
        self.log = None          # list of events of the current connection
        self.rawin = None        # bytes consumed from the client
        self.errors = []
        self.repos = []

        class AnyPathBackend(Backend):
            def open_repository(self, path):
                if isinstance(path, bytes):
                    path = path.decode()
                r = Repo(path)
                outer.repos.append(r)
                return r

        def instrument(proto):
            log, raw = outer.log, outer.rawin
            rpl, wpl, rd, rv = proto.read_pkt_line, proto.write_pkt_line, proto.read, getattr(proto, "recv", None)

            def read_pkt_line():
                p = rpl()
                if log is not None:
                    log.append(("r", p))
                return p

            def write_pkt_line(line):
                if log is not None and (line is None or line[:1] not in (b"\x01", b"\x02", b"\x03")):
                    log.append(("w", line))
                return wpl(line)

            def read(n):
                d = rd(n)
                if raw is not None:
                    raw.write(d)
                return d

            proto.read_pkt_line, proto.write_pkt_line, proto.read = read_pkt_line, write_pkt_line, read
            if rv is not None:
                def recv(n):
                    d = rv(n)
                    if raw is not None:
                        raw.write(d)
                    return d
                proto.recv = recv

        class RecUpload(UploadPackHandler):
            def __init__(self, backend, args, proto, stateless_rpc=False, advertise_refs=False):
                if outer.log is not None:
                    outer.log.append(("req", b"advertise" if advertise_refs else b"rpc" if stateless_rpc else b"stream"))
                instrument(proto)
                super().__init__(backend, args, proto, stateless_rpc=stateless_rpc, advertise_refs=advertise_refs)

        class RecReceive(ReceivePackHandler):
            def __init__(self, backend, args, proto, stateless_rpc=False, advertise_refs=False):
                instrument(proto)
                super().__init__(backend, args, proto, stateless_rpc=stateless_rpc, advertise_refs=advertise_refs)

        class Srv(TCPGitServer):
            def handle_error(self, request, client_address):
                outer.errors.append(traceback.format_exc(limit=3).strip().splitlines()[-1])

            def finish_request(self, request, client_address):
                try:
                    super().finish_request(request, client_address)
                finally:
                    outer.idle.set()

        self.idle = threading.Event()
        self.idle.set()
        self.handlers = {b"git-upload-pack": RecUpload, b"git-receive-pack": RecReceive}
        self.backend = AnyPathBackend()
        self.srv = Srv(self.backend, "127.0.0.1", 0, handlers=self.handlers)
        self.port = self.srv.server_address[1]
        self.thread = threading.Thread(target=self.srv.serve_forever, kwargs={"poll_interval": 0.005}, daemon=True)
        self.thread.start()
        self.http_port = None

    def http(self):
        """dulwich's WSGI smart-HTTP application (stateless-rpc) on loopback, same recording handlers"""
        if self.http_port is None:
            from wsgiref.simple_server import make_server

            from dulwich.web import WSGIRequestHandlerLogger, WSGIServerLogger, make_wsgi_chain
            app = make_wsgi_chain(self.backend, handlers=self.handlers)
            self.httpd = make_server("127.0.0.1", 0, app, handler_class=WSGIRequestHandlerLogger,
                                     server_class=WSGIServerLogger)
            self.http_port = self.httpd.server_address[1]
            threading.Thread(target=self.httpd.serve_forever, kwargs={"poll_interval": 0.005}, daemon=True).start()
        return self.http_port

    def begin(self):
        self.log, self.rawin, self.errors = [], io.BytesIO(), []
        self.idle.clear()

    def end(self, wait=True):
        """wait until the request handler has returned; -> (events, raw bytes read, errors)"""
        if wait:
            self.idle.wait(20)
        log, raw, err = self.log or [], self.rawin.getvalue() if self.rawin else b"", list(self.errors)
        self.log = self.rawin = None
        for r in self.repos:
            try:
                r.close()
            except Exception:
                pass
        self.repos.clear()
        return log, raw, err


# --------------------------------------------------------------------------- helpers
def _scratch():
    d = _state.get("root")
    if d is None:
        base = "/dev/shm" if os.path.isdir("/dev/shm") and os.access("/dev/shm", os.W_OK) else "/verif/out/tmp"
        d = _state["root"] = os.path.join(base, f"verif-C05-w{os.getpid()}")
        shutil.rmtree(d, ignore_errors=True)
        os.makedirs(d)
        import atexit
        atexit.register(shutil.rmtree, d, True)
    return d


def _universe(job):
    U = job["U"]
    key = repr((U, job.get("skew"), job.get("big", True)))
    cache = _state.setdefault("ucache", {})
    u = cache.get(key)
    if u is None:
        if len(cache) > 200:
            cache.clear()
        skew = {int(k): v for k, v in (job.get("skew") or {}).items()}
        u = cache[key] = L.Universe(U["par"], U["tr"], U["ent"], U.get("lnk"), U["tg"], skew=skew,
                                    big_blobs=job.get("big", True))
    return u


def _layout(path, layout):
    if layout == "gitpack":
        L.git_repack(path)
    elif layout == "bitmap":
        L.git_repack(path, bitmap=True)


def _sender_refs(job):
    refs = {f"refs/heads/b{i}": ("c", i) for i in job["sh"]}
    for m in range(1, len(job["U"]["tg"]) + 1):
        refs[f"refs/tags/g{m}"] = ("g", m)
    return refs


def _receiver_refs(job):
    refs = {f"refs/heads/b{i}": ("c", i) for i in job["rh"]}
    for m in job["rt"]:
        refs[f"refs/tags/g{m}"] = ("g", m)
    return refs


def _objs(names):
    return [L.jobj(o) for o in sorted(names)]


def _project_repo(path, u):
    """(known objects, #unknown ids, #objects whose bytes differ) as a fresh dulwich Repo sees the
    directory."""
    from dulwich.repo import Repo
    r = Repo(path)
    try:
        known, unknown, bad = [], 0, 0
        for sha in r.object_store:
            s = sha.decode()
            o = u.name.get(s)
            if o is None:
                unknown += 1
                continue
            known.append(o)
            try:
                tn, raw = r.object_store.get_raw(sha)
            except Exception:
                bad += 1
                continue
            typ, body = u.raw[o]
            if L.TYPE_NUM[typ] != tn or raw != body:
                bad += 1
        return sorted(set(known)), unknown, bad
    finally:
        r.close()


def _refs_of(path):
    """ref name -> sha (loose and packed), read without dulwich/git"""
    out = {}
    pr = os.path.join(path, "packed-refs")
    if os.path.exists(pr):
        with open(pr) as f:
            for ln in f:
                ln = ln.strip()
                if ln and ln[0] not in "#^":
                    sha, name = ln.split(" ", 1)
                    out[name] = sha
    rd = os.path.join(path, "refs")
    for dp, _dn, fn in os.walk(rd):
        for f in fn:
            if f.endswith(".lock"):
                continue
            p = os.path.join(dp, f)
            with open(p) as fh:
                v = fh.read().strip()
            if not v.startswith("ref:"):
                out[os.path.relpath(p, path)] = v
    return out


def _parse_sent(u, data):
    """pack bytes -> (sent objects, #unknown ids, thin bases, info)"""
    if not data:
        return [], 0, [], {"n": 0, "empty": True}
    objs, info = L.parse_pack(data, lambda s: u.raw[u.name[s]])
    known, unknown = u.names(objs.keys())
    bad = 0
    for s, (typ, body) in objs.items():
        o = u.name.get(s)
        if o is not None and u.raw[o] != (typ, body):
            bad += 1
    thin, _ = u.names(info["thin_bases"])
    info["bad"] = bad
    return known, len(unknown) + bad, thin, info


def _dialogue(u, events, side):
    """pkt-line events -> abstract dialogue for TransferTrace ([] if it cannot be expressed)."""
    out = []
    started = False
    for d, p in events:
        if d == "req":
            continue
        if p is None:
            if d == ("r" if side == "srv" else "w") and started:
                out.append([d, "flush"])
            continue
        line = p.rstrip(b"\n")
        w = line.split(b" ")
        if w[0] == b"have" and len(w) == 2:
            started = True
            o = u.name.get(w[1].decode())
            if o is None:
                return None
            out.append([d, "have", L.jobj(o)])
        elif w[0] == b"done":
            out.append([d, "done"])
            started = False
        elif w[0] == b"ACK":
            o = u.name.get(w[1].decode())
            if o is None:
                return None
            out.append([d, "ACK", L.jobj(o), w[2].decode() if len(w) > 2 else ""])
        elif w[0] == b"NAK":
            out.append([d, "NAK"])
    return out


def _shallow_in_have_loop(clog):
    """number of shallow / unshallow / flush packets the dulwich client read between its first
    "have" and its "done" (they belong to the shallow-info section, not to the negotiation)"""
    n, inside = 0, False
    for d, p in clog:
        if d == "w" and p and p.startswith(b"have "):
            inside = True
        elif d == "w" and p and p.startswith(b"done"):
            break
        elif d == "r" and inside and (p is None or p.startswith((b"shallow ", b"unshallow "))):
            n += 1
    return n


def _mode_of(caps):
    return caps.get("mode", "detailed")


def _apply_caps(client, caps):
    fc = client._fetch_capabilities
    m = caps.get("mode", "detailed")
    if m in ("single", "multi"):
        fc.discard(b"multi_ack_detailed")
    if m == "single":
        fc.discard(b"multi_ack")
    if not caps.get("thin", True):
        fc.discard(b"thin-pack")
    if not caps.get("ofs", True):
        fc.discard(b"ofs-delta")
    if not caps.get("sideband", True):
        fc.discard(b"side-band-64k")
    if caps.get("inctag"):
        fc.add(b"include-tag")
    if caps.get("nodone"):
        fc.add(b"no-done")


class _Tee:
    def __init__(self):
        self.buf = io.BytesIO()

    def wrap_fetch_pack(self, client):
        orig = client.fetch_pack
        buf = self.buf

        def fetch_pack(path, determine_wants, graph_walker, pack_data, *a, **kw):
            def tee(d):
                buf.write(d)
                return pack_data(d)
            return orig(path, determine_wants, graph_walker, tee, *a, **kw)
        client.fetch_pack = fetch_pack


class _RecWalker:
    """records next()/ack() of the real ObjectStoreGraphWalker (in-process transports)"""

    def __init__(self, w, log):
        self._w, self._log = w, log

    def __getattr__(self, k):
        return getattr(self._w, k)

    def __setattr__(self, k, v):
        if k in ("_w", "_log"):
            object.__setattr__(self, k, v)
        else:
            setattr(self._w, k, v)

    def next(self):
        r = next(self._w)
        self._log.append(("w", b"have " + r if r is not None else b"done"))
        return r

    __next__ = next

    def ack(self, sha):
        self._log.append(("r", b"ACK " + sha + b" common"))
        return self._w.ack(sha)

    def nak(self):
        return self._w.nak()


def _install_client_tap():
    """class-level tap on the stateful dulwich clients (also the ones porcelain creates itself): the
    pkt-lines they write and read go to _state["clog"] while it is a list"""
    if _state.get("tap"):
        return
    _state["tap"] = True
    from dulwich import client as C
    for cls in (C.TCPGitClient, C.SubprocessGitClient):
        orig = cls._connect

        def _connect(self, cmd, path, protocol_version=None, _orig=orig):
            proto, can_read, stderr = _orig(self, cmd, path, protocol_version)
            log = _state.get("clog")
            if log is not None and not getattr(self, "_c05_tapped", False):
                rpl, wpl = proto.read_pkt_line, proto.write_pkt_line

                def read_pkt_line():
                    p = rpl()
                    log.append(("r", p))
                    return p

                def write_pkt_line(line):
                    log.append(("w", line))
                    return wpl(line)
                proto.read_pkt_line, proto.write_pkt_line = read_pkt_line, write_pkt_line
            return proto, can_read, stderr
        cls._connect = _connect


def _client_symptoms(rec, clog, v2):
    """symptoms of the two shallow-info defects in the client's own pkt-line log"""
    if not clog:
        return
    if rec["depth"]:
        rec["info"]["shallow_in_have_loop"] = _shallow_in_have_loop(clog)
    else:
        after_done = False
        for d, p in clog:
            if d == "w" and p and p.startswith(b"done"):
                after_done = True
            elif after_done and d == "r" and p is not None:
                if p.startswith(b"shallow-info"):
                    rec["info"]["v2_unasked_shallow_info"] = 1
                break


def _instrument_client_proto(client, log):
    """record the pkt-lines the dulwich client writes and reads (client's own view of the dialogue)"""
    orig = client._connect
    client._c05_tapped = True

    def _connect(cmd, path, protocol_version=None):
        proto, can_read, stderr = orig(cmd, path, protocol_version)
        rpl, wpl = proto.read_pkt_line, proto.write_pkt_line
        tap = _state.get("clog")

        def read_pkt_line():
            p = rpl()
            log.append(("r", p))
            if tap is not None:
                tap.append(("r", p))
            return p

        def write_pkt_line(line):
            log.append(("w", line))
            if tap is not None:
                tap.append(("w", line))
            return wpl(line)
        proto.read_pkt_line, proto.write_pkt_line = read_pkt_line, write_pkt_line
        return proto, can_read, stderr
    client._connect = _connect


# --------------------------------------------------------------------------- the job
def run_job(job):
    try:
        return _run_job(job)
    except Exception:
        return [{"tid": job["tid"], "machinery": traceback.format_exc(limit=8)}]


def _base_record(job, u, sstore, r0, rtips0, shal0):
    caps = job.get("caps", {})
    return {
        "tid": job["tid"], "U": L.universe_json(u), "op": job["op"], "snd": "d", "rcv": "d",
        "sstore": _objs(sstore), "srefs": _objs(set(_sender_refs(job).values())),
        "sshal": [L.jobj(("c", i)) for i in sorted(job.get("sshal") or ())],
        "r0": list(r0), "rtips0": list(rtips0), "shal0": list(shal0), "depth": int(job.get("depth") or 0),
        # objects of the sender the receiver held before the first step although none of its refs reaches them
        # and it lacks what they reach (TLC: cs.dg)
        "dang": _objs({tuple(o) for o in job.get("rdang") or ()}),
        "r1": [], "rtips1": [], "shal1": [], "runk": 0, "idbad": 0, "gitok": 2,
        "wants": [list(w) for w in job["wants"]], "forged": int(job.get("forged", 0)),
        "inctag": int(bool(caps.get("inctag")) and job["op"] != "push" and job["transport"] not in ("local", "localpack")),
        "mwants": [list(w) for w in job["wants"]], "ok": 0, "cap": 0, "sent": [], "sunk": 0, "thin": [],
        "hk": 0, "haves": [], "offered": [], "mode": _mode_of(caps), "srv": [], "cli": [], "rheads": sorted(job["rh"]), "miv": 256,
        "transport": job["transport"], "step": job.get("step", 0), "err": "", "info": {},
    }


def _shallow_of(path, u):
    p = os.path.join(path, "shallow")
    if not os.path.exists(p):
        return []
    with open(p) as f:
        known, _unk = u.names(ln.strip() for ln in f if ln.strip())
    return _objs(known)


def _run_job(job):
    u = _universe(job)
    root = os.path.join(_scratch(), f"j{job['tid']}")
    shutil.rmtree(root, ignore_errors=True)
    os.makedirs(root)
    try:
        srefs = _sender_refs(job)
        sshal = {("c", i) for i in job.get("sshal") or ()}
        if sshal:           # the sender is itself a shallow clone: nothing below the parents of these commits
            sstore, todo = set(), [tuple(v) for v in srefs.values()]
            while todo:
                o = todo.pop()
                if o not in sstore:
                    sstore.add(o)
                    todo.extend(k for k in L.kids(u, o) if not (o in sshal and k[0] == "c"))
        else:
            sstore = set(u.objects()) if job.get("full") else L.closure(u, srefs.values())
        rrefs = _receiver_refs(job)
        r0 = L.closure(u, rrefs.values()) | {tuple(o) for o in job.get("rdang") or ()}
        spath, rpath = os.path.join(root, "s"), os.path.join(root, "r")
        L.materialise(spath, u, sstore, srefs)
        _layout(spath, job.get("slayout", "loose"))
        # sender-side state that must not change what a receiver gets: .git/shallow, info/grafts
        if sshal:
            with open(os.path.join(spath, "shallow"), "w") as f:
                f.write("".join(u.sha[o] + "\n" for o in sorted(sshal)))
        if job.get("sgrafts"):
            with open(os.path.join(spath, "info", "grafts"), "w") as f:
                for c, ps in job["sgrafts"]:
                    f.write(" ".join([u.sha[("c", c)]] + [u.sha[("c", q)] for q in ps]) + "\n")
        if job["op"] != "clone":
            L.materialise(rpath, u, r0, rrefs, head="refs/heads/master" if job.get("rhead_unborn") else None)
            _layout(rpath, job.get("rlayout", "loose"))
            before = (_objs(r0), _objs(set(rrefs.values())), [])
        else:
            before = ([], [], [])
        steps = job.get("steps") or [{"wants": job["wants"], "depth": job.get("depth", 0)}]
        fn = TRANSPORTS[(job["op"], job["transport"])]
        recs = []
        for k, st in enumerate(steps):
            sj = dict(job)
            sj.update(wants=st["wants"], depth=st.get("depth", 0), tid=job["tid"] + k, step=k)
            if "rh_now" in st:
                sj["rh"] = st["rh_now"]
            rec = _base_record(sj, u, sstore, *before)
            if k:       # the walker starts from whatever refs/heads holds now
                rec["rheads"] = sorted(o[1] for o in u.names(
                    v for n, v in _refs_of(rpath).items() if n.startswith("refs/heads/"))[0] if o[0] == "c")
            t0 = time.time()
            _install_client_tap()
            _state["clog"] = []
            try:
                fn(sj, u, spath, rpath, rec)
            finally:
                clog, _state["clog"] = _state["clog"], None
            _client_symptoms(rec, clog, bool(sj.get("caps", {}).get("v2")))
            # every object a dulwich client offered as a "have" (its own pkt-line log, or the walker log)
            off = [p[5:45].decode() for d, p in (clog or []) if d == "w" and p and p.startswith(b"have ")]
            known, unknown = u.names(off)
            rec["offered"] = _objs(set(known)) + [e[2] for e in rec["cli"] if e[0] == "w" and e[1] == "have" and e[2] not in _objs(set(known))]
            rec["info"]["offered_unknown"] = len(unknown)
            rec["info"]["ms"] = round((time.time() - t0) * 1000, 1)
            # projection of the receiving directory by a fresh reader
            if os.path.isdir(rpath):
                known, unk, bad = _project_repo(rpath, u)
                rec["r1"], rec["runk"], rec["idbad"] = _objs(known), unk, bad
                tips, foreign = u.names(set(_refs_of(rpath).values()))
                rec["rtips1"] = _objs(tips)
                rec["shal1"] = _shallow_of(rpath, u)
                rec["info"]["foreign_refs"] = len(foreign)
                if job.get("gitcheck"):
                    gobjs = L.git_all_objects(rpath)
                    gk, gu = u.names(gobjs.keys())
                    rec["info"]["git_objects_agree"] = int(sorted(gk) == sorted(known) and len(gu) == unk)
                    if not rec["info"]["git_objects_agree"]:
                        rec["info"]["git_objects"] = _objs(gk)
                    ok, txt = L.git_fsck_connectivity(rpath)
                    rec["info"]["fsck_ok"] = int(ok)
                    if not ok:
                        rec["info"]["fsck"] = txt[-400:]
                    rec["gitok"] = int(ok and rec["info"]["git_objects_agree"])
            recs.append(rec)
            before = (rec["r1"], rec["rtips1"], rec["shal1"])
            if not rec["ok"]:
                break
        return recs
    finally:
        if not job.get("keep"):
            shutil.rmtree(root, ignore_errors=True)


def _want_shas(job, u):
    return [u.sha[tuple(w)].encode() for w in job["wants"]]


def _want_ref(job, k, w):
    """a fetched commit becomes a branch (so that it is a head the next negotiation offers), anything
    else a ref outside refs/heads"""
    return f"refs/{'heads' if w[0] == 'c' else 'verif'}/w{job.get('step', 0)}_{k}"


def _set_want_refs(rpath, job, u):
    """what the caller of client.fetch() does with the result: point refs at what was fetched"""
    for k, w in enumerate(job["wants"]):
        L.write_ref(rpath, _want_ref(job, k, w), u.sha[tuple(w)])


def _finish_capture(rec, u, data):
    try:
        sent, sunk, thin, info = _parse_sent(u, data)
    except Exception as e:          # a pack the independent parser cannot read
        rec["info"]["pack_error"] = repr(e)[:200]
        if rec["ok"]:               # accepted by the receiver although unreadable: let the judge see it
            rec["cap"], rec["sunk"] = 1, 1
        return
    rec["cap"], rec["sent"], rec["sunk"], rec["thin"] = 1, _objs(sent), sunk, _objs(thin)
    rec["info"]["pack"] = {k: info[k] for k in ("n", "n_delta", "trailer_ok") if k in info}
    if info.get("n") and not info.get("trailer_ok", True):
        rec["sunk"] += 1


# ---- fetch, in process
def fetch_local(job, u, spath, rpath, rec):
    """LocalGitClient.fetch (Repo.fetch: MissingObjectFinder + add_pack_data)"""
    from dulwich.client import LocalGitClient
    from dulwich.repo import Repo
    wants = _want_shas(job, u)
    r = Repo(rpath)
    log = []
    ggw = r.get_graph_walker
    r.get_graph_walker = lambda *a, **kw: _RecWalker(ggw(*a, **kw), log)
    try:
        LocalGitClient().fetch(spath, r, determine_wants=lambda refs, depth=None: list(wants), depth=job.get("depth") or None)
        rec["ok"] = 1
    except Exception as e:
        rec["err"] = repr(e)[:300]
    finally:
        r.close()
    rec["cli"] = _dialogue(u, log, "cli") or []
    rec["hk"] = 1
    rec["haves"] = [e[2] for e in rec["cli"] if e[0] == "r" and e[1] == "ACK"]
    if rec["ok"]:
        _set_want_refs(rpath, job, u)


def fetch_local_pack(job, u, spath, rpath, rec):
    """LocalGitClient.fetch_pack into a caller-supplied pack_data + add_thin_pack, the generic
    GitClient.fetch sequence; the pack bytes are captured"""
    from dulwich.client import LocalGitClient
    from dulwich.repo import Repo
    wants = _want_shas(job, u)
    r = Repo(rpath)
    log = []
    buf = io.BytesIO()
    try:
        gw = _RecWalker(r.get_graph_walker(), log)
        LocalGitClient().fetch_pack(spath, lambda refs, depth=None: list(wants), gw, buf.write, depth=job.get("depth") or None)
        data = buf.getvalue()
        if data:
            f = io.BytesIO(data)
            r.object_store.add_thin_pack(f.read, None)
        rec["ok"] = 1
    except Exception as e:
        rec["err"] = repr(e)[:300]
    finally:
        r.close()
    rec["cli"] = _dialogue(u, log, "cli") or []
    rec["hk"] = 1
    rec["haves"] = [e[2] for e in rec["cli"] if e[0] == "r" and e[1] == "ACK"]
    _finish_capture(rec, u, buf.getvalue())
    if rec["ok"]:
        _set_want_refs(rpath, job, u)


def fetch_mofapi(job, u, spath, rpath, rec):
    """BaseRepo.find_missing_objects / fetch_pack_data driven through the public API with a
    get_tagged callback built the way UploadPackHandler.get_tagged builds it (include-tag is
    effective here; behind a plain Repo the handler's own get_tagged returns {})"""
    from dulwich.repo import Repo
    wants = _want_shas(job, u)
    s, r = Repo(spath), Repo(rpath)
    log = []
    ids = []
    try:
        tagged = {}
        if job.get("caps", {}).get("inctag"):
            for name, sha in s.get_refs().items():
                peeled = s.get_peeled(name)
                if peeled is not None and peeled != sha:
                    tagged[peeled] = sha
        dw = lambda refs, depth=None: list(wants)
        mof = s.find_missing_objects(dw, _RecWalker(r.get_graph_walker(), log), None, get_tagged=lambda: dict(tagged))
        ids = [sha for sha, _hint in mof]
        count, it = s.fetch_pack_data(dw, r.get_graph_walker(), None, get_tagged=lambda: dict(tagged))
        r.object_store.add_pack_data(count, it)
        rec["ok"] = 1
    except Exception as e:
        rec["err"] = repr(e)[:300]
    finally:
        s.close()
        r.close()
    rec["cli"] = _dialogue(u, log, "cli") or []
    rec["hk"] = 1
    rec["haves"] = [e[2] for e in rec["cli"] if e[0] == "r" and e[1] == "ACK"]
    known, unknown = u.names(i.decode() for i in ids)
    rec["cap"], rec["sent"], rec["sunk"] = 1, _objs(known), len(unknown) + (len(ids) - len(set(ids)))
    if rec["ok"]:
        _set_want_refs(rpath, job, u)


# ---- fetch, dulwich client <- dulwich TCP server
def fetch_tcp(job, u, spath, rpath, rec):
    from dulwich.client import TCPGitClient
    from dulwich.repo import Repo
    srv = _server()
    wants = _want_shas(job, u)
    c = TCPGitClient("127.0.0.1", port=srv.port)
    _apply_caps(c, job.get("caps", {}))
    tee = _Tee()
    tee.wrap_fetch_pack(c)
    clog = []
    _instrument_client_proto(c, clog)
    r = Repo(rpath)
    srv.begin()
    try:
        c.fetch(spath, r, determine_wants=lambda refs, depth=None: list(wants), depth=job.get("depth") or None)
        rec["ok"] = 1
    except Exception as e:
        rec["err"] = repr(e)[:300]
    finally:
        r.close()
        slog, _raw, serr = srv.end()
    if serr:
        rec["info"]["server_error"] = serr[-1][:200]
    d = _dialogue(u, slog, "srv")
    rec["srv"] = d or []
    cd = _dialogue(u, clog, "cli")
    rec["cli"] = cd or []
    _finish_capture(rec, u, tee.buf.getvalue())
    if rec["ok"]:
        _set_want_refs(rpath, job, u)


# ---- fetch over smart HTTP (stateless-rpc) from dulwich's WSGI application
def _http_haves(u, slog, rec, sstore_names):
    """the haves of the last upload-pack request that the server can have accepted"""
    reqs, cur = [], None
    for d, p in slog:
        if d == "req":
            cur = []
            reqs.append((p, cur))
        elif cur is not None:
            cur.append((d, p))
    rpcs = [ev for kind, ev in reqs if kind == b"rpc"]
    rec["info"]["http_requests"] = len(rpcs)
    if not rpcs:
        return
    hv = []
    for d, p in rpcs[-1]:
        if d == "r" and p and p.startswith(b"have "):
            o = u.name.get(p[5:45].decode())
            if o is not None and list(o) in sstore_names:
                hv.append(list(o))
    rec["hk"], rec["haves"] = 1, hv
    for d, p in rpcs[-1]:
        if d == "r" and p and p.startswith(b"want ") and b" " in p[46:]:
            cl = p[46:].split()
            rec["mode"] = "detailed" if b"multi_ack_detailed" in cl else "multi" if b"multi_ack" in cl else "single"
            rec["inctag"] = 0
            rec["info"]["client_caps"] = sorted(x.decode() for x in cl if not x.startswith(b"agent"))
            break


def fetch_http(job, u, spath, rpath, rec):
    from dulwich.client import Urllib3HttpGitClient
    from dulwich.repo import Repo
    srv = _server()
    port = srv.http()
    wants = _want_shas(job, u)
    c = Urllib3HttpGitClient(f"http://127.0.0.1:{port}/")
    _apply_caps(c, job.get("caps", {}))
    tee = _Tee()
    tee.wrap_fetch_pack(c)
    r = Repo(rpath)
    srv.begin()
    try:
        c.fetch(spath.lstrip("/"), r, determine_wants=lambda refs, depth=None: list(wants), depth=job.get("depth") or None)
        rec["ok"] = 1
    except Exception as e:
        rec["err"] = repr(e)[:300]
    finally:
        r.close()
        try:
            c.close()
        except Exception:
            pass
        slog, _raw, serr = srv.end(wait=False)
    _http_haves(u, slog, rec, rec["sstore"])
    rec["inctag"] = 0
    _finish_capture(rec, u, tee.buf.getvalue())
    if rec["ok"]:
        _set_want_refs(rpath, job, u)


def fetch_githttp(job, u, spath, rpath, rec):
    """C git client (git-remote-http) <- dulwich WSGI application"""
    srv = _server()
    port = srv.http()
    caps = job.get("caps", {})
    rec["rcv"] = "g"
    names = {tuple(v): k for k, v in _sender_refs(job).items()}
    specs = [f"+{names[tuple(w)]}:{_want_ref(job, k, w)}" for k, w in enumerate(job["wants"])]
    packfile = rpath + ".packtrace"
    dopt = []
    if job.get("depth"):
        dopt = ["--unshallow"] if job["depth"] >= 0x7FFFFFFF else [f"--depth={job['depth']}"]
    args = ["-c", "protocol.version=0", "-c", "gc.auto=0", "-c", "fetch.writeCommitGraph=false", "-c", "http.proxy=",
            "fetch", "-q", "--no-tags", *dopt, f"http://127.0.0.1:{port}{spath}"] + specs
    srv.begin()
    p = L.git(rpath, *args, check=False, env={"GIT_TRACE_PACKFILE": packfile, "no_proxy": "*", "NO_PROXY": "*"})
    slog, _raw, serr = srv.end(wait=False)
    rec["ok"] = int(p.returncode == 0)
    if p.returncode != 0:
        rec["err"] = p.stderr.decode("utf-8", "replace")[-300:]
    _http_haves(u, slog, rec, rec["sstore"])
    sent_wants = []
    for d, pk in slog:
        if d == "r" and pk and pk.startswith(b"want "):
            o = u.name.get(pk[5:45].decode())
            if o is not None and list(o) not in sent_wants:
                sent_wants.append(list(o))
    if sent_wants:
        rec["info"]["asked"] = rec["wants"]
        rec["wants"] = rec["mwants"] = sorted(sent_wants)
    data = b""
    if os.path.exists(packfile):
        with open(packfile, "rb") as f:
            data = f.read()
        os.remove(packfile)
    _finish_capture(rec, u, data)


# ---- fetch, dulwich client <- C git upload-pack
def fetch_gitserver(job, u, spath, rpath, rec):
    from dulwich.client import SubprocessGitClient
    from dulwich.repo import Repo
    caps = job.get("caps", {})
    wants = _want_shas(job, u)
    c = SubprocessGitClient()
    _apply_caps(c, caps)
    tee = _Tee()
    tee.wrap_fetch_pack(c)
    clog = []
    _instrument_client_proto(c, clog)
    rec["snd"] = "g"
    r = Repo(rpath)
    old = os.environ.get("GIT_PROTOCOL")
    if caps.get("v2"):
        os.environ["GIT_PROTOCOL"] = "version=2"
    try:
        c.fetch(spath, r, determine_wants=lambda refs, depth=None: list(wants),
                protocol_version=2 if caps.get("v2") else 0, depth=job.get("depth") or None)
        rec["ok"] = 1
    except Exception as e:
        rec["err"] = repr(e)[:300]
    finally:
        r.close()
        if old is None:
            os.environ.pop("GIT_PROTOCOL", None)
        else:
            os.environ["GIT_PROTOCOL"] = old
    rec["cli"] = [] if caps.get("v2") else (_dialogue(u, clog, "cli") or [])
    _finish_capture(rec, u, tee.buf.getvalue())
    if rec["ok"]:
        _set_want_refs(rpath, job, u)


# ---- fetch, C git client <- dulwich TCP server
def fetch_gitclient(job, u, spath, rpath, rec):
    srv = _server()
    caps = job.get("caps", {})
    rec["rcv"] = "g"
    specs = []
    names = {tuple(v): k for k, v in _sender_refs(job).items()}
    for k, w in enumerate(job["wants"]):
        specs.append(f"+{names[tuple(w)]}:{_want_ref(job, k, w)}")
    packfile = rpath + ".packtrace"
    cfg = ["-c", f"protocol.version={2 if caps.get('v2') else 0}", "-c", "fetch.unpackLimit=%d" % (1 if caps.get("keep_pack") else 100),
           "-c", "gc.auto=0", "-c", "fetch.writeCommitGraph=false"]
    if caps.get("negotiation"):
        cfg += ["-c", "fetch.negotiationAlgorithm=" + caps["negotiation"]]
    dopt = []
    if job.get("depth"):
        dopt = ["--unshallow"] if job["depth"] >= 0x7FFFFFFF else [f"--depth={job['depth']}"]
    args = cfg + ["fetch", "-q", "--no-tags" if not caps.get("inctag") else "--tags" if caps.get("alltags") else "-q"] + dopt + [
        f"git://127.0.0.1:{srv.port}{spath}"] + specs
    srv.begin()
    p = L.git(rpath, *args, check=False, env={"GIT_TRACE_PACKFILE": packfile})
    slog, _raw, serr = srv.end(wait=True)
    rec["ok"] = int(p.returncode == 0)
    if p.returncode != 0:
        rec["err"] = p.stderr.decode("utf-8", "replace")[-300:]
    if serr:
        rec["info"]["server_error"] = serr[-1][:200]
    # the capabilities the git client really asked for
    for d, pk in slog:
        if d == "r" and pk and pk.startswith(b"want ") and b" " in pk[46:]:
            cl = pk[46:].split()
            rec["mode"] = "detailed" if b"multi_ack_detailed" in cl else "multi" if b"multi_ack" in cl else "single"
            rec["inctag"] = int(b"include-tag" in cl)
            rec["info"]["client_caps"] = sorted(x.decode() for x in cl if not x.startswith(b"agent"))
            break
    # the wants the git client really sent (auto-followed tags may add some)
    sent_wants = []
    for d, pk in slog:
        if d == "r" and pk and pk.startswith(b"want "):
            o = u.name.get(pk[5:45].decode())
            if o is not None and list(o) not in sent_wants:
                sent_wants.append(list(o))
    if sent_wants:
        rec["info"]["asked"] = rec["wants"]
        rec["wants"] = rec["mwants"] = sorted(sent_wants)
    n_conn = sum(1 for d, pk in slog if d == "r" and pk and pk.startswith(b"want ") and b" " in pk[46:])
    rec["info"]["connections"] = n_conn
    rec["srv"] = (_dialogue(u, slog, "srv") or []) if n_conn == 1 else []
    data = b""
    if os.path.exists(packfile):
        with open(packfile, "rb") as f:
            data = f.read()
        os.remove(packfile)
    if n_conn <= 1:
        _finish_capture(rec, u, data)


# ---- clone
def clone_generic(job, u, spath, rpath, rec, client, path, srv=None):
    tee = _Tee()
    if hasattr(client, "_fetch_capabilities"):
        _apply_caps(client, job.get("caps", {}))
        tee.wrap_fetch_pack(client)
    if srv:
        srv.begin()
    try:
        r = client.clone(path, rpath, mkdir=True, bare=True, origin="origin", checkout=False, depth=job.get("depth") or None)
        r.close()
        rec["ok"] = 1
    except Exception as e:
        rec["err"] = repr(e)[:300]
    finally:
        if srv:
            slog, _raw, serr = srv.end()
            rec["srv"] = _dialogue(u, slog, "srv") or []
            if serr:
                rec["info"]["server_error"] = serr[-1][:200]
    if tee.buf.tell():
        _finish_capture(rec, u, tee.buf.getvalue())
    rec["wants"] = rec["mwants"] = rec["srefs"]          # a clone asks for every advertised ref
    rec["hk"], rec["haves"] = 1, []


def clone_local(job, u, spath, rpath, rec):
    from dulwich.client import LocalGitClient
    clone_generic(job, u, spath, rpath, rec, LocalGitClient(), spath)


def clone_tcp(job, u, spath, rpath, rec):
    from dulwich.client import TCPGitClient
    srv = _server()
    clone_generic(job, u, spath, rpath, rec, TCPGitClient("127.0.0.1", port=srv.port), spath, srv)


def clone_http(job, u, spath, rpath, rec):
    from dulwich.client import Urllib3HttpGitClient
    srv = _server()
    port = srv.http()
    c = Urllib3HttpGitClient(f"http://127.0.0.1:{port}/")
    srv.begin()
    try:
        clone_generic(job, u, spath, rpath, rec, c, spath.lstrip("/"))
    finally:
        srv.end(wait=False)
        try:
            c.close()
        except Exception:
            pass


def clone_gitserver(job, u, spath, rpath, rec):
    from dulwich.client import SubprocessGitClient
    rec["snd"] = "g"
    clone_generic(job, u, spath, rpath, rec, SubprocessGitClient(), spath)
    rec["hk"] = 0


def clone_gitclient(job, u, spath, rpath, rec):
    srv = _server()
    caps = job.get("caps", {})
    rec["rcv"] = "g"
    packfile = rpath + ".packtrace"
    srv.begin()
    p = L.git(os.path.dirname(rpath), "-c", f"protocol.version={2 if caps.get('v2') else 0}", "-c", "gc.auto=0",
              "clone", "-q", "--bare", *([f"--depth={job['depth']}", "--no-single-branch"] if job.get("depth") else []),
              f"git://127.0.0.1:{srv.port}{spath}", rpath, check=False,
              env={"GIT_TRACE_PACKFILE": packfile})
    slog, _raw, serr = srv.end()
    rec["ok"] = int(p.returncode == 0)
    if p.returncode != 0:
        rec["err"] = p.stderr.decode("utf-8", "replace")[-300:]
    if serr:
        rec["info"]["server_error"] = serr[-1][:200]
    for d, pk in slog:
        if d == "r" and pk and pk.startswith(b"want ") and b" " in pk[46:]:
            cl = pk[46:].split()
            rec["mode"] = "detailed" if b"multi_ack_detailed" in cl else "multi" if b"multi_ack" in cl else "single"
            rec["inctag"] = int(b"include-tag" in cl)
            break
    rec["srv"] = _dialogue(u, slog, "srv") or []
    rec["wants"] = rec["mwants"] = rec["srefs"]
    if os.path.exists(packfile):
        with open(packfile, "rb") as f:
            _finish_capture(rec, u, f.read())
        os.remove(packfile)


# ---- push: the sender (spath) pushes its refs to the receiver (rpath)
def _push_plan(job, u):
    """refs to set on the remote: every wanted object gets refs/verif/p<k> (a branch name when it is
    a commit with a branch on the pusher)"""
    plan = {}
    names = {tuple(v): k for k, v in _sender_refs(job).items()}
    for k, w in enumerate(job["wants"]):
        w = tuple(w)
        name = names.get(w)
        if name is None or name.startswith("refs/heads/"):
            name = f"refs/verif/p{k}" if w[0] != "c" else f"refs/heads/p{k}"
        plan[name.encode()] = u.sha[w].encode()
    return plan


def _push_with(client, job, u, spath, rpath, rec, path, capture_client=False):
    from dulwich.repo import Repo
    plan = _push_plan(job, u)
    s = Repo(spath)
    seen = {}

    def update_refs(refs):
        seen["remote"] = dict(refs)
        new = dict(refs)
        new.update(plan)
        return new

    def gen(have, want, **kw):
        seen["have"], seen["want"] = set(have), set(want)
        return s.generate_pack_data(have, want, **kw)
    raw = io.BytesIO()
    if capture_client:
        orig = client._connect

        def _connect(cmd, p, protocol_version=None):
            proto, can_read, stderr = orig(cmd, p, protocol_version)
            w = proto.write

            def write(d):
                raw.write(d)
                return w(d)
            proto.write = write
            return proto, can_read, stderr
        client._connect = _connect
    try:
        res = client.send_pack(path, update_refs, gen)
        st = getattr(res, "ref_status", None) or {}
        bad = {k: v for k, v in st.items() if v is not None}
        rec["ok"] = int(not bad)
        if bad:
            rec["err"] = repr(bad)[:300]
    except Exception as e:
        rec["err"] = repr(e)[:300]
    finally:
        s.close()
    rec["srefs"] = rec["wants"]
    if "have" in seen:
        hk, _ = u.names(h.decode() for h in seen["have"])
        wk, _ = u.names(w.decode() for w in seen["want"])
        rec["hk"], rec["haves"], rec["mwants"] = 1, _objs(hk), _objs(wk)
    return raw.getvalue()


def _pack_from_stream(data):
    i = data.find(b"PACK")
    pk, rest = L.split_pkts(data)
    return rest if rest[:4] == b"PACK" else (data[i:] if i >= 0 else b"")


def push_local(job, u, spath, rpath, rec):
    from dulwich.client import LocalGitClient
    _push_with(LocalGitClient(), job, u, spath, rpath, rec, rpath)


def push_tcp(job, u, spath, rpath, rec):
    from dulwich.client import TCPGitClient
    srv = _server()
    srv.begin()
    try:
        _push_with(TCPGitClient("127.0.0.1", port=srv.port), job, u, spath, rpath, rec, rpath.encode())
    finally:
        _slog, raw, serr = srv.end()
    if serr:
        rec["info"]["server_error"] = serr[-1][:200]
    pack = _pack_from_stream(raw)
    if pack:
        _finish_capture(rec, u, pack)


def push_http(job, u, spath, rpath, rec):
    from dulwich.client import Urllib3HttpGitClient
    srv = _server()
    port = srv.http()
    c = Urllib3HttpGitClient(f"http://127.0.0.1:{port}/")
    srv.begin()
    try:
        _push_with(c, job, u, spath, rpath, rec, rpath.lstrip("/"))
    finally:
        _slog, raw, serr = srv.end(wait=False)
        try:
            c.close()
        except Exception:
            pass
    pack = _pack_from_stream(raw)
    if pack:
        _finish_capture(rec, u, pack)


def push_githttp(job, u, spath, rpath, rec):
    """C git push (git-remote-http) -> dulwich WSGI application"""
    srv = _server()
    port = srv.http()
    rec["snd"] = "g"
    plan = _push_plan(job, u)
    specs = [f"{sha.decode()}:{name.decode()}" for name, sha in plan.items()]
    srv.begin()
    p = L.git(spath, "-c", "gc.auto=0", "-c", "http.proxy=", "push", "-q", f"http://127.0.0.1:{port}{rpath}", *specs, check=False,
              env={"no_proxy": "*", "NO_PROXY": "*"})
    _slog, raw, serr = srv.end(wait=False)
    rec["ok"] = int(p.returncode == 0)
    if p.returncode != 0:
        rec["err"] = p.stderr.decode("utf-8", "replace")[-300:]
    rec["srefs"] = rec["wants"]
    i = raw.rfind(b"PACK")
    pack = _pack_from_stream(raw)
    if pack:
        _finish_capture(rec, u, pack)


def push_gitserver(job, u, spath, rpath, rec):
    """dulwich client -> C git receive-pack"""
    from dulwich.client import SubprocessGitClient
    rec["rcv"] = "g"
    raw = _push_with(SubprocessGitClient(), job, u, spath, rpath, rec, rpath.encode(), capture_client=True)
    pack = _pack_from_stream(raw)
    if pack:
        _finish_capture(rec, u, pack)


def push_gitclient(job, u, spath, rpath, rec):
    """C git push -> dulwich TCP server"""
    srv = _server()
    rec["snd"] = "g"
    plan = _push_plan(job, u)
    specs = [f"{sha.decode()}:{name.decode()}" for name, sha in plan.items()]
    srv.begin()
    p = L.git(spath, "-c", "gc.auto=0", "push", "-q", f"git://127.0.0.1:{srv.port}{rpath}", *specs, check=False)
    _slog, raw, serr = srv.end()
    rec["ok"] = int(p.returncode == 0)
    if p.returncode != 0:
        rec["err"] = p.stderr.decode("utf-8", "replace")[-300:]
    if serr:
        rec["info"]["server_error"] = serr[-1][:200]
    rec["srefs"] = rec["wants"]
    pack = _pack_from_stream(raw)
    if pack:
        _finish_capture(rec, u, pack)


# ---- the porcelain commands (what a user calls); they also decide which refs are written
def _remote_url(job, path):
    via = job.get("via", "path")
    if via == "tcp":
        return f"git://127.0.0.1:{_server().port}{path}"
    if via == "http":
        return f"http://127.0.0.1:{_server().http()}{path}"
    return path


def _add_origin(gitdir, url):
    with open(os.path.join(gitdir, "config"), "a") as f:
        f.write(f'[remote "origin"]\n\turl = {url}\n\tfetch = +refs/heads/*:refs/remotes/origin/*\n')


class _Served:
    def __init__(self, job, rec):
        self.on = job.get("via", "path") != "path"
        self.rec = rec

    def __enter__(self):
        if self.on:
            _server().begin()
        return self

    def __exit__(self, *a):
        if self.on:
            _slog, _raw, serr = _server().end(wait=False)
            if serr:
                self.rec["info"]["server_error"] = serr[-1][:200]
        return False


def fetch_porcelain(job, u, spath, rpath, rec):
    """porcelain.fetch from the configured remote "origin": asks for every remote ref, imports the
    remote's branches and tags"""
    from dulwich import porcelain
    if not job.get("step"):
        _add_origin(rpath, _remote_url(job, spath))
    sink = io.BytesIO()
    with _Served(job, rec):
        try:
            porcelain.fetch(rpath, "origin", outstream=sink, errstream=sink, depth=job.get("depth") or None)
            rec["ok"] = 1
        except Exception as e:
            rec["err"] = repr(e)[:300]
    rec["wants"] = rec["mwants"] = rec["srefs"]


def pull_porcelain(job, u, spath, rpath, rec):
    """porcelain.pull of selected refs into a non-bare repository with an unborn HEAD (so that no
    merge commit is created and every ref value stays inside the universe)"""
    from dulwich import porcelain
    work = rpath + ".work"
    os.makedirs(work)
    os.rename(rpath, os.path.join(work, ".git"))
    gd = os.path.join(work, ".git")
    try:
        with open(os.path.join(gd, "config")) as f:
            cfg = f.read().replace("bare = true", "bare = false")
        with open(os.path.join(gd, "config"), "w") as f:
            f.write(cfg)
        _add_origin(gd, _remote_url(job, spath))
        names = {tuple(v): k for k, v in _sender_refs(job).items()}
        specs = [names[tuple(w)].encode() for w in job["wants"]] if not job.get("default_refspec") else None
        sink = io.BytesIO()
        with _Served(job, rec):
            try:
                porcelain.pull(work, "origin", refspecs=specs, outstream=sink, errstream=sink, force=True)
                rec["ok"] = 1
            except Exception as e:
                rec["err"] = repr(e)[:300]
    finally:
        os.rename(gd, rpath)
        shutil.rmtree(work, ignore_errors=True)
    if job.get("default_refspec"):
        rec["wants"] = rec["mwants"] = [L.jobj(("c", min(job["sh"])))]      # HEAD of the sender


def clone_porcelain(job, u, spath, rpath, rec):
    from dulwich import porcelain
    sink = io.BytesIO()
    with _Served(job, rec):
        try:
            r = porcelain.clone(_remote_url(job, spath), rpath, bare=True, errstream=sink, depth=job.get("depth") or None)
            r.close()
            rec["ok"] = 1
        except Exception as e:
            rec["err"] = repr(e)[:300]
    rec["wants"] = rec["mwants"] = rec["srefs"]
    rec["hk"], rec["haves"] = 1, []


def push_porcelain(job, u, spath, rpath, rec):
    from dulwich import porcelain
    names = {tuple(v): k for k, v in _sender_refs(job).items()}
    specs = []
    for k, w in enumerate(job["wants"]):
        src = names[tuple(w)]
        dst = src if src.startswith("refs/tags/") else f"refs/heads/p{k}"
        specs.append(f"{src}:{dst}".encode())
    sink = io.BytesIO()
    with _Served(job, rec):
        try:
            res = porcelain.push(spath, _remote_url(job, rpath), specs, outstream=sink, errstream=sink)
            st = getattr(res, "ref_status", None) or {}
            bad = {k: v for k, v in st.items() if v is not None}
            rec["ok"] = int(not bad)
            if bad:
                rec["err"] = repr(bad)[:300]
        except Exception as e:
            rec["err"] = repr(e)[:300]
    rec["srefs"] = rec["wants"]


TRANSPORTS = {
    ("fetch", "porcelain"): fetch_porcelain,
    ("fetch", "porcelain-pull"): pull_porcelain,
    ("clone", "porcelain"): clone_porcelain,
    ("push", "porcelain"): push_porcelain,
    ("fetch", "local"): fetch_local,
    ("fetch", "localpack"): fetch_local_pack,
    ("fetch", "mofapi"): fetch_mofapi,
    ("fetch", "tcp"): fetch_tcp,
    ("fetch", "http"): fetch_http,
    ("fetch", "githttp"): fetch_githttp,
    ("fetch", "gitserver"): fetch_gitserver,
    ("fetch", "gitclient"): fetch_gitclient,
    ("clone", "local"): clone_local,
    ("clone", "tcp"): clone_tcp,
    ("clone", "http"): clone_http,
    ("clone", "gitserver"): clone_gitserver,
    ("clone", "gitclient"): clone_gitclient,
    ("push", "local"): push_local,
    ("push", "tcp"): push_tcp,
    ("push", "http"): push_http,
    ("push", "githttp"): push_githttp,
    ("push", "gitserver"): push_gitserver,
    ("push", "gitclient"): push_gitclient,
}


# --------------------------------------------------------------------------- TransferShallow paths on the real functions
def run_shallow_script(spec):
    """one behaviour of TransferShallow on the real client functions: a canned server stream, a
    scripted can_read().  spec: v, nb, nh, asked, cshal, acks [bool per have], reads [bool per have].
    -> {outcome, cshallow [ints], packRead}"""
    from dulwich.client import _handle_upload_pack_head, _handle_upload_pack_tail
    from dulwich.errors import GitProtocolError
    from dulwich.object_store import ObjectStoreGraphWalker
    from dulwich.protocol import Protocol, pkt_line
    bsha = lambda i: b"%040x" % (0xB0000 + i)
    hsha = lambda i: b"%040x" % (0xA0000 + i)
    dummy = b"d" * 40
    v2 = spec["v"] == "v2"
    stream = b""
    shallow_lines = b"".join(pkt_line(b"shallow " + bsha(i) + b"\n") for i in range(1, spec["nb"] + 1))
    if not v2:
        if spec["asked"]:
            stream += shallow_lines + b"0000"
        for k in spec["acks"]:
            if k:
                stream += pkt_line(b"ACK " + dummy + b" common\n")
        stream += pkt_line(b"NAK\n") + b"PACK-bytes-of-the-pack"
    else:
        if spec["asked"] or spec["cshal"]:
            stream += pkt_line(b"shallow-info\n") + shallow_lines + b"0001"
        stream += pkt_line(b"packfile\n") + pkt_line(b"\x01PACK-bytes-of-the-pack") + b"0000"
    src = io.BytesIO(stream)
    proto = Protocol(src.read, io.BytesIO().write)
    recorded = set()
    walker = ObjectStoreGraphWalker([hsha(i) for i in range(1, spec["nh"] + 1)], lambda sha: [],
                                    shallow={b"c" * 40} if spec["cshal"] else set(),
                                    update_shallow=lambda new, un: recorded.update(new or ()))
    reads = list(spec["reads"])
    state = {"k": 0}

    def can_read():
        k = state["k"]
        state["k"] += 1
        return bool(reads[k]) if k < len(reads) else False
    caps = [b"fetch=shallow", b"thin-pack"] if v2 else [b"multi_ack_detailed", b"shallow"]
    got = []
    out = {"outcome": "ok", "cshallow": [], "packRead": 0}
    try:
        new_shallow, _un = _handle_upload_pack_head(proto, caps, walker, [b"a" * 40], can_read,
                                                    depth=1 if spec["asked"] else None, protocol_version=2 if v2 else 0)
        recorded.update(new_shallow or ())
        _handle_upload_pack_tail(proto, set(caps), walker, lambda d: got.append(d) or len(d), None,
                                 protocol_version=2 if v2 else 0)
    except AssertionError as e:
        out["outcome"] = "sideband_error" if "sideband" in str(e) else "assert"
    except GitProtocolError:
        out["outcome"] = "protocol_error"
    except Exception as e:
        out["outcome"] = "other:" + type(e).__name__
    names = {bsha(i): i for i in range(1, spec["nb"] + 1)}
    out["cshallow"] = sorted(names.get(x, -1) for x in recorded)
    out["packRead"] = int(any(got))
    return out


def run_shallow_batch(specs):
    return [run_shallow_script(s) for s in specs]


def run_batch(jobs):
    out = []
    for j in jobs:
        out.extend(run_job(j))
    return out


if __name__ == "__main__":
    import json
    for line in sys.stdin:
        for r in run_job(json.loads(line)):
            print(json.dumps(r))

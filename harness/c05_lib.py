"""C05 helpers that do not import dulwich: abstract universe -> real git objects and repositories,
an independent minimal pack parser (zlib + hashlib), projections of a repository directory.

Abstract objects are pairs (kind, n): ("c", i) commit, ("t", j) tree, ("b", k) blob, ("g", m)
annotated tag -- the same values Transfer.tla uses (<<"c", 1>> ...).  A universe is
  par: list (per commit) of lists of parent commit numbers   (commit i has parents < i)
  tr : list (per commit) of root tree numbers
  ent: list (per tree) of lists of child objects (trees / blobs; gitlinks are not objects)
  lnk: list (per tree) of int: 0 no gitlink entry; -1 a gitlink naming a commit that is in no
       repository; k > 0 a gitlink naming commit k of this universe (a branch of the same repository
       embedded as a submodule).  A gitlink is never an edge of the object graph.
  tg : list (per tag) of target objects
Everything here is used as *projection / construction* only; nothing in this file decides a verdict.
"""
from __future__ import annotations

import hashlib
import os
import struct
import subprocess
import zlib

GITLINK_SHA = hashlib.sha1(b"c05 gitlink target, in no repository").hexdigest()
TYPE_NUM = {"commit": 1, "tree": 2, "blob": 3, "tag": 4}
NUM_TYPE = {v: k for k, v in TYPE_NUM.items()}
KIND_TYPE = {"c": "commit", "t": "tree", "b": "blob", "g": "tag"}

_BLOB_BASE = b"".join(b"line %03d of the common part shared by every blob of the C05 universe\n" % i for i in range(24))


def obj_id(typ: str, body: bytes) -> str:
    return hashlib.sha1(typ.encode() + b" " + str(len(body)).encode() + b"\0" + body).hexdigest()


class Universe:
    """Concrete git objects of an abstract universe.  raw[obj] = (type, body), sha[obj], name[sha]."""

    def __init__(self, par, tr, ent, lnk, tg, *, skew=None, big_blobs=True):
        self.par = [sorted(p) for p in par]
        self.tr = list(tr)
        self.ent = [sorted(tuple(o) for o in e) for e in ent]
        self.lnk = [(-1 if x is True else 0 if not x else int(x)) for x in lnk] if lnk else [0] * len(self.ent)
        self.tg = [tuple(o) for o in tg]
        self.skew = skew or {}
        self.big = big_blobs
        self.raw = {}
        self.sha = {}
        self.name = {}
        self._building = set()
        for i in range(1, len(self.par) + 1):
            self.get(("c", i))
        for m in range(1, len(self.tg) + 1):
            self.get(("g", m))

    # ---- construction
    def _blob(self, k):
        return (_BLOB_BASE if self.big else b"") + b"blob %d\n" % k + (b"tail of blob %d\n" % k) * (k % 3)

    def _tree(self, j):
        items = []
        # entry names carry the number of the containing tree, so two abstract trees never
        # collapse into one git object even when they list the same children
        for o in self.ent[j - 1]:
            if o[0] == "b":
                items.append((b"t%d-f%d" % (j, o[1]), b"100644", self.get(o)))
            elif o[0] == "t":
                items.append((b"t%d-d%d" % (j, o[1]), b"40000", self.get(o)))
            else:
                raise ValueError(o)
        if self.lnk[j - 1]:
            k = self.lnk[j - 1]
            items.append((b"t%d-sub" % j, b"160000", GITLINK_SHA if k < 0 else self.get(("c", k))))
        # git order: directories compare as name + "/"
        items.sort(key=lambda it: it[0] + (b"/" if it[1] == b"40000" else b""))
        return b"".join(mode + b" " + name + b"\0" + bytes.fromhex(sha) for name, mode, sha in items)

    def _commit(self, i):
        t = self.skew.get(i, 1_000_000_000 + 100 * i)
        lines = [b"tree " + self.get(("t", self.tr[i - 1])).encode()]
        for p in self.par[i - 1]:
            lines.append(b"parent " + self.get(("c", p)).encode())
        who = b"V Erif <v@example.org> %d +0000" % t
        lines += [b"author " + who, b"committer " + who, b"", b"commit %d" % i]
        return b"\n".join(lines) + b"\n"

    def _tag(self, m):
        tgt = self.tg[m - 1]
        lines = [b"object " + self.get(tgt).encode(), b"type " + KIND_TYPE[tgt[0]].encode(), b"tag g%d" % m,
                 b"tagger V Erif <v@example.org> %d +0000" % (1_100_000_000 + m), b"", b"tag %d" % m]
        return b"\n".join(lines) + b"\n"

    def get(self, o) -> str:
        o = tuple(o)
        s = self.sha.get(o)
        if s is not None:
            return s
        if o in self._building:
            raise ValueError(f"cyclic universe at {o}")
        self._building.add(o)
        k, n = o
        body = {"b": self._blob, "t": self._tree, "c": self._commit, "g": self._tag}[k](n)
        typ = KIND_TYPE[k]
        s = obj_id(typ, body)
        if s in self.name and self.name[s] != o:
            raise ValueError(f"abstract objects {o} and {self.name[s]} are the same git object")
        self.raw[o] = (typ, body)
        self.sha[o] = s
        self.name[s] = o
        self._building.discard(o)
        return s

    def objects(self):
        return list(self.raw)

    def names(self, shas):
        """sha collection -> (sorted list of abstract objects, list of unknown shas)"""
        known, unknown = [], []
        for s in shas:
            if isinstance(s, bytes):
                s = s.decode()
            o = self.name.get(s)
            (known if o is not None else unknown).append(o if o is not None else s)
        return sorted(known), sorted(unknown)


def jobj(o):
    return [o[0], o[1]]


def universe_json(u: Universe):
    return {"par": [list(p) for p in u.par], "tr": list(u.tr), "ent": [[jobj(o) for o in e] for e in u.ent],
            "lnk": [int(x) for x in u.lnk], "tg": [jobj(o) for o in u.tg]}


# --------------------------------------------------------------------------- closure (construction only)
def kids(u: Universe, o):
    k, n = o
    if k == "c":
        return [("t", u.tr[n - 1])] + [("c", p) for p in u.par[n - 1]]
    if k == "t":
        return list(u.ent[n - 1])
    if k == "g":
        return [u.tg[n - 1]]
    return []


def closure(u: Universe, tips):
    """Used ONLY to decide which objects to write into a repository that is being materialised
    (a closed store); never to judge a result -- TLC computes every closure a verdict rests on."""
    seen, todo = set(), [tuple(t) for t in tips]
    while todo:
        o = todo.pop()
        if o in seen:
            continue
        seen.add(o)
        todo.extend(kids(u, o))
    return seen


# --------------------------------------------------------------------------- repositories on disk
def init_bare(path):
    for d in ("objects/info", "objects/pack", "refs/heads", "refs/tags", "info", "hooks", "branches"):
        os.makedirs(os.path.join(path, d), exist_ok=True)
    with open(os.path.join(path, "config"), "w") as f:
        f.write("[core]\n\trepositoryformatversion = 0\n\tfilemode = true\n\tbare = true\n")
    with open(os.path.join(path, "description"), "w") as f:
        f.write("c05\n")
    with open(os.path.join(path, "HEAD"), "w") as f:
        f.write("ref: refs/heads/master\n")


def write_loose(path, typ, body, sha=None):
    sha = sha or obj_id(typ, body)
    d = os.path.join(path, "objects", sha[:2])
    os.makedirs(d, exist_ok=True)
    p = os.path.join(d, sha[2:])
    if not os.path.exists(p):
        data = zlib.compress(typ.encode() + b" " + str(len(body)).encode() + b"\0" + body, 1)
        with open(p, "wb") as f:
            f.write(data)
    return sha


def write_ref(path, name, sha):
    p = os.path.join(path, name)
    os.makedirs(os.path.dirname(p), exist_ok=True)
    with open(p, "w") as f:
        f.write(sha + "\n")


def set_head(path, target):
    with open(os.path.join(path, "HEAD"), "w") as f:
        f.write(f"ref: {target}\n")


def materialise(path, u: Universe, objs, refs, head=None):
    """Bare repository holding exactly `objs` (abstract objects) as loose objects and `refs`
    (name -> abstract object)."""
    init_bare(path)
    for o in objs:
        typ, body = u.raw[o]
        write_loose(path, typ, body, u.sha[o])
    for name, o in refs.items():
        write_ref(path, name, u.sha[tuple(o)])
    if head:
        set_head(path, head)
    elif refs:
        heads = sorted(n for n in refs if n.startswith("refs/heads/"))
        if heads:
            set_head(path, heads[0])


GIT_ENV = dict(os.environ, GIT_CONFIG_NOSYSTEM="1", GIT_CONFIG_GLOBAL="/dev/null", HOME="/nonexistent",
               GIT_TERMINAL_PROMPT="0", LC_ALL="C", GIT_ADVICE="0")
GIT_ENV.pop("GIT_DIR", None)


def git(path, *args, input=None, check=True, env=None, timeout=120):
    e = dict(GIT_ENV)
    if env:
        e.update(env)
    p = subprocess.run(["git", "-C", path, *args], input=input, stdout=subprocess.PIPE, stderr=subprocess.PIPE,
                       env=e, timeout=timeout)
    if check and p.returncode != 0:
        raise RuntimeError(f"git {' '.join(args)} failed in {path}: {p.stderr.decode('utf-8', 'replace')[-800:]}")
    return p


def git_repack(path, *, bitmap=False):
    """Pack everything (with deltas) and drop the loose copies."""
    args = ["-c", "pack.window=10", "-c", "pack.depth=10", "repack", "-a", "-d", "-f", "-q"]
    if bitmap:
        args.insert(-1, "-b")
    git(path, *args)


# --------------------------------------------------------------------------- projections of a directory
def loose_ids(path):
    out = set()
    od = os.path.join(path, "objects")
    try:
        ds = os.listdir(od)
    except FileNotFoundError:
        return out
    for d in ds:
        if len(d) == 2:
            try:
                int(d, 16)
            except ValueError:
                continue
            for f in os.listdir(os.path.join(od, d)):
                if len(f) == 38:
                    out.add(d + f)
    return out


def read_loose(path, sha):
    with open(os.path.join(path, "objects", sha[:2], sha[2:]), "rb") as f:
        data = zlib.decompress(f.read())
    hdr, body = data.split(b"\0", 1)
    typ, size = hdr.split(b" ")
    if int(size) != len(body):
        raise ValueError("loose object size mismatch")
    return typ.decode(), body


def project_dir(path, resolve=None):
    """Independent projection (no dulwich, no git): {sha: (type, body)} of every object in the loose
    store and in every pack of a repository directory.  resolve(sha) -> (type, body) supplies bases
    a pack does not contain (there should be none in an installed pack)."""
    out = {}
    for s in loose_ids(path):
        out[s] = read_loose(path, s)
    pd = os.path.join(path, "objects", "pack")
    if os.path.isdir(pd):
        for f in sorted(os.listdir(pd)):
            if f.endswith(".pack"):
                with open(os.path.join(pd, f), "rb") as fh:
                    data = fh.read()

                def res(sha, out=out):
                    if sha in out:
                        return out[sha]
                    if resolve:
                        return resolve(sha)
                    raise KeyError(sha)
                objs, _ = parse_pack(data, res)
                out.update(objs)
    return out


def git_all_objects(path):
    """{sha: (type, size)} as C git sees the object database."""
    p = git(path, "cat-file", "--batch-all-objects", "--batch-check=%(objectname) %(objecttype) %(objectsize)")
    out = {}
    for line in p.stdout.decode().splitlines():
        s, t, n = line.split()
        out[s] = (t, int(n))
    return out


def git_fsck_connectivity(path):
    """does C git find every object the refs reach?  Only connectivity complaints count (missing /
    unreadable objects, broken links, refs to absent ids), not e.g. a branch that is not a commit."""
    p = git(path, "fsck", "--connectivity-only", "--no-dangling", "--no-progress", check=False)
    txt = (p.stdout + p.stderr).decode("utf-8", "replace")
    marks = ("missing ", "broken link", "invalid sha1 pointer", "unable to read", "bad object", "bad sha1", "corrupt",
             "could not read", "fatal:")
    bad = [ln for ln in txt.splitlines() if any(m in ln for m in marks)]
    return not bad, txt.strip()


# --------------------------------------------------------------------------- minimal pack parser
class PackError(Exception):
    pass


def _varint_size(data, pos):
    c = data[pos]
    pos += 1
    typ = (c >> 4) & 7
    size = c & 15
    shift = 4
    while c & 0x80:
        c = data[pos]
        pos += 1
        size |= (c & 0x7F) << shift
        shift += 7
    return typ, size, pos


def _ofs(data, pos):
    c = data[pos]
    pos += 1
    v = c & 0x7F
    while c & 0x80:
        c = data[pos]
        pos += 1
        v = ((v + 1) << 7) | (c & 0x7F)
    return v, pos


def _delta_hdr(d, pos):
    v, shift = 0, 0
    while True:
        c = d[pos]
        pos += 1
        v |= (c & 0x7F) << shift
        shift += 7
        if not c & 0x80:
            return v, pos


def apply_delta(base: bytes, delta: bytes) -> bytes:
    src, pos = _delta_hdr(delta, 0)
    dst, pos = _delta_hdr(delta, pos)
    if src != len(base):
        raise PackError("delta base size mismatch")
    out = bytearray()
    n = len(delta)
    while pos < n:
        c = delta[pos]
        pos += 1
        if c & 0x80:
            off = size = 0
            for i in range(4):
                if c & (1 << i):
                    off |= delta[pos] << (8 * i)
                    pos += 1
            for i in range(3):
                if c & (0x10 << i):
                    size |= delta[pos] << (8 * i)
                    pos += 1
            if size == 0:
                size = 0x10000
            if off + size > len(base):
                raise PackError("delta copy out of range")
            out += base[off:off + size]
        elif c:
            out += delta[pos:pos + c]
            pos += c
        else:
            raise PackError("delta opcode 0")
    if len(out) != dst:
        raise PackError("delta result size mismatch")
    return bytes(out)


def parse_pack(data: bytes, resolve=None):
    """-> ({sha: (type, body)}, info).  info: n, thin_bases (shas of REF_DELTA bases that are not in
    the pack), n_delta, trailer_ok.  resolve(sha) -> (type, body) for bases outside the pack."""
    if data[:4] != b"PACK":
        raise PackError("no PACK signature")
    ver, n = struct.unpack(">II", data[4:12])
    if ver not in (2, 3):
        raise PackError(f"pack version {ver}")
    pos = 12
    entries = []          # (offset, type, payload, base_ref)   base_ref: None | ("ofs", off) | ("ref", sha)
    for _ in range(n):
        start = pos
        typ, size, pos = _varint_size(data, pos)
        base = None
        if typ == 6:
            rel, pos = _ofs(data, pos)
            base = ("ofs", start - rel)
        elif typ == 7:
            base = ("ref", data[pos:pos + 20].hex())
            pos += 20
        elif typ not in (1, 2, 3, 4):
            raise PackError(f"object type {typ}")
        d = zlib.decompressobj()
        payload = d.decompress(data[pos:])
        if not d.eof:
            raise PackError("truncated zlib stream")
        pos = len(data) - len(d.unused_data)
        if len(payload) != size:
            raise PackError("inflated size mismatch")
        entries.append((start, typ, payload, base))
    trailer_ok = hashlib.sha1(data[:pos]).digest() == data[pos:pos + 20] and pos + 20 == len(data)
    by_off, by_sha, out = {}, {}, {}
    pending = []
    for e in entries:
        if e[3] is None:
            typ = NUM_TYPE[e[1]]
            s = obj_id(typ, e[2])
            by_off[e[0]] = by_sha[s] = (typ, e[2])
            out[s] = (typ, e[2])
        else:
            pending.append(e)
    thin = set()
    progress = True
    while pending and progress:
        progress = False
        rest = []
        for e in pending:
            kind, ref = e[3]
            b = by_off.get(ref) if kind == "ofs" else by_sha.get(ref)
            if b is None:
                rest.append(e)
                continue
            body = apply_delta(b[1], e[2])
            s = obj_id(b[0], body)
            by_off[e[0]] = by_sha[s] = (b[0], body)
            out[s] = (b[0], body)
            progress = True
        pending = rest
        if pending and not progress:
            # bases outside the pack (thin pack)
            for e in pending:
                kind, ref = e[3]
                if kind == "ref" and ref not in by_sha and ref not in thin:
                    if resolve is None:
                        continue
                    try:
                        by_sha[ref] = resolve(ref)
                    except KeyError:
                        continue
                    thin.add(ref)
                    progress = True
    if pending:
        raise PackError(f"{len(pending)} unresolvable deltas")
    return out, {"n": n, "thin_bases": sorted(thin), "n_delta": sum(1 for e in entries if e[3] is not None),
                 "trailer_ok": trailer_ok}


# --------------------------------------------------------------------------- wire helpers (pkt-line, side-band)
def split_pkts(buf: bytes):
    """Split a byte string that consists of pkt-lines followed by arbitrary data.
    -> (list of payloads, None for flush), rest"""
    out, pos = [], 0
    while pos + 4 <= len(buf):
        try:
            n = int(buf[pos:pos + 4], 16)
        except ValueError:
            break
        if n == 0:
            out.append(None)
            pos += 4
            continue
        if n < 4 or pos + n > len(buf):
            break
        out.append(buf[pos + 4:pos + n])
        pos += n
    return out, buf[pos:]

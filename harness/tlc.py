"""Run TLC (exhaustive / simulate / trace batch) and parse what it prints.

All runs: `-metadir <scratch> -noGenerateSpecTE`, wrapped in a timeout.  Results carry
the numbers the evidence files need (distinct states, states generated, depth,
per-action coverage when requested) and every violated invariant/property with the
error trace TLC printed.
"""
from __future__ import annotations

import json
import os
import re
import shutil
import subprocess
import time
from dataclasses import dataclass, field

from . import tlaval

JAR = "/opt/veriftools/tla/tla2tools.jar"
DEPS = "/opt/veriftools/tla/CommunityModules-deps.jar"
SPECS = os.path.join(os.path.dirname(os.path.dirname(os.path.abspath(__file__))), "specs")


@dataclass
class TlcResult:
    ok: bool                      # TLC finished and found no error
    completed: bool               # "Model checking completed" / simulation ended normally
    generated: int = 0
    distinct: int = 0
    depth: int = 0
    wall_s: float = 0.0
    violated: list = field(default_factory=list)   # names of violated invariants/properties
    error_trace: list = field(default_factory=list)  # list of (action label, state dict)
    coverage: dict = field(default_factory=dict)   # action -> (distinct, total)
    printed: list = field(default_factory=list)    # values printed by PrintT (parsed)
    output: str = ""
    cmd: str = ""
    timed_out: bool = False
    rc: int = 0


_RE_STATS = re.compile(r"(\d+) states generated, (\d+) distinct states found")
_RE_DEPTH = re.compile(r"The depth of the complete state graph search is (\d+)")
_RE_INV = re.compile(r"Error: Invariant (\S+) is violated")
_RE_PROP = re.compile(r"Error: (?:Action|Temporal) propert(?:y|ies) (\S+)? ?(?:were|was|is) violated")
_RE_ACTPROP = re.compile(r"Error: Action property (\S+) is violated")
_RE_STATE = re.compile(r"^State (\d+): <(.*?)>\s*$")
_RE_COV = re.compile(r"^<(\w+) line \d+, col \d+ to line \d+, col \d+ of module (\w+)>: (\d+):(\d+)")


def run(spec: str, cfg: str, *, workers: int | str = "auto", timeout: int = 600,
        simulate: str | None = None, depth: int | None = None, seed: int | None = None,
        dump_dot: str | None = None, dump_states: str | None = None, coverage: bool = False,
        deadlock_ok: bool = True, env: dict | None = None, metadir: str | None = None,
        cont: bool = False, dfs_queue: bool = False, extra: list | None = None,
        cwd: str | None = None, java_opts: list | None = None) -> TlcResult:
    """spec/cfg are paths (relative to specs/ if not absolute)."""
    if not os.path.isabs(spec):
        spec = os.path.join(SPECS, spec)
    if not os.path.isabs(cfg):
        cfg = os.path.join(SPECS, cfg)
    cwd = cwd or os.path.dirname(spec)
    own_meta = metadir is None
    if own_meta:
        base = "/dev/shm" if os.path.isdir("/dev/shm") else "/verif/out"
        metadir = os.path.join(base, f"verif-tlc-{os.getpid()}-{time.time_ns()}")
    jopts = ["-XX:+UseParallelGC", "-Xss16m"] + (java_opts or [])
    if dfs_queue:
        jopts.append("-Dtlc2.tool.queue.IStateQueue=StateDeque")
    cmd = ["java", *jopts, "-cp", f"{JAR}:{DEPS}", "tlc2.TLC",
           "-metadir", metadir, "-noGenerateSpecTE", "-config", cfg]
    if simulate is not None:
        cmd += ["-simulate", simulate] if simulate else ["-simulate"]
        if depth:
            cmd += ["-depth", str(depth)]
    if seed is not None:
        cmd += ["-seed", str(seed)]
    cmd += ["-workers", str(workers)]
    if deadlock_ok:
        cmd += ["-deadlock"]
    if cont:
        cmd += ["-continue"]
    if coverage:
        cmd += ["-coverage", "1"]
    if dump_dot:
        cmd += ["-dump", "dot,actionlabels", dump_dot]
    if dump_states:
        cmd += ["-dump", dump_states]
    if extra:
        cmd += extra
    cmd.append(spec)
    e = dict(os.environ)
    e.pop("JAVA_TOOL_OPTIONS", None)
    if env:
        e.update(env)
    t0 = time.time()
    timed_out = False
    try:
        p = subprocess.run(cmd, cwd=cwd, env=e, stdout=subprocess.PIPE, stderr=subprocess.STDOUT,
                           timeout=timeout, text=True, errors="replace")
        out, rc = p.stdout, p.returncode
    except subprocess.TimeoutExpired as ex:
        out = (ex.stdout or b"")
        if isinstance(out, bytes):
            out = out.decode("utf-8", "replace")
        rc, timed_out = 124, True
    finally:
        if own_meta:
            shutil.rmtree(metadir, ignore_errors=True)
    res = parse_output(out)
    res.wall_s = time.time() - t0
    res.cmd = " ".join(cmd)
    res.timed_out = timed_out
    res.rc = rc
    if timed_out and simulate is not None:
        # simulation is open-ended: a time-out without an error is a normal end
        res.completed = True
        res.ok = not res.violated and "Error:" not in out
    return res


def parse_output(out: str) -> TlcResult:
    res = TlcResult(ok=False, completed=False, output=out)
    for m in _RE_STATS.finditer(out):
        res.generated, res.distinct = int(m.group(1)), int(m.group(2))
    m = _RE_DEPTH.search(out)
    if m:
        res.depth = int(m.group(1))
    res.violated = _RE_INV.findall(out) + _RE_ACTPROP.findall(out)
    if "Temporal properties were violated" in out:
        res.violated.append("<temporal>")
    if "Deadlock reached" in out:
        res.violated.append("<deadlock>")
    res.completed = ("Model checking completed" in out) or ("Progress(" in out and "simulat" in out.lower() and "Error" not in out)
    has_err = bool(re.search(r"^Error:", out, re.M)) or "TLC threw an unexpected exception" in out
    res.ok = res.completed and not has_err and not res.violated
    # error trace
    lines = out.splitlines()
    i = 0
    while i < len(lines):
        m = _RE_STATE.match(lines[i])
        if m:
            label = m.group(2)
            j = i + 1
            buf = []
            while j < len(lines) and lines[j].strip() and not _RE_STATE.match(lines[j]) and not lines[j].startswith("Error:"):
                buf.append(lines[j])
                j += 1
            try:
                st = tlaval.parse_state("\n".join(buf))
            except Exception:
                st = {"_raw": "\n".join(buf)}
            res.error_trace.append((label, st))
            i = j
            continue
        m = _RE_COV.match(lines[i])
        if m:
            res.coverage[m.group(1)] = (int(m.group(3)), int(m.group(4)))
        i += 1
    return res


def sany(path: str) -> tuple[bool, str]:
    p = subprocess.run(["java", "-cp", f"{JAR}:{DEPS}", "tla2sany.SANY", path], cwd=os.path.dirname(path),
                       stdout=subprocess.PIPE, stderr=subprocess.STDOUT, text=True)
    ok = p.returncode == 0 and "Semantic errors" not in p.stdout and "*** Errors" not in p.stdout and "Parse Error" not in p.stdout and "Fatal errors" not in p.stdout
    return ok, p.stdout


# ---------------------------------------------------------------------------
# dot graph (state graph dumped with -dump dot,actionlabels)

_RE_NODE = re.compile(r'^(-?\d+) \[label="(.*?)"(?:,style = filled)?(?:,tooltip=".*")?\]\s*;?$')
_RE_EDGE = re.compile(r'^(-?\d+) -> (-?\d+) \[label="(.*?)",color=')


def _unescape_dot(s: str) -> str:
    return s.replace("\\n", "\n").replace('\\"', '"').replace("\\\\", "\\")


@dataclass
class Graph:
    nodes: dict     # id -> state dict
    init: list      # ids
    edges: dict     # id -> list of (label, dst)

    def n_edges(self):
        return sum(len(v) for v in self.edges.values())


def load_dot(path: str, parse_states: bool = True) -> Graph:
    nodes, init, edges = {}, [], {}
    with open(path, encoding="utf-8", errors="replace") as f:
        for line in f:
            line = line.rstrip("\n")
            m = _RE_EDGE.match(line)
            if m:
                edges.setdefault(int(m.group(1)), []).append((m.group(3), int(m.group(2))))
                continue
            m = _RE_NODE.match(line)
            if m:
                nid = int(m.group(1))
                lab = _unescape_dot(m.group(2))
                nodes[nid] = tlaval.parse_state(lab) if parse_states else lab
                if "style = filled" in line:
                    init.append(nid)
    for k in edges:
        # de-duplicate (strict digraph merges in graphviz, the file does not)
        seen, out = set(), []
        for e in edges[k]:
            if e not in seen:
                seen.add(e)
                out.append(e)
        edges[k] = out
    return Graph(nodes, init, edges)


def load_state_dump(path: str):
    """Parse the plain `-dump file` format: 'State N:' blocks of '/\\ var = value'."""
    if not path.endswith(".dump") and os.path.exists(path + ".dump"):
        path = path + ".dump"
    with open(path, encoding="utf-8", errors="replace") as f:
        buf = []
        for line in f:
            if line.startswith("State "):
                if buf:
                    yield tlaval.parse_state("".join(buf))
                buf = []
            elif line.strip():
                buf.append(line)
        if buf:
            yield tlaval.parse_state("".join(buf))


def write_cfg(path: str, *, spec: str | None = None, init: str | None = None, next_: str | None = None,
              constants: dict | None = None, invariants=(), properties=(), constraint=(),
              action_constraint=(), view: str | None = None, postcondition: str | None = None,
              check_deadlock: bool = False, symmetry: str | None = None, alias: str | None = None):
    out = []
    if spec:
        out.append(f"SPECIFICATION {spec}")
    if init:
        out.append(f"INIT {init}")
    if next_:
        out.append(f"NEXT {next_}")
    if constants:
        out.append("CONSTANTS")
        for k, v in constants.items():
            out.append(f"  {k} {v}" if str(v).startswith("<-") else f"  {k} = {v}")
    for i in invariants:
        out.append(f"INVARIANT {i}")
    for p in properties:
        out.append(f"PROPERTY {p}")
    for c in constraint:
        out.append(f"CONSTRAINT {c}")
    for c in action_constraint:
        out.append(f"ACTION_CONSTRAINT {c}")
    if view:
        out.append(f"VIEW {view}")
    if symmetry:
        out.append(f"SYMMETRY {symmetry}")
    if alias:
        out.append(f"ALIAS {alias}")
    if postcondition:
        out.append(f"POSTCONDITION {postcondition}")
    out.append(f"CHECK_DEADLOCK {'TRUE' if check_deadlock else 'FALSE'}")
    with open(path, "w") as f:
        f.write("\n".join(out) + "\n")


def extract_printed(output: str, tag: str):
    """All values printed with PrintT(<<"tag", ...>>), robust to TLC's line wrapping of long
    tuples and to interleaving at line granularity: balanced-bracket scan from each `<<"tag"`."""
    out = []
    pat = re.compile(r'<<\s*"' + re.escape(tag) + '"')
    i = 0
    n = len(output)
    while True:
        m = pat.search(output, i)
        if m is None:
            return out
        i = m.start()
        depth, j, instr = 0, i, False
        while j < n:
            c = output[j]
            if instr:
                if c == "\\":
                    j += 1
                elif c == '"':
                    instr = False
            elif c == '"':
                instr = True
            elif output.startswith("<<", j):
                depth += 1
                j += 1
            elif output.startswith(">>", j):
                depth -= 1
                j += 1
                if depth == 0:
                    break
            j += 1
        try:
            out.append(tlaval.parse(output[i:j + 1]))
        except Exception:
            pass
        i = j + 1

"""C18 -- concrete worlds for the abstract (HEAD tree, index, working directory) triple of
specs/WorkTreeStatus.tla.

An abstract path is a tuple of abstract names (("d", "b")), an abstract cell a pair
(kind, content id) with kind in F (regular 100644), X (executable 100755), L (symlink 120000).
A *scheme* turns abstract names into concrete file names (plain, names needing quoting, UTF-8,
non-UTF-8, leading dash/dot ...) and content ids into bytes (text, bytes shared between file and
link target, empty/CRLF, binary/large, link targets that name directories).

Everything here that produces an *expected* value is independent of dulwich: objects are hashed
and written with hashlib/zlib, the working directory is read with os.*, C git is run as a
subprocess.  dulwich is only ever called through the entry points of the property (DulExec).
"""
from __future__ import annotations

import hashlib
import os
import shutil
import stat
import subprocess
import time
import zlib

MODES = {"F": 0o100644, "X": 0o100755, "L": 0o120000}
# permission bits the harness gives the files it writes: to git only the owner's execute bit
# decides between 100644 and 100755, whatever group and others may do
PERMS = {"F": (0o644, 0o654, 0o611, 0o655, 0o600, 0o666), "X": (0o755, 0o744, 0o700, 0o710, 0o764, 0o777)}
KIND_OF_MODE = {v: k for k, v in MODES.items()}
T0 = 1_000_000_000            # explicit file times start here (2001-09-09), one second per edit

# configuration profiles: settings that select another implementation of the same scan or another
# index format without changing what status / add / checkout have to answer (git runs under the
# same profile in phase 0, which is what shows that the specification does not depend on them)
CONFIG_PROFILES = (
    {},
    {"core.preloadIndex": "true"},
    {"core.trustctime": "false"},
    {"core.preloadIndex": "true", "core.trustctime": "false", "index.version": "4"},
)

# --------------------------------------------------------------------------- schemes
NAME_SCHEMES = {
    # abstract name -> concrete bytes; names not listed map to themselves.  In every scheme the name
    # of g extends the name of a by a byte that sorts before '/': "a" is a string prefix of a
    # sibling, and the sibling sorts between the file "a" and the directory "a/".
    "plain": {"g": b"a-g"},
    "quote": {"a": b"a b", "d": b'd"q', "b": b"b\tt", "c": b"c\nn", "x": b"'x'", "e": b"e*?[e]", "s": b"s\\s", "f": b" f ", "g": b"a b#;"},
    "utf8": {"a": "ä".encode(), "d": "日本".encode(), "b": "é".encode(), "c": "\U0001f600".encode(),
             "x": "ß".encode(), "e": "ê".encode(), "s": "ф".encode(), "f": "א".encode(), "g": "ä ñ".encode()},
    "nonutf8": {"a": b"\xff\xfea", "d": b"d\x80", "b": b"\xe9", "c": b"c\xc3", "x": b"\xa0x", "e": b"\xfce", "s": b"s\xf8", "f": b"\xed\xa0\x80", "g": b"\xff\xfea\x81"},
    "dashdot": {"a": b"-a", "d": b".d", "b": b"--", "c": b".gitx", "x": b"..x", "e": b"e.lock", "s": b"-s", "f": b"...f", "g": b"-a.@{g}"},
}


def _big(seed: int, n: int) -> bytes:
    out = bytearray()
    h = hashlib.sha256(b"c18-%d" % seed).digest()
    while len(out) < n:
        h = hashlib.sha256(h).digest()
        out += h
    return bytes(out[:n])


def content_scheme(name: str, large: int = 200_000):
    """-> (file_bytes: {cid: bytes}, link_bytes: {cid: bytes}).  Sizes: |1| = |2| # |3| for both."""
    if name == "text":
        return ({1: b"alpha\n", 2: b"bravo\n", 3: b"charlie is longer\n", 4: b"delta\n", 5: b"e\n"},
                {1: b"alpha", 2: b"./alpha", 3: b"some/where/else", 4: b"alpha/", 5: b"e"})     # 1, 2, 4: one place, three spellings
    if name == "shared":        # a file and a symlink with the same content id have the same blob id
        d = {1: b"t1", 2: b"t2", 3: b"t-three", 4: b"t4", 5: b"t"}
        return d, dict(d)
    if name == "crlf":          # empty file, CR/LF bytes that autocrlf=false must leave alone
        return ({1: b"a\r\nb\r\n", 2: b"a\nb\nc\n", 3: b"", 4: b"\r\r\n\n\r\n", 5: b"\n"},
                {1: b"l\r1", 2: b"l\n2", 3: b"l", 4: b"l\t4", 5: b" "})
    if name == "binary":
        a = _big(1, large)
        b = a[:-1] + bytes([a[-1] ^ 1])          # same size, differs in the last byte only
        return ({1: a, 2: b, 3: b"\x00" * (large // 2 + 1), 4: _big(4, large), 5: b"\x00"},
                {1: b"\xff\xfe", 2: b"\xfe\xff", 3: b"x" * 200, 4: b"\x80\x81", 5: b"\x01"})
    if name == "linkdir":       # link targets name existing (empty, hence invisible) directories, the parent, nothing
        return ({1: b"one\n", 2: b"two\n", 3: b"three!\n", 4: b"four\n", 5: b"5\n"},
                {1: b"zdir", 2: b"./zdir/", 3: b"nowhere", 4: b"zdir/sub", 5: b".."})           # 1, 2: one directory, two spellings
    raise KeyError(name)


class Scheme:
    def __init__(self, names="plain", contents="text", large=200_000):
        self.names_id, self.contents_id = names, contents
        self.nmap = NAME_SCHEMES[names]
        self.files, self.links = content_scheme(contents, large)
        self.rfiles = {v: k for k, v in self.files.items()}
        self.rlinks = {v: k for k, v in self.links.items()}
        self.rnames = {}

    def name(self, n: str) -> bytes:
        b = self.nmap.get(n, n.encode())
        self.rnames[b] = n
        return b

    def path(self, p) -> bytes:
        return b"/".join(self.name(n) for n in p)

    def apath(self, b: bytes):
        """concrete relative path -> abstract path (names unknown to the scheme stay as '?hex')"""
        return tuple(self.rnames.get(x, "?" + x.hex()) for x in b.split(b"/"))

    def data(self, kind: str, c: int) -> bytes:
        return self.links[c] if kind == "L" else self.files[c]

    def cell_of(self, kind: str, data: bytes):
        c = (self.rlinks if kind == "L" else self.rfiles).get(data)
        return (kind, c if c is not None else "?" + hashlib.sha1(data).hexdigest()[:8])

    def ident(self):
        return f"{self.names_id}/{self.contents_id}"


# --------------------------------------------------------------------------- git objects, independently
def obj_id(kind: bytes, data: bytes) -> str:
    return hashlib.sha1(kind + b" %d\0" % len(data) + data).hexdigest()


def tree_bytes(entries) -> bytes:
    """entries: iterable of (name bytes, mode int, hex sha); git order (directories as name + '/')."""
    def key(e):
        return e[0] + (b"/" if e[1] == 0o40000 else b"")
    return b"".join(b"%o %s\0" % (m, n) + bytes.fromhex(h) for (n, m, h) in sorted(entries, key=key))


class ObjWriter:
    """Writes loose objects into <git_dir>/objects with hashlib/zlib only."""

    def __init__(self, git_dir: str | None):
        self.git_dir = git_dir
        self.seen = set()

    def put(self, kind: bytes, data: bytes) -> str:
        h = obj_id(kind, data)
        if self.git_dir is None or h in self.seen:
            return h
        self.seen.add(h)
        d = os.path.join(self.git_dir, "objects", h[:2])
        p = os.path.join(d, h[2:])
        if not os.path.exists(p):
            os.makedirs(d, exist_ok=True)
            with open(p + ".tmp", "wb") as f:
                f.write(zlib.compress(kind + b" %d\0" % len(data) + data, 1))
            os.replace(p + ".tmp", p)
        return h


def build_tree(scheme: Scheme, amap: dict, w: ObjWriter) -> str:
    """amap: {abstract path: (kind, cid)} (valid: prefix-free) -> root tree id; objects go to w."""
    root: dict = {}
    for p, (k, c) in amap.items():
        node = root
        for n in p[:-1]:
            node = node.setdefault(scheme.name(n), {})
            if not isinstance(node, dict):
                raise ValueError(f"file/directory conflict at {p}")
        leaf = scheme.name(p[-1])
        if leaf in node:
            raise ValueError(f"file/directory conflict at {p}")
        node[leaf] = (MODES[k], w.put(b"blob", scheme.data(k, c)))

    def rec(node):
        ents = []
        for n, v in node.items():
            if isinstance(v, dict):
                ents.append((n, 0o40000, rec(v)))
            else:
                ents.append((n, v[0], v[1]))
        return w.put(b"tree", tree_bytes(ents))
    return rec(root)


EMPTY_TREE = "4b825dc642cb6eb9a060e54bf8d69288fbee4904"
IDENT = b"C18 Check <c18@example.invalid>"


def commit_bytes(tree_hex: str, parents=(), msg=b"c18\n", when=T0) -> bytes:
    out = b"tree " + tree_hex.encode() + b"\n"
    for p in parents:
        out += b"parent " + p.encode() + b"\n"
    out += b"author " + IDENT + b" %d +0000\ncommitter " % when + IDENT + b" %d +0000\n\n" % when + msg
    return out


# --------------------------------------------------------------------------- the concrete world
def freeze(amap):
    return tuple(sorted((tuple(p), tuple(v)) for p, v in amap.items()))


class World:
    """One repository (work tree + .git) under `root`, instantiated with a scheme."""

    def __init__(self, root: str, scheme: Scheme, home: str):
        self.root, self.scheme, self.home = root, scheme, home
        self.broot = os.fsencode(root)
        self.git_dir = os.path.join(root, ".git")
        self.clock = 0
        self.perms = 0          # 0: plain 0644 / 0755; otherwise unusual permission bits in rotation
        self.commits = {}       # frozen abstract tree -> commit hex
        self.tree_ids = {}      # frozen abstract tree -> tree hex
        self.env = git_env(home)
        os.makedirs(root, exist_ok=True)
        if not os.path.isdir(self.git_dir):
            self.git("init", "-q", "-b", "master", ".")
            for k, v in (("core.autocrlf", "false"), ("core.filemode", "true"), ("core.symlinks", "true"),
                         ("core.ignorecase", "false"), ("core.precomposeunicode", "false"),
                         ("user.name", "C18 Check"), ("user.email", "c18@example.invalid"),
                         ("gc.auto", "0"), ("core.fsmonitor", "false"), ("core.untrackedcache", "false")):
                self.git("config", k, v)
        self.writer = ObjWriter(self.git_dir)
        base = os.path.join(self.git_dir, "config.c18base")
        if not os.path.exists(base):
            shutil.copy(os.path.join(self.git_dir, "config"), base)
        self.cfg = 0

    def set_config(self, profile: int):
        """Rewrite .git/config as the base configuration plus one of CONFIG_PROFILES."""
        with open(os.path.join(self.git_dir, "config.c18base")) as f:
            text = f.read()
        sections = {}
        for k, v in CONFIG_PROFILES[profile % len(CONFIG_PROFILES)].items():
            sec, key = k.split(".")
            sections.setdefault(sec, []).append((key, v))
        for sec, kvs in sections.items():
            text += f"[{sec}]\n" + "".join(f"\t{k} = {v}\n" for k, v in kvs)
        with open(os.path.join(self.git_dir, "config"), "w") as f:
            f.write(text)
        self.cfg = profile

    # ---- plumbing
    def git(self, *args, index_file=None, check=True, input=None):
        env = self.env
        if index_file:
            env = dict(env, GIT_INDEX_FILE=index_file)
        p = subprocess.run(["git", "--literal-pathspecs", "-c", "core.quotepath=false", *args], cwd=self.root, env=env,
                           input=input, stdout=subprocess.PIPE, stderr=subprocess.PIPE)
        if check and p.returncode != 0:
            raise GitFailed(args, p.returncode, p.stderr.decode("utf-8", "replace"))
        return p

    def tree_id(self, amap) -> str:
        k = freeze(amap)
        h = self.tree_ids.get(k)
        if h is None:
            h = self.tree_ids[k] = build_tree(self.scheme, amap, ObjWriter(None))
        return h

    def commit_for(self, amap) -> str:
        """Make sure a commit whose tree is `amap` exists in the object store; -> commit hex."""
        k = freeze(amap)
        h = self.commits.get(k)
        if h is None:
            t = build_tree(self.scheme, amap, self.writer)
            self.tree_ids[k] = t
            h = self.commits[k] = self.writer.put(b"commit", commit_bytes(t, msg=b"tree %s\n" % t.encode()))
        return h

    def reset_empty(self):
        """Back to a freshly initialised repository: unborn master, no index, empty directory."""
        for n in os.listdir(self.broot):
            if n == b".git":
                continue
            p = os.path.join(self.broot, n)
            if os.path.isdir(p) and not os.path.islink(p):
                shutil.rmtree(p)
            else:
                os.unlink(p)
        g = self.git_dir
        for rel in ("index", "index.lock", "ORIG_HEAD", "MERGE_HEAD", "packed-refs", os.path.join("refs", "stash")):
            try:
                os.unlink(os.path.join(g, rel))
            except FileNotFoundError:
                pass
        shutil.rmtree(os.path.join(g, "logs"), ignore_errors=True)
        shutil.rmtree(os.path.join(g, "refs", "heads"), ignore_errors=True)
        os.makedirs(os.path.join(g, "refs", "heads"))
        with open(os.path.join(g, "HEAD"), "w") as f:
            f.write("ref: refs/heads/master\n")
        # two empty directories (invisible to git) that the link targets of the "linkdir" scheme name
        os.makedirs(os.path.join(self.broot, b"zdir", b"sub"))
        self.clock = 0

    # ---- working directory edits (the harness plays the user; no dulwich, no git)
    def fs(self, p) -> bytes:
        return os.path.join(self.broot, self.scheme.path(p))

    def _stamp(self, fp: bytes):
        self.clock += 1
        t = (T0 + self.clock) * 1_000_000_000
        os.utime(fp, ns=(t, t), follow_symlinks=False)

    def _perm(self, k: str) -> int:
        if not self.perms:
            return PERMS[k][0]
        return PERMS[k][(self.perms + self.clock) % len(PERMS[k])]

    def _create(self, p, cell):
        k, c = cell
        fp = self.fs(p)
        os.makedirs(os.path.dirname(fp), exist_ok=True)
        if os.path.isdir(fp) and not os.path.islink(fp):
            # empty directories (possibly nested) left behind by earlier deletions; rmdir refuses anything else
            for dp, _dn, _fn in os.walk(fp, topdown=False):
                os.rmdir(dp)
        if k == "L":
            os.symlink(self.scheme.data(k, c), fp)
        else:
            with open(fp, "wb") as f:
                f.write(self.scheme.data(k, c))
            os.chmod(fp, self._perm(k))
        self._stamp(fp)

    def _remove(self, p, prune=True):
        fp = self.fs(p)
        st = os.lstat(fp)
        if stat.S_ISDIR(st.st_mode):
            shutil.rmtree(fp)
        else:
            os.unlink(fp)
        if prune:
            d = os.path.dirname(fp)
            while d != self.broot:
                try:
                    os.rmdir(d)
                except OSError:
                    break
                d = os.path.dirname(d)

    def edit_modify(self, p, old, new):
        """Change the content: a regular file is rewritten in place (same inode), a symlink re-made."""
        if new[0] == "L":
            os.unlink(self.fs(p))
            self._create(p, new)
        else:
            fp = self.fs(p)
            with open(fp, "r+b") as f:
                f.truncate(0)
                f.write(self.scheme.data(*new))
            self._stamp(fp)

    def edit_chmod(self, p, new):
        fp = self.fs(p)
        self.clock += 1
        os.chmod(fp, self._perm(new[0]))
        # chmod does not touch mtime; leave it: only ctime and the mode bits tell

    def edit_delete(self, p, prune=True):
        self._remove(p, prune)

    def edit_create(self, p, cell):
        self._create(p, cell)

    def edit_retype(self, p, new):
        os.unlink(self.fs(p))
        self._create(p, new)

    def edit_file_to_dir(self, p, q, cell):
        os.unlink(self.fs(p))
        self._create(q, cell)

    def edit_dir_to_file(self, d, cell):
        shutil.rmtree(self.fs(d))
        self._create(d, cell)

    def sync_wd(self, before: dict, after: dict):
        """Generic edit: make the directory go from abstract map `before` to `after`."""
        for p in sorted(before, key=len, reverse=True):
            if after.get(p) != before[p]:
                same_kindclass = p in after and (after[p][0] == "L") == (before[p][0] == "L")
                if p in after and same_kindclass and after[p][0] != "L":
                    continue        # handled below as in-place modification
                self._remove(p, prune=True)
        for p in sorted(after):
            if before.get(p) == after[p]:
                continue
            if p in before and before[p][0] != "L" and after[p][0] != "L":
                if before[p][1] != after[p][1]:
                    self.edit_modify(p, before[p], after[p])
                if before[p][0] != after[p][0]:
                    self.edit_chmod(p, after[p])
            else:
                fp = self.fs(p)
                if os.path.lexists(fp):          # a directory or a file in the way of the new entry
                    self._remove(p, prune=False)
                d = os.path.dirname(fp)
                while d != self.broot and not os.path.isdir(d):
                    d = os.path.dirname(d)
                self._create(p, after[p])

    # ---- observers
    def observe_wd(self) -> dict:
        """-> {abstract path: (kind, cid)}; empty directories are invisible (as they are to git)."""
        out = {}

        def walk(d, rel):
            for n in sorted(os.listdir(d)):
                if not rel and n in (b".git", b"zdir"):
                    continue
                fp = os.path.join(d, n)
                r = rel + (n,)
                st = os.lstat(fp)
                if stat.S_ISDIR(st.st_mode):
                    walk(fp, r)
                elif stat.S_ISLNK(st.st_mode):
                    out[self.scheme.apath(b"/".join(r))] = self.scheme.cell_of("L", os.readlink(fp))
                elif stat.S_ISREG(st.st_mode):
                    with open(fp, "rb") as f:
                        data = f.read()
                    out[self.scheme.apath(b"/".join(r))] = self.scheme.cell_of("X" if st.st_mode & 0o100 else "F", data)
                else:
                    out[self.scheme.apath(b"/".join(r))] = ("?", "special")
        walk(self.broot, ())
        return out

    def index_copy(self) -> str | None:
        src = os.path.join(self.git_dir, "index")
        dst = os.path.join(self.home, "index.copy")
        try:
            shutil.copy2(src, dst)
        except FileNotFoundError:
            try:
                os.unlink(dst)
            except FileNotFoundError:
                pass
        return dst

    def git_status(self, on_copy=True) -> dict:
        """git's opinion on the same directory.  Runs on a *copy* of the index so that git's
        opportunistic refresh never repairs the stat data dulwich wrote."""
        idx = self.index_copy() if on_copy else None
        p = self.git("status", "--porcelain=v1", "-z", "-uall", "--no-renames", "--ignore-submodules=none", index_file=idx)
        return parse_porcelain_z(p.stdout, self.scheme)

    def git_status_normal(self, on_copy=True) -> set:
        idx = self.index_copy() if on_copy else None
        p = self.git("status", "--porcelain=v1", "-z", "-unormal", "--no-renames", index_file=idx)
        out = set()
        for rec in p.stdout.split(b"\0"):
            if rec.startswith(b"?? "):
                b = rec[3:]
                out.add((self.scheme.apath(b.rstrip(b"/")), b.endswith(b"/")))
        return out

    def git_write_tree(self, on_copy=True):
        idx = self.index_copy() if on_copy else None
        p = self.git("write-tree", index_file=idx, check=False)
        if p.returncode != 0:
            return "error: " + p.stderr.decode("utf-8", "replace").strip().splitlines()[0][:100]
        return p.stdout.decode().strip()

    def git_ls_index(self, on_copy=True) -> dict:
        """-> {abstract path: [(kind, cid or '?sha', stage)]} as C git reads the index file."""
        idx = self.index_copy() if on_copy else None
        p = self.git("ls-files", "-s", "-z", index_file=idx)
        out = {}
        for rec in p.stdout.split(b"\0"):
            if not rec:
                continue
            meta, path = rec.split(b"\t", 1)
            mode, sha, stage = meta.split(b" ")
            out.setdefault(self.scheme.apath(path), []).append((self._cell_of_blob(int(mode, 8), sha.decode()), int(stage)))
        return out

    def _cell_of_blob(self, mode: int, sha: str):
        k = KIND_OF_MODE.get(mode, "?%o" % mode)
        if not hasattr(self, "_blobids"):
            self._blobids = {}
            for kind in "FL":
                src = self.scheme.links if kind == "L" else self.scheme.files
                for c, data in src.items():
                    self._blobids.setdefault((kind, obj_id(b"blob", data)), c)
        c = self._blobids.get(("L" if k == "L" else "F", sha))
        return (k, c if c is not None else "?" + sha[:8])

    def git_head_tree(self):
        p = self.git("rev-parse", "--verify", "-q", "HEAD^{tree}", check=False)
        return p.stdout.decode().strip() if p.returncode == 0 else None

    def git_ls_head(self) -> dict:
        p = self.git("ls-tree", "-r", "-z", "HEAD", check=False)
        out = {}
        if p.returncode != 0:
            return out
        for rec in p.stdout.split(b"\0"):
            if not rec:
                continue
            meta, path = rec.split(b"\t", 1)
            mode, _typ, sha = meta.split(b" ")
            out[self.scheme.apath(path)] = self._cell_of_blob(int(mode, 8), sha.decode())
        return out


class GitFailed(Exception):
    def __init__(self, args, rc, err):
        super().__init__(f"git {' '.join(map(str, args))} -> {rc}: {err.strip()[:300]}")
        self.rc, self.err = rc, err


def git_env(home: str) -> dict:
    e = {k: v for k, v in os.environ.items() if not k.startswith("GIT_")}
    e.update(HOME=home, XDG_CONFIG_HOME=os.path.join(home, ".config"), GIT_CONFIG_NOSYSTEM="1", GIT_CONFIG_GLOBAL="/dev/null",
             GIT_OPTIONAL_LOCKS="0", GIT_TERMINAL_PROMPT="0", LC_ALL="C", GIT_AUTHOR_NAME="C18 Check", GIT_AUTHOR_EMAIL="c18@example.invalid",
             GIT_COMMITTER_NAME="C18 Check", GIT_COMMITTER_EMAIL="c18@example.invalid", GIT_AUTHOR_DATE="1000000000 +0000",
             GIT_COMMITTER_DATE="1000000000 +0000")
    return e


def empty_report():
    return {"add": set(), "del": set(), "mod": set(), "unstaged": set(), "untracked": set()}


def parse_porcelain_z(out: bytes, scheme: Scheme) -> dict:
    r = empty_report()
    for rec in out.split(b"\0"):
        if not rec:
            continue
        x, y, path = chr(rec[0]), chr(rec[1]), rec[3:]
        ap = scheme.apath(path)
        if x == "?" and y == "?":
            r["untracked"].add(ap)
            continue
        if x == "!":
            continue
        if x == "A":
            r["add"].add(ap)
        elif x == "D":
            r["del"].add(ap)
        elif x in "MT":
            r["mod"].add(ap)
        elif x not in " ":
            r.setdefault("other", set()).add((x + y, ap))
        if y in "MDT":
            r["unstaged"].add(ap)
        elif y not in " ":
            r.setdefault("other", set()).add((x + y, ap))
    return r


# --------------------------------------------------------------------------- executors
class GitExec:
    """The behaviour carried out with C git's own commands (validates the model; dulwich is not involved)."""
    name = "git"

    def __init__(self, w: World):
        self.w = w

    def checkout(self, tree, how="checkout"):
        c = self.w.commit_for(tree)
        if how == "reset":
            self.w.git("reset", "-q", "--hard", c)
        else:
            self.w.git("checkout", "-q", "--detach", c)

    switch = checkout

    def stage(self, p):
        self.w.git("add", "-A", "--", self.w.scheme.path(p))

    def stage_all(self):
        self.w.git("add", "-A")

    def unstage(self, p, how="unstage"):
        self.w.git("reset", "-q", "--", self.w.scheme.path(p))

    def rm_cached(self, p):
        self.w.git("rm", "-q", "-f", "--cached", "--", self.w.scheme.path(p))

    def commit(self):
        self.w.git("commit", "-q", "--allow-empty", "-m", "c18")

    def reset_hard(self):
        self.w.git("reset", "-q", "--hard", "HEAD")

    def reset_mixed(self):
        self.w.git("reset", "-q", "--mixed", "HEAD")

    def stash_push(self, how="porcelain"):
        self.w.git("stash", "push", "-q")

    def stash_pop(self, how="porcelain"):
        self.w.git("stash", "pop", "-q", "--index")

    def status(self):
        return self.w.git_status(on_copy=False)

    def status_normal(self):
        return self.w.git_status_normal(on_copy=False)

    def write_tree(self):
        return self.w.git_write_tree(on_copy=True)


class DulExec:
    """The behaviour carried out through dulwich's entry points (what the property is about)."""
    name = "dulwich"

    def __init__(self, w: World):
        self.w = w
        import dulwich.porcelain as porcelain
        self.P = porcelain

    def _fsp(self, p) -> str:
        return os.fsdecode(self.w.scheme.path(p))

    def checkout(self, tree, how="checkout"):
        c = self.w.commit_for(tree)
        if how == "reset":
            self.P.reset(self.w.root, "hard", c)
        elif how == "build":
            # what clone does: point the branch at the commit, then build index + files from the tree
            from dulwich.repo import Repo
            with Repo(self.w.root) as r:
                r.refs[b"refs/heads/master"] = c.encode()
                r.get_worktree().reset_index()
        elif how == "switch":
            self.P.switch(self.w.root, c.encode(), detach=True)
        else:
            self.P.checkout(self.w.root, c.encode())

    switch = checkout

    def stage(self, p):
        self.P.add(self.w.root, paths=[self._fsp(p)])

    def stage_all(self):
        self.P.add(self.w.root)

    def unstage(self, p, how="unstage"):
        if how == "restore":
            self.P.restore(self.w.root, [self._fsp(p)], staged=True, worktree=False)
        else:
            from dulwich.repo import Repo
            with Repo(self.w.root) as r:
                r.get_worktree().unstage([self._fsp(p)])

    def rm_cached(self, p):
        self.P.rm(self.w.root, [self._fsp(p)], cached=True)

    def commit(self):
        self.P.commit(self.w.root, message=b"c18", author=IDENT, committer=IDENT, commit_timestamp=T0, commit_timezone=0,
                      author_timestamp=T0, author_timezone=0)

    def reset_hard(self):
        self.P.reset(self.w.root, "hard", "HEAD")

    def reset_mixed(self):
        self.P.reset(self.w.root, "mixed", "HEAD")

    def stash_push(self, how="porcelain"):
        if how == "class":
            from dulwich.repo import Repo
            from dulwich.stash import Stash
            with Repo(self.w.root) as r:
                Stash.from_repo(r).push(committer=IDENT, author=IDENT)
        else:
            self.P.stash_push(self.w.root)

    def stash_pop(self, how="porcelain"):
        # racy-git is not part of the property: what pop writes must not share a time stamp with what push wrote
        time.sleep(0.02)
        if how == "class":
            from dulwich.repo import Repo
            from dulwich.stash import Stash
            with Repo(self.w.root) as r:
                Stash.from_repo(r).pop(0)
        else:
            self.P.stash_pop(self.w.root)

    def status(self):
        st = self.P.status(self.w.root, untracked_files="all")
        ap = self.w.scheme.apath
        r = empty_report()
        for key, dst in (("add", "add"), ("delete", "del"), ("modify", "mod")):
            for b in st.staged.get(key, []):
                r[dst].add(ap(b))
        for b in st.unstaged:
            r["unstaged"].add(ap(b))
        for b in st.untracked:
            r["untracked"].add(ap(b))
        extra = set(st.staged) - {"add", "delete", "modify"}
        if extra:
            r["other"] = extra
        return r

    def status_normal(self):
        st = self.P.status(self.w.root, untracked_files="normal")
        out = set()
        for b in st.untracked:
            out.add((self.w.scheme.apath(b.rstrip(b"/")), b.endswith(b"/")))
        return out

    def write_tree(self):
        return self.P.write_tree(self.w.root).decode()

"""C14 executor: actions of specs/Accel.tla on a real repository, projection, query battery.

A scratch repository is a bare git repository `<root>/r.git`, a sibling `<root>/o.git` ("the other
repository": a clone that receives every commit ever created and is never pruned; source of the
copied accelerator files) and a sidecar `<root>/side.json` with what the projection needs to map
concrete names back to the model's terms (object ids of every group, pack name -> groups, pack
checksum -> pack name).  Everything that *reads* the directory for the projection is independent
of dulwich (own parsers); everything that *writes* goes through dulwich or C git, as the action
label says.
"""
from __future__ import annotations

import hashlib
import json
import os
import shutil
import struct
import subprocess
import warnings
import zlib

warnings.simplefilter("ignore")

ID = b"a <a@example.com>"
KINDS = ("c", "t", "b")
GIT_ENV = dict(os.environ, GIT_CONFIG_NOSYSTEM="1", GIT_CONFIG_GLOBAL="/dev/null", HOME="/nonexistent",
               GIT_AUTHOR_DATE="@1 +0000", GIT_COMMITTER_DATE="@1 +0000", LC_ALL="C")


def refname(r):
    return b"refs/heads/" + r.encode()


def git(gitdir, *args, check=True, inp=None):
    if check and not midx_matches_local_packs(gitdir):
        raise GitRefused("not asked: the multi-pack-index holds offsets of other bytes for a pack of the same name")
    p = subprocess.run(["git", "--git-dir", gitdir, "-c", "gc.auto=0", "-c", "core.commitGraph=true",
                        "-c", "maintenance.auto=false", *args], input=inp,
                       stdout=subprocess.PIPE, stderr=subprocess.PIPE, env=GIT_ENV)
    if check and p.returncode != 0:
        raise GitRefused(f"git {' '.join(args)} failed ({p.returncode}): {p.stderr.decode('utf-8', 'replace')[-300:]}")
    return p


class GitRefused(RuntimeError):
    """C git itself failed on the directory (e.g. its own consistency check of a stale multi-pack-index)."""


# --------------------------------------------------------------------------- objects of the universe
def make_group(i, parent_ids):
    """The three objects of commit i (deterministic given the parents' ids)."""
    from dulwich.objects import Blob, Commit, Tree
    b = Blob.from_string(b"content of file %d\n" % i * (i + 1))
    t = Tree()
    t.add(b"f%d" % i, 0o100644, b.id)
    c = Commit()
    c.tree = t.id
    c.parents = list(parent_ids)
    c.author = c.committer = ID
    c.author_time = c.commit_time = 1000 + 100 * i
    c.author_timezone = c.commit_timezone = 0
    c.message = b"c%d\n" % i
    return c, t, b


class Side:
    def __init__(self, root):
        self.root = root
        self.path = os.path.join(root, "side.json")
        if os.path.exists(self.path):
            with open(self.path) as f:
                d = json.load(f)
        else:
            d = {"ids": {}, "par": {}, "packs": {}, "sums": {}}
        self.ids = {int(k): v for k, v in d["ids"].items()}        # i -> {"c": hex, "t": hex, "b": hex}
        self.par = {int(k): v for k, v in d["par"].items()}        # i -> [parents]
        self.packs = d["packs"]                                     # pack basename -> [groups]
        self.sums = d["sums"]                                       # pack checksum hex -> pack basename
        self._o2g = None

    def save(self):
        with open(self.path, "w") as f:
            json.dump({"ids": self.ids, "par": self.par, "packs": self.packs, "sums": self.sums}, f)

    @property
    def n(self):
        return len(self.ids)

    def o2g(self):
        if self._o2g is None or len(self._o2g) != 3 * len(self.ids):
            self._o2g = {h: (i, k) for i, d in self.ids.items() for k, h in d.items()}
        return self._o2g

    def cid(self, i):
        return self.ids[i]["c"].encode()

    def groups_of(self, hexes, what):
        """Map a collection of object names to groups; every group must be complete."""
        o2g = self.o2g()
        seen = {}
        for h in hexes:
            if h not in o2g:
                raise Unprojectable(f"{what}: unknown object {h}")
            i, k = o2g[h]
            seen.setdefault(i, set()).add(k)
        for i, ks in seen.items():
            if ks != set(KINDS):
                raise Unprojectable(f"{what}: group {i} incomplete ({sorted(ks)})")
        return sorted(seen)

    def learn_packs(self, gitdir):
        """Record name -> groups and checksum -> name for every pack currently in gitdir."""
        pd = os.path.join(gitdir, "objects", "pack")
        for fn in os.listdir(pd):
            if fn.endswith(".pack") and os.path.exists(os.path.join(pd, fn[:-5] + ".idx")):
                base = fn[:-5]
                with open(os.path.join(pd, fn), "rb") as f:
                    f.seek(-20, 2)
                    cs = f.read(20).hex()
                self.sums[cs] = base
                if base not in self.packs:
                    # git names a pack after its trailer checksum, dulwich after the hash of its object names
                    self.packs[base] = [self.groups_of(idx_names(os.path.join(pd, base + ".idx")), f"pack {base}"),
                                        "g" if base == "pack-" + cs else "d"]


class Unprojectable(Exception):
    pass


def create(root):
    from dulwich.repo import Repo
    os.makedirs(root, exist_ok=True)
    for name in ("r.git",):
        p = os.path.join(root, name)
        os.makedirs(p)
        r = Repo.init_bare(p)
        r.refs.set_symbolic_ref(b"HEAD", b"refs/heads/main")      # never exists: HEAD stays unborn
        c = r.get_config()
        c.set((b"core",), b"logAllRefUpdates", b"false")
        c.set((b"gc",), b"auto", b"0")
        c.set((b"repack",), b"writeBitmaps", b"false")
        c.write_to_path()
        r.close()
    s = Side(root)
    s.save()
    return s


def R(root):
    return os.path.join(root, "r.git")


def O(root):
    return os.path.join(root, "o.git")


# --------------------------------------------------------------------------- independent parsers (projection)
def idx_names(path):
    """object names listed by a pack index file (v1 and v2, SHA-1)."""
    with open(path, "rb") as f:
        d = f.read()
    if d[:4] == b"\377tOc":
        n = struct.unpack(">L", d[8 + 255 * 4:8 + 256 * 4])[0]
        base = 8 + 1024
        return [d[base + 20 * i:base + 20 * i + 20].hex() for i in range(n)]
    n = struct.unpack(">L", d[255 * 4:256 * 4])[0]
    base = 1024
    return [d[base + 24 * i + 4:base + 24 * i + 24].hex() for i in range(n)]


def idx_offsets(path):
    """object name -> offset in the pack, from a pack index file (v1 and v2, small packs)."""
    with open(path, "rb") as f:
        d = f.read()
    if d[:4] == b"\377tOc":
        n = struct.unpack(">L", d[8 + 255 * 4:8 + 256 * 4])[0]
        names = 8 + 1024
        offs = names + 20 * n + 4 * n
        return {d[names + 20 * i:names + 20 * i + 20].hex(): struct.unpack(">L", d[offs + 4 * i:offs + 4 * i + 4])[0] for i in range(n)}
    n = struct.unpack(">L", d[255 * 4:256 * 4])[0]
    return {d[1024 + 24 * i + 4:1024 + 24 * i + 24].hex(): struct.unpack(">L", d[1024 + 24 * i:1024 + 24 * i + 4])[0] for i in range(n)}


def midx_matches_local_packs(gitdir):
    """False if the multi-pack-index records, for a pack that exists here, offsets that are not those of the
    local file (a midx built for other bytes stored under the same dulwich-style name).  C git follows such
    offsets and fails in ways that are its own; the harness does not ask git to work on such a directory."""
    pd = os.path.join(gitdir, "objects", "pack")
    mp = os.path.join(pd, "multi-pack-index")
    if not os.path.exists(mp):
        return True
    with open(mp, "rb") as f:
        d = f.read()
    ch = _chunks(d, 12, d[6])
    a, b = ch[b"PNAM"]
    names = [x.decode() for x in d[a:b].split(b"\0") if x]
    a, b = ch[b"OIDL"]
    oids = [d[a + 20 * i:a + 20 * i + 20].hex() for i in range((b - a) // 20)]
    a, b = ch[b"OOFF"]
    local = {}
    for i, h in enumerate(oids):
        pid, off = struct.unpack(">LL", d[a + 8 * i:a + 8 * i + 8])
        nm = names[pid]
        if nm not in local:
            p = os.path.join(pd, nm)
            local[nm] = idx_offsets(p) if os.path.exists(p) and os.path.exists(p[:-4] + ".pack") else None
        if local[nm] is not None and local[nm].get(h) != off:
            return False
    return True


def idx_version(path):
    with open(path, "rb") as f:
        h = f.read(8)
    return struct.unpack(">L", h[4:8])[0] if h[:4] == b"\377tOc" else 1


def _chunks(d, hdr, nchunks):
    toc = []
    for k in range(nchunks + 1):
        o = hdr + 12 * k
        toc.append((d[o:o + 4], struct.unpack(">Q", d[o + 4:o + 12])[0]))
    return {toc[k][0]: (toc[k][1], toc[k + 1][1]) for k in range(nchunks)}


def cg_commits(path):
    """commit-graph: list of (commit hex, [parent hex or None if not listed]) -- own parser."""
    with open(path, "rb") as f:
        d = f.read()
    if d[:4] != b"CGPH":
        raise Unprojectable("commit-graph signature")
    ch = _chunks(d, 8, d[6])
    a, b = ch[b"OIDL"]
    oids = [d[a + 20 * i:a + 20 * i + 20].hex() for i in range((b - a) // 20)]
    a, b = ch[b"CDAT"]
    edges = ch.get(b"EDGE")
    out = []
    for i, h in enumerate(oids):
        o = a + 36 * i + 20
        p1, p2 = struct.unpack(">LL", d[o:o + 8])
        ps = []
        if p1 != 0x70000000:
            ps.append(oids[p1] if p1 < len(oids) else None)
        if p2 & 0x80000000:
            e = edges[0] + 4 * (p2 & 0x7FFFFFFF)
            while True:
                v = struct.unpack(">L", d[e:e + 4])[0]
                ps.append(oids[v & 0x7FFFFFFF])
                e += 4
                if v & 0x80000000:
                    break
        elif p2 != 0x70000000:
            ps.append(oids[p2] if p2 < len(oids) else None)
        gen = struct.unpack(">L", d[o + 8:o + 12])[0] >> 2
        out.append((h, ps, gen))
    return out


def midx_packs(path):
    """multi-pack-index: (pack idx names, [(object hex, pack index)]) -- own parser."""
    with open(path, "rb") as f:
        d = f.read()
    if d[:4] != b"MIDX":
        raise Unprojectable("midx signature")
    nchunks = d[6]
    ch = _chunks(d, 12, nchunks)
    a, b = ch[b"PNAM"]
    names = [x.decode() for x in d[a:b].split(b"\0") if x]
    a, b = ch[b"OIDL"]
    oids = [d[a + 20 * i:a + 20 * i + 20].hex() for i in range((b - a) // 20)]
    a, b = ch[b"OOFF"]
    ents = [(oids[i], struct.unpack(">L", d[a + 8 * i:a + 8 * i + 4])[0]) for i in range(len(oids))]
    return names, ents


def bitmap_header(path):
    with open(path, "rb") as f:
        d = f.read(32)
    if d[:4] != b"BITM":
        raise Unprojectable("bitmap signature")
    flags, = struct.unpack(">H", d[6:8])
    n, = struct.unpack(">L", d[8:12])
    return {"flags": flags, "entries": n, "checksum": d[12:32].hex()}


def read_ref_file(path):
    try:
        with open(path, "rb") as f:
            return f.read().strip().decode()
    except (FileNotFoundError, NotADirectoryError, IsADirectoryError):
        return None


def read_packed_refs(gitdir):
    out = {}
    try:
        with open(os.path.join(gitdir, "packed-refs"), "rb") as f:
            for line in f:
                if line.startswith(b"#") or line.startswith(b"^") or not line.strip():
                    continue
                sha, name = line.strip().split(b" ", 1)
                out[name.decode()] = sha.decode()
    except FileNotFoundError:
        return None
    return out


def project(root, side, refs=("a", "b")):
    """The abstract state (the variables of Accel.tla) of the real repository."""
    g = R(root)
    o2g = side.o2g()
    c2i = {d["c"]: i for i, d in side.ids.items()}
    od = os.path.join(g, "objects")
    loose_objs = []
    for d2 in os.listdir(od):
        if len(d2) == 2:
            for rest in os.listdir(os.path.join(od, d2)):
                if len(rest) == 38:
                    loose_objs.append(d2 + rest)
    st = {"n": side.n, "par": {i: sorted(side.par[i]) for i in side.par}}
    st["loose"] = side.groups_of(loose_objs, "loose objects")
    pd = os.path.join(od, "pack")
    names = os.listdir(pd)
    packs = {}
    for fn in names:
        if fn.endswith(".pack") and fn[:-5] + ".idx" in names:
            groups = side.groups_of(idx_names(os.path.join(pd, fn[:-5] + ".idx")), fn)
            if fn[:-5] not in side.packs:
                side.learn_packs(g)
            packs[fn[:-5]] = [groups, side.packs[fn[:-5]][1]]
    st["packs"] = sorted(packs.values())
    st["pack_names"] = {k: v for k, v in packs.items()}
    pr = read_packed_refs(g) or {}
    st["lref"], st["pref"] = {}, {}
    for r in refs:
        v = read_ref_file(os.path.join(g, "refs", "heads", r))
        st["lref"][r] = c2i.get(v, -1) if v else 0
        v = pr.get("refs/heads/" + r)
        st["pref"][r] = c2i.get(v, -1) if v else 0
    st["graft"] = [{"has": False, "p": []} for _ in range(side.n)]
    gp = os.path.join(g, "info", "grafts")
    if os.path.exists(gp):
        with open(gp) as f:
            for line in f:
                w_ = line.split()
                if w_:
                    if any(x not in c2i for x in w_):
                        raise Unprojectable("grafts file names an unknown commit")
                    st["graft"][c2i[w_[0]] - 1] = {"has": True, "p": sorted(c2i[x] for x in w_[1:])}
    st["shal"] = []
    sp = os.path.join(g, "shallow")
    if os.path.exists(sp):
        with open(sp) as f:
            st["shal"] = sorted(c2i[x] for x in f.read().split())
    cgp = os.path.join(od, "info", "commit-graph")
    if os.path.exists(cgp):
        ents = cg_commits(cgp)
        listed = {h for h, _, _ in ents}
        closed = True
        commits = []
        for h, ps, gen in ents:
            if h not in c2i:
                raise Unprojectable(f"commit-graph lists unknown commit {h}")
            i = c2i[h]
            commits.append(i)
            real_par = {side.ids[p]["c"] for p in side.par[i]}
            if None in ps or set(ps) != real_par:
                closed = False
        st["cg"] = {"on": True, "commits": sorted(commits), "closed": closed}
    else:
        st["cg"] = {"on": False, "commits": [], "closed": True}
    mp = os.path.join(pd, "multi-pack-index")
    if os.path.exists(mp):
        pn, ents = midx_packs(mp)
        ps = []
        for nm in pn:
            base = nm[:-4]
            if base not in side.packs:
                raise Unprojectable(f"midx names unknown pack {nm}")
            ps.append(side.packs[base])
        listed = side.groups_of([h for h, _ in ents], "midx objects")
        if sorted({i for p in ps for i in p[0]}) != listed:
            raise Unprojectable("midx object list differs from the packs it names")
        st["midx"] = {"on": True, "packs": sorted(ps)}
    else:
        st["midx"] = {"on": False, "packs": []}
    bm = []
    for fn in names:
        if fn.endswith(".bitmap"):
            base = fn[:-7]
            if base not in side.packs:
                raise Unprojectable(f"bitmap for unknown pack name {base}")
            h = bitmap_header(os.path.join(pd, fn))
            src = side.sums.get(h["checksum"])
            if src is None:
                raise Unprojectable(f"bitmap {fn} records unknown pack checksum")
            bm.append({"at": side.packs[base], "for": side.packs[src]})
    st["bmp"] = sorted(bm, key=lambda x: (x["at"], x["for"]))
    vs = {idx_version(os.path.join(pd, b + ".idx")) for b in packs}
    st["idxv"] = 1 if vs == {1} else 2
    return st


# --------------------------------------------------------------------------- actions
class Actor:
    """Who performs an action: 'w' = the long-lived Repo object under observation, 'x' = somebody
    else (a fresh Repo object, closed afterwards = another dulwich process; C git where the label says so)."""

    def __init__(self, root, w):
        self.root, self.w = root, w

    def repo(self, who):
        from dulwich.repo import Repo
        if who == "w":
            return self.w, False
        return Repo(R(self.root)), True


def tips_of(side, model_tref):
    return sorted({side.cid(c) for c in model_tref.values() if c})


def apply(root, side, act, args, who, w, opts, tref):
    """Execute one action of Accel.tla.  act/args as in the edge label; who in {'w','x'}; w = long-lived
    Repo; opts = small integer choosing among equivalent ways; tref = model ref values before the step."""
    from dulwich.repo import Repo
    g = R(root)

    def repo():
        return (w, False) if who == "w" else (Repo(g), True)

    def done(r, close):
        if close:
            r.close()

    if act == "Commit":
        P, rname, how = args
        i = side.n + 1
        P = sorted(P)
        c, t, b = make_group(i, [side.cid(p) for p in P])
        side.ids[i] = {"c": c.id.decode(), "t": t.id.decode(), "b": b.id.decode()}
        side.par[i] = P
        side._o2g = None
        r, cl = repo()
        if how == "loose":
            for o in (b, t, c):
                r.object_store.add_object(o)
        else:
            r.object_store.add_objects([(o, None) for o in (b, t, c)])
        if who == "x" and opts % 2:
            done(r, cl)
            git(g, "update-ref", refname(rname).decode(), c.id.decode())
        else:
            r.refs[refname(rname)] = c.id
            done(r, cl)
    elif act == "SetRef":
        rname, c = args
        if who == "x" and opts % 2:
            git(g, "update-ref", refname(rname).decode(), side.ids[c]["c"])
        else:
            r, cl = repo()
            r.refs[refname(rname)] = side.cid(c)
            done(r, cl)
    elif act == "DeleteRef":
        rname, = args
        if who == "x" and opts % 2:
            git(g, "update-ref", "-d", refname(rname).decode())
        else:
            r, cl = repo()
            del r.refs[refname(rname)]
            done(r, cl)
    elif act == "PackRefs":
        wr, = args
        if wr == "git":
            git(g, "pack-refs", "--all")
        else:
            r, cl = repo()
            r.refs.pack_refs(all=True)
            done(r, cl)
    elif act == "PackLoose":
        r, cl = repo()
        r.object_store.pack_loose_objects()
        done(r, cl)
    elif act == "RepackD":
        r, cl = repo()
        r.object_store.repack()
        done(r, cl)
    elif act == "Gc":
        from dulwich.gc import garbage_collect
        r, cl = repo()
        garbage_collect(r, grace_period=None)
        done(r, cl)
    elif act == "RepackG":
        b, = args
        cfg = ["-c", "repack.writeBitmaps=false"]
        if b:
            cfg = ["-c", "repack.writeBitmaps=true",
                   "-c", f"pack.writeBitmapHashCache={'true' if opts & 1 else 'false'}",
                   "-c", f"pack.writeBitmapLookupTable={'true' if opts & 2 else 'false'}"]
        git(g, *cfg, "repack", "-a", "-d", "-q", *(["-b"] if b else []))
    elif act == "BuildCg":
        wr, mode = args
        if wr == "git":
            git(g, "commit-graph", "write", "--reachable", "--no-progress")
        else:
            r, cl = repo()
            if mode == "all":
                r.object_store.write_commit_graph()
            elif mode == "reach":
                r.object_store.write_commit_graph(refs=tips_of(side, tref))
            else:
                r.object_store.write_commit_graph(refs=tips_of(side, tref), reachable=False)
            done(r, cl)
    elif act == "BuildMidx":
        wr, = args
        if wr == "git":
            git(g, "multi-pack-index", "write", "--no-progress")
        else:
            r, cl = repo()
            r.object_store.write_midx()
            done(r, cl)
    elif act == "BuildBmp":
        r, cl = repo()
        refs = {refname(k): side.cid(v) for k, v in tref.items() if v}
        if opts % 4 == 0:
            r.object_store.generate_pack_bitmaps(refs)
        else:
            # the same as Pack.ensure_bitmap, with the optional sections chosen by opts
            from dulwich.bitmap import generate_bitmap, write_bitmap
            for p in r.object_store.packs:
                try:
                    if p.bitmap is not None:
                        continue
                except FileNotFoundError:
                    pass
                bm = generate_bitmap(p.index, r.object_store, refs, p.get_stored_checksum(),
                                     include_hash_cache=bool(opts & 1), include_lookup_table=bool(opts & 2))
                write_bitmap(p._bitmap_path, bm)
        done(r, cl)
    elif act == "Remove":
        k, = args
        pd = os.path.join(g, "objects", "pack")
        if k == "cg":
            os.remove(os.path.join(g, "objects", "info", "commit-graph"))
        elif k == "midx":
            os.remove(os.path.join(pd, "multi-pack-index"))
        else:
            for fn in os.listdir(pd):
                if fn.endswith(".bitmap") or fn.endswith(".rev"):
                    os.remove(os.path.join(pd, fn))
    elif act in ("CopyMidx", "CopyCg"):
        # the other repository: a fresh, fully packed clone holding every commit ever created here
        og = O(root)
        shutil.rmtree(og, ignore_errors=True)
        os.makedirs(og)
        o = Repo.init_bare(og)
        for i in sorted(side.ids):
            c, t, b = make_group(i, [side.cid(p) for p in side.par[i]])
            for x in (b, t, c):
                o.object_store.add_object(x)
            o.refs[b"refs/keep/%d" % i] = c.id
        if (args[0] == "g") if act == "CopyMidx" else opts % 2:
            o.close()
            git(og, "-c", "repack.writeBitmaps=false", "repack", "-a", "-d", "-q")
        else:
            o.object_store.repack()
            o.close()
        side.learn_packs(og)
        if act == "CopyMidx":
            if opts & 2:
                git(og, "multi-pack-index", "write", "--no-progress")
            else:
                o = Repo(og)
                o.object_store.write_midx()
                o.close()
            _install(os.path.join(og, "objects", "pack", "multi-pack-index"),
                     os.path.join(g, "objects", "pack", "multi-pack-index"))
        else:
            if opts & 2:
                git(og, "commit-graph", "write", "--reachable", "--no-progress")
            else:
                o = Repo(og)
                o.object_store.write_commit_graph()
                o.close()
            os.makedirs(os.path.join(g, "objects", "info"), exist_ok=True)
            _install(os.path.join(og, "objects", "info", "commit-graph"),
                     os.path.join(g, "objects", "info", "commit-graph"))
        shutil.rmtree(og, ignore_errors=True)
    elif act == "CopyBmp":
        p, q = args
        inv = {pkey(v): k for k, v in project_pack_names(root, side).items()}
        names_all = {}
        for k, v in side.packs.items():
            names_all.setdefault(pkey(v), []).append(k)
        pd = os.path.join(g, "objects", "pack")
        src = [k for k in names_all[pkey(p)] if os.path.exists(os.path.join(pd, k + ".bitmap"))]
        _install(os.path.join(pd, src[0] + ".bitmap"), os.path.join(pd, inv[pkey(q)] + ".bitmap"))
    elif act == "SetGraft":
        c, P = args
        os.makedirs(os.path.join(g, "info"), exist_ok=True)
        with open(os.path.join(g, "info", "grafts"), "a") as f:       # (primary data, written by hand as users do)
            f.write(" ".join([side.ids[c]["c"]] + [side.ids[p]["c"] for p in sorted(P)]) + "\n")
    elif act == "SetShallow":
        c, = args
        r, cl = repo()
        r.update_shallow([side.cid(c)], None)
        done(r, cl)
    elif act == "Reindex":
        wr, v = args
        pd = os.path.join(g, "objects", "pack")
        for fn in sorted(os.listdir(pd)):
            if not fn.endswith(".pack"):
                continue
            base = os.path.join(pd, fn[:-5])
            if wr == "git":
                os.chmod(base + ".idx", 0o644)
                os.remove(base + ".idx")
                git(g, "index-pack", f"--index-version={v}", "-o", base + ".idx", base + ".pack")
            else:
                from dulwich.object_format import DEFAULT_OBJECT_FORMAT
                from dulwich.pack import PackData, write_pack_index
                pdta = PackData(base + ".pack", object_format=DEFAULT_OBJECT_FORMAT)
                ents = pdta.sorted_entries()
                cs = pdta.get_stored_checksum()
                pdta.close()
                os.chmod(base + ".idx", 0o644)
                with open(base + ".idx.tmp", "wb") as f:
                    write_pack_index(f, ents, cs, version=v)
                os.replace(base + ".idx.tmp", base + ".idx")
    else:
        raise ValueError(act)
    side.learn_packs(g)
    side.save()


def pkey(p):
    """hashable form of a pack [groups, naming]"""
    return (tuple(sorted(p[0])), p[1])


def _install(src, dst):
    """Put a copy of src at dst the way every real writer does: new file, renamed into place."""
    tmp = dst + ".tmp-copy"
    shutil.copyfile(src, tmp)
    os.replace(tmp, dst)


def project_pack_names(root, side):
    pd = os.path.join(R(root), "objects", "pack")
    names = os.listdir(pd)
    return {fn[:-5]: side.packs[fn[:-5]] for fn in names if fn.endswith(".pack") and fn[:-5] + ".idx" in names}


# --------------------------------------------------------------------------- the "without" variant
ACC_FILES = ("commit-graph", "multi-pack-index")


def strip(root, kinds=("cg", "midx", "bmp", "pref", "idx")):
    """Remove acceleration data in place: delete commit-graph / midx / bitmaps, explode packed-refs
    into loose refs (own parser and writer), regenerate every pack index as version 2 with C git."""
    g = R(root)
    pd = os.path.join(g, "objects", "pack")
    if "cg" in kinds:
        for p in (os.path.join(g, "objects", "info", "commit-graph"),):
            if os.path.exists(p):
                os.remove(p)
        shutil.rmtree(os.path.join(g, "objects", "info", "commit-graphs"), ignore_errors=True)
    if "midx" in kinds:
        p = os.path.join(pd, "multi-pack-index")
        if os.path.exists(p):
            os.remove(p)
    if "bmp" in kinds:
        for fn in os.listdir(pd):
            if fn.endswith(".bitmap") or fn.endswith(".rev"):
                os.remove(os.path.join(pd, fn))
    if "pref" in kinds:
        pr = read_packed_refs(g)
        if pr is not None:
            for name, sha in pr.items():
                p = os.path.join(g, name)
                if not os.path.exists(p):
                    os.makedirs(os.path.dirname(p), exist_ok=True)
                    with open(p, "w") as f:
                        f.write(sha + "\n")
            os.remove(os.path.join(g, "packed-refs"))
    if "idx" in kinds:
        for fn in os.listdir(pd):
            if fn.endswith(".idx") and idx_version(os.path.join(pd, fn)) != 2:
                base = os.path.join(pd, fn[:-4])
                os.chmod(base + ".idx", 0o644)
                os.remove(base + ".idx")
                git(g, "index-pack", "--index-version=2", "-o", base + ".idx", base + ".pack")


# --------------------------------------------------------------------------- query battery
def _exc(e):
    if isinstance(e, KeyError) or type(e).__name__ in ("MissingCommitError",):      # "no such commit"
        return "KeyError"
    return "exc:" + type(e).__name__


def heads_sets(n):
    out = [(i,) for i in range(1, n + 1)]
    out += [(i, j) for i in range(1, n + 1) for j in range(i + 1, n + 1)]
    return out


def excl_sets(n):
    return [()] + [(i,) for i in range(1, n + 1)]


def key(t):
    return ",".join(map(str, t))


def battery(repo, side, refs=("a", "b"), light=False):
    """Every query of the property through the public API of one Repo object.  Answers are expressed
    in the model's terms (groups, kinds) so that runs on different directories compare by equality."""
    from dulwich.graph import find_merge_base
    from dulwich.object_store import MissingObjectFinder, _collect_ancestors, find_shallow, get_depth
    st = repo.object_store
    o2g = side.o2g()
    n = side.n
    A = {"has": {}, "get": {}, "par": {}, "anc": {}, "mb": {}, "rc": {}, "ro": {}, "miss": {}, "depth": {},
         "cut": {}, "miss_s": {}, "fshallow": {}, "depth_m": {}, "walk": {}}

    def objs(shas):
        out = []
        for s in shas:
            h = s.decode() if isinstance(s, bytes) else s
            g = o2g.get(h)
            out.append(f"{g[0]}{g[1]}" if g else "?" + h[:8])
        return sorted(out)

    def commits(shas):
        out = []
        for s in shas:
            g = o2g.get(s.decode())
            out.append(g[0] if g and g[1] == "c" else "?" + s.decode()[:8])
        return sorted(out, key=str)

    for i in range(1, n + 1):
        for k in KINDS:
            h = side.ids[i][k].encode()
            try:
                A["has"][f"{i}{k}"] = bool(h in st)
            except Exception as e:
                A["has"][f"{i}{k}"] = _exc(e)
            try:
                o = st[h]
                raw = o.as_raw_string()
                ok = o.id == h and hashlib.sha1(o.type_name + b" %d\0" % len(raw) + raw).hexdigest().encode() == h
                A["get"][f"{i}{k}"] = "ok" if ok else "corrupt"
            except Exception as e:
                A["get"][f"{i}{k}"] = _exc(e)
        c = side.cid(i)
        try:
            A["par"][str(i)] = commits(repo.parents_provider().get_parents(c))
        except Exception as e:
            A["par"][str(i)] = _exc(e)
        try:
            A["walk"][str(i)] = commits(e.commit.id for e in repo.get_walker(include=[c]))
        except Exception as e:
            A["walk"][str(i)] = _exc(e)
        try:
            A["depth"][str(i)] = get_depth(st, c)
        except Exception as e:
            A["depth"][str(i)] = _exc(e)
    # shallow boundaries (fetch --depth): W = one wanted commit, X = common / haves, S = one boundary commit
    for wi in (range(max(1, n - 2), n + 1) if light else range(1, n + 1)):
        wc = side.cid(wi)
        for d in (1, 2):
            try:
                sh, nsh = find_shallow(st, [wc], d)
                A["fshallow"][f"{wi}|{d}"] = [commits(sh), commits(nsh)]
            except Exception as e:
                A["fshallow"][f"{wi}|{d}"] = _exc(e)
        try:
            A["depth_m"][str(wi)] = get_depth(st, wc, max_depth=2)
        except Exception as e:
            A["depth_m"][str(wi)] = _exc(e)
        for si in range(1, n + 1):
            sset = frozenset([side.cid(si)])
            for X in excl_sets(n):
                if light and X not in ((), (1,), (si,)):
                    continue
                xs = [side.cid(i) for i in X]
                k3 = f"{wi}|{key(X)}|{si}"
                try:
                    A["cut"][k3] = commits(_collect_ancestors(st, [wc], frozenset(xs), sset)[0])
                except Exception as e:
                    A["cut"][k3] = _exc(e)
                if light and X and X != (si,):        # the client has nothing, or has the boundary commit
                    continue
                try:
                    A["miss_s"][k3] = objs(s for s, _ in MissingObjectFinder(st, haves=xs, wants=[wc], shallow=set(sset)))
                except Exception as e:
                    A["miss_s"][k3] = _exc(e)
    prov = st.get_reachability_provider()
    A["provider"] = type(prov).__name__
    for H in heads_sets(n):
        hs = [side.cid(i) for i in H]
        try:
            A["anc"][key(H)] = commits(_collect_ancestors(st, hs)[0])
        except Exception as e:
            A["anc"][key(H)] = _exc(e)
        if len(H) == 2:
            try:
                A["mb"][key(H)] = commits(find_merge_base(repo, hs))
            except Exception as e:
                A["mb"][key(H)] = _exc(e)
        for X in excl_sets(n):
            if light and X and (X[0] in H or len(H) > 1):
                continue
            xs = [side.cid(i) for i in X]
            k2 = key(H) + "|" + key(X)
            try:
                A["rc"][k2] = commits(prov.get_reachable_commits(hs, xs or None))
            except Exception as e:
                A["rc"][k2] = _exc(e)
            try:
                A["ro"][k2] = objs(prov.get_reachable_objects(hs, xs or None))
            except Exception as e:
                A["ro"][k2] = _exc(e)
            try:
                A["miss"][k2] = objs(s for s, _ in MissingObjectFinder(st, haves=xs, wants=hs))
            except Exception as e:
                A["miss"][k2] = _exc(e)
    try:
        d = repo.refs.as_dict()
        c2i = {side.ids[i]["c"]: i for i in side.ids}
        A["refs"] = {k.decode(): c2i.get(v.decode(), "?" + v.decode()[:8]) for k, v in sorted(d.items())}
    except Exception as e:
        A["refs"] = _exc(e)
    A["ref"] = {}
    for r in refs:
        try:
            A["ref"][r] = {side.ids[i]["c"]: i for i in side.ids}.get(repo.refs[refname(r)].decode(), "?")
        except Exception as e:
            A["ref"][r] = _exc(e)
    try:
        A["all"] = objs(set(st))
    except Exception as e:
        A["all"] = _exc(e)
    return A


def warm(repo, side, refs=True):
    """Touch every cache a long-lived process would hold: pack list, midx, commit-graph, packed-refs."""
    st = repo.object_store
    for i in range(1, side.n + 1):
        try:
            side.cid(i) in st
            st[side.cid(i)]
            repo.parents_provider().get_parents(side.cid(i))
        except Exception:
            pass
    try:
        if refs:
            repo.refs.as_dict()
        st.get_reachability_provider()
    except Exception:
        pass


def lowlevel(repo, side, model, root):
    """StaleRejected observed on the real objects: which accelerator entries the code accepts, and what an
    accepted entry says.  Returns a list of (site, clause, detail)."""
    out = []
    st = repo.object_store
    o2g = side.o2g()
    if not model["bmp"]:
        return out
    from dulwich.bitmap import bitmap_to_object_shas
    names = {pkey(v): k for k, v in project_pack_names(root, side).items()}
    par = model["par"]

    def closure(i):
        seen, todo = set(), [i]
        while todo:
            c = todo.pop()
            if c not in seen:
                seen.add(c)
                todo += par[c - 1]
        return seen
    for b in model["bmp"]:
        at = pkey(b["at"])
        if at not in names:
            continue
        for p in st.packs:
            if os.path.basename(p._basename) != names[at]:
                continue
            try:
                bm = p.bitmap
            except FileNotFoundError:
                bm = None
            except Exception as e:
                out.append(("dulwich/pack.py:Pack.bitmap", "BitmapUnreadable", f"{type(e).__name__}"))
                continue
            if bm is None:
                continue
            if bm.entries and not any(bm.has_commit(side.cid(i)) for i in side.ids):
                out.append(("dulwich/bitmap.py:read_bitmap_file", "BitmapDead",
                            "a bitmap read from disk is never consulted: its entries are keyed by binary object id, "
                            "find_commit_bitmaps/has_commit look them up by hex id (only bitmaps generated by the same "
                            "open object store are used)"))
            # a file sitting next to a pack it was not built for must not be accepted
            if b["at"] != b["for"]:
                out.append(("dulwich/pack.py:Pack.bitmap", "StaleRejected", "bitmap built for another pack accepted"))
                continue
            # an accepted bitmap: every entry must decode to the closure of its commit within the pack
            inpack = set(b["at"][0])
            for key in list(bm.entries):
                hexkey = key.hex() if len(key) == 20 else key.decode()
                g = o2g.get(hexkey)
                try:
                    dec = bitmap_to_object_shas(bm.get_bitmap(key), p.index, None)
                except Exception as e:
                    out.append(("dulwich/bitmap.py:read_bitmap_file", "BitmapDecode", f"entry raises {type(e).__name__}"))
                    break
                got = sorted(f"{o2g[h.decode()][0]}{o2g[h.decode()][1]}" if h.decode() in o2g else "?" for h in dec)
                if g is None or g[1] != "c":
                    out.append(("dulwich/bitmap.py:read_bitmap_file", "BitmapDecode", f"entry for a non-commit {hexkey[:8]}"))
                    break
                want = sorted(f"{i}{k}" for i in closure(g[0]) & inpack for k in KINDS)
                if got != want:
                    out.append(("dulwich/bitmap.py:read_bitmap_file", "BitmapDecode",
                                f"accepted bitmap entry of commit {g[0]} decodes to {got}, its closure in the pack is {want}"))
                    break
    return out

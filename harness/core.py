"""Check context: tiers, seeds, scratch space, violation reporting, known findings, evidence."""
from __future__ import annotations

import fnmatch
import json
import os
import random
import shutil
import subprocess
import sys
import time

VERIF = os.path.dirname(os.path.dirname(os.path.abspath(__file__)))
REPO = os.environ.get("VERIF_REPO", "/repo")
KNOWN = os.path.join(VERIF, "known_findings.jsonl")
GUARD = "DULWICH_VERIF"


class MachineryError(Exception):
    """Something in the verification machinery itself failed (exit 2, never a VIOLATION)."""


def load_known():
    out = []
    import glob
    # known_findings.d/*.jsonl: staging area used while a check is being built; entries are
    # merged into known_findings.jsonl when the check is registered
    for path in [KNOWN] + sorted(glob.glob(os.path.join(VERIF, "known_findings.d", "*.jsonl"))):
        if not os.path.exists(path):
            continue
        with open(path) as f:
            for line in f:
                line = line.strip()
                if line and not line.startswith("#"):
                    out.append(json.loads(line))
    return out


class Ctx:
    def __init__(self, pid: str, tier: str = "quick", seed: int | None = None, replay: str | None = None):
        self.pid = pid
        self.tier = tier
        self.seed = int(os.environ.get("VERIF_SEED", "0")) if seed is None else seed
        self.replay = replay
        self.rng = random.Random(self.seed)
        self.t0 = time.time()
        base = "/dev/shm" if os.path.isdir("/dev/shm") and os.access("/dev/shm", os.W_OK) else os.path.join(VERIF, "out", "tmp")
        self.scratch = os.path.join(base, f"verif-{pid}-{os.getpid()}")
        shutil.rmtree(self.scratch, ignore_errors=True)
        os.makedirs(self.scratch, exist_ok=True)
        self.replay_dir = (os.path.join(VERIF, "out", "replay", pid) if os.path.realpath(REPO) == "/repo"
                           else os.path.join(VERIF, "out", "replay-alt", os.path.basename(os.path.realpath(REPO)), pid))
        os.makedirs(self.replay_dir, exist_ok=True)
        self.known = [k for k in load_known() if k.get("property") == pid]
        self.violations = []      # unlisted
        self.known_hits = {}      # signature -> count
        self.drift = []           # SPEC-DRIFT messages
        self.cov = {
            "states": 0, "transitions": 0, "traces_validated_against_impl": 0,
            "evaluations": 0, "distinct_nontrivial": 0, "rule": "", "samples": [],
            "tlc_runs": [], "drift": 0, "known_findings": [],
        }
        self.assumptions = []
        self._sigs_seen = set()
        self._nontrivial = set()
        self.max_report = 10

    # ------------------------------------------------------------------ time / tiers
    @property
    def quick(self):
        return self.tier == "quick"

    def elapsed(self):
        return time.time() - self.t0

    def pick(self, quick, thorough):
        return quick if self.quick else thorough

    def tmpdir(self, name="d"):
        d = os.path.join(self.scratch, f"{name}-{time.time_ns()}")
        os.makedirs(d)
        return d

    def log(self, *a):
        print(f"[{self.pid} {self.elapsed():6.1f}s]", *a, flush=True)

    # ------------------------------------------------------------------ TLC bookkeeping
    def add_tlc(self, name: str, res, *, require_ok=True, expect_violated=()):
        """Record a TLC run in the evidence.  A model-level failure that is not expected is a
        machinery failure (the model is part of the machinery), not a property violation of
        the code: property violations are only ever raised from the real code's behaviour."""
        self.cov["states"] += res.distinct
        self.cov["transitions"] += res.generated
        self.cov["tlc_runs"].append({
            "name": name, "distinct": res.distinct, "generated": res.generated, "depth": res.depth,
            "wall_s": round(res.wall_s, 2), "ok": res.ok, "violated": res.violated,
            "coverage": {k: list(v) for k, v in res.coverage.items()} if res.coverage else None,
        })
        if res.timed_out and require_ok:
            raise MachineryError(f"TLC run {name} timed out\n{res.output[-2000:]}")
        if require_ok and not res.ok and set(res.violated) != set(expect_violated):
            raise MachineryError(f"TLC run {name} failed: violated={res.violated}\n{res.output[-3000:]}")
        return res

    # ------------------------------------------------------------------ cases
    def count(self, n=1):
        self.cov["evaluations"] += n

    def nontrivial(self, key):
        self._nontrivial.add(key if isinstance(key, (str, int, tuple)) else json.dumps(key, sort_keys=True, default=str))

    def validated(self, n=1):
        self.cov["traces_validated_against_impl"] += n

    def sample(self, obj, limit=5):
        if len(self.cov["samples"]) < limit:
            self.cov["samples"].append(obj)

    # ------------------------------------------------------------------ verdicts
    def drift_event(self, msg: str):
        self.cov["drift"] += 1
        if len(self.drift) < 20:
            self.drift.append(msg)
            print(f"SPEC-DRIFT property={self.pid} {msg}", flush=True)

    def violation(self, sig: str, what: str, replay_obj: dict):
        """Report a property violation observed on the real code.

        sig: canonical, stable signature of the *minimal* failing case (site + scenario +
        failing clause).  Matched against known_findings.jsonl (open entries only)."""
        for k in self.known:
            if k.get("status", "open") != "open":
                continue
            pat = k.get("signature", "")
            if sig == pat or fnmatch.fnmatchcase(sig, pat):
                first = pat not in self.known_hits
                self.known_hits[pat] = self.known_hits.get(pat, 0) + 1
                if first:
                    print(f"KNOWN-FINDING: property={self.pid} {k.get('what', pat)} [signature={pat}]", flush=True)
                    self.cov["known_findings"].append({"signature": pat, "what": k.get("what", "")})
                return False
        if sig in self._sigs_seen:
            return True
        self._sigs_seen.add(sig)
        path = os.path.join(self.replay_dir, f"{len(self._sigs_seen):03d}.json")
        obj = {"property": self.pid, "signature": sig, "what": what, "seed": self.seed, "tier": self.tier}
        obj.update(replay_obj or {})
        with open(path, "w") as f:
            json.dump(obj, f, indent=1, default=_json_default)
        self.violations.append({"signature": sig, "what": what, "replay": path})
        if len(self.violations) <= self.max_report:
            print(f"VIOLATION property={self.pid} replay={path}", flush=True)
            print(f"  signature: {sig}\n  what: {what}", flush=True)
        return True

    # ------------------------------------------------------------------ evidence
    def finish(self, level="model_checking", exhaustive=None, extra=None) -> int:
        cov = self.cov
        cov["distinct_nontrivial"] = len(self._nontrivial)
        if exhaustive is not None:
            cov["exhaustive"] = bool(exhaustive)
        if extra:
            cov.update(extra)
        if self.drift:
            self.assumptions.append(f"model-level exhaustiveness not transferred: {cov['drift']} drift events")
            cov["drift_samples"] = self.drift[:5]
        cov["unlisted_violations"] = [v["signature"] for v in self.violations][:50]
        if not cov["samples"]:
            cov["samples"] = ["(no sample recorded)"]
        ev = {
            "property_id": self.pid, "tier": self.tier, "seed": self.seed, "level": level,
            "coverage": cov, "assumptions": self.assumptions,
            "wall_s": round(self.elapsed(), 2), "violations": len(self.violations),
        }
        # evidence describes /repo only: a run against a scratch worktree (VERIF_REPO) writes elsewhere
        evdir = os.environ.get("VERIF_EVIDENCE_DIR") or (
            os.path.join(VERIF, "evidence") if os.path.realpath(REPO) == "/repo"
            else os.path.join(VERIF, "out", "evidence-alt", os.path.basename(os.path.realpath(REPO))))
        os.makedirs(evdir, exist_ok=True)
        path = os.path.join(evdir, f"{self.pid}.json")
        tmp = path + f".tmp{os.getpid()}"
        with open(tmp, "w") as f:
            json.dump(ev, f, indent=1, default=_json_default)
            f.write("\n")
        os.replace(tmp, path)
        validate_evidence(path)
        shutil.rmtree(self.scratch, ignore_errors=True)
        n = len(self.violations)
        self.log(f"done tier={self.tier} states={cov['states']} transitions={cov['transitions']} "
                 f"validated={cov['traces_validated_against_impl']} evaluations={cov['evaluations']} "
                 f"nontrivial={cov['distinct_nontrivial']} known={len(self.known_hits)} violations={n}")
        return 1 if n else 0


def _json_default(o):
    if isinstance(o, bytes):
        return {"hex": o.hex()}
    if isinstance(o, (set, frozenset)):
        return sorted(o, key=repr)
    return repr(o)


def validate_evidence(path):
    schema = "/root/.vp/EVIDENCE.schema.json"
    if not os.path.exists(schema) or not shutil.which("python3-vt"):
        return
    code = ("import json,sys,jsonschema;"
            "jsonschema.validate(json.load(open(sys.argv[1])), json.load(open(sys.argv[2])))")
    p = subprocess.run(["python3-vt", "-c", code, path, schema], capture_output=True, text=True)
    if p.returncode != 0:
        raise MachineryError(f"evidence file {path} does not validate: {p.stderr[-1500:]}")


def git_available():
    return shutil.which("git") is not None


def hexs(b: bytes) -> str:
    return b.hex()

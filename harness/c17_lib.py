"""C17 helpers that do not import dulwich: graph -> jobs, comparison of real observations with the
states of WorkTreeConf.tla, property clauses evaluated on the real directory, worker entry point."""
from __future__ import annotations

import os
import re
import shutil

from . import tlaval

SITE = {"CL": "dulwich/index.py:build_index_from_tree", "RI": "dulwich/index.py:build_index_from_tree",
        "CO": "dulwich/index.py:update_working_tree", "COF": "dulwich/index.py:update_working_tree",
        "RH": "dulwich/index.py:update_working_tree", "RM": "dulwich/porcelain/__init__.py:reset", "ST": "dulwich/stash.py:Stash.pop",
        "AP": "dulwich/patch.py:apply_patches", "MV": "dulwich/patch.py:_apply_rename_or_copy",
        "SU": "dulwich/porcelain/submodule.py:submodule_update", "STL": "dulwich/stash.py:Stash.pop"}
ENTRY = {"CL": "porcelain.clone", "RI": "WorkTree.reset_index", "CO": "porcelain.checkout",
         "COF": "porcelain.checkout(force=True)", "RH": "porcelain.reset(mode='hard')", "RM": "porcelain.reset(mode='mixed')",
         "ST": "porcelain.stash_pop", "AP": "porcelain.apply_patch",
         "MV": "porcelain.apply_patch (rename/copy patch)",
         "SU": "porcelain.submodule_update(init=True)", "STL": "Stash.pop on a long-lived Stash object"}


TOKENS = {"{ZWNJ}": b"\xe2\x80\x8c", "{FF}": b"\xff\xfe"}
CHAR_TOKENS = {"ZWNJ": b"\xe2\x80\x8c", "FF": b"\xff\xfe"}


def comp_bytes(tok: str) -> bytes:
    b = tok.encode("utf-8")
    for k, v in TOKENS.items():
        b = b.replace(k.encode(), v)
    return b


def comp_token(b: bytes) -> str:
    for k, v in TOKENS.items():
        b = b.replace(v, k.encode())
    return b.decode("utf-8", "backslashreplace")


def check_tables(rows):
    """rows: (token, chars, rank).  The specification's tables must agree with the real bytes."""
    from .core import MachineryError
    for tok, chars, _ in rows:
        real = b"".join(CHAR_TOKENS.get(c, c.encode()) for c in chars)
        if real != comp_bytes(tok):
            raise MachineryError(f"Chars[{tok!r}] = {chars} does not spell {comp_bytes(tok)!r}")
    by_rank = [t for t, _, _ in sorted(rows, key=lambda r: r[2])]
    by_bytes = sorted((t for t, _, _ in rows), key=comp_bytes)
    if by_rank != by_bytes or len({r[2] for r in rows}) != len(rows):
        raise MachineryError("Rank is not the byte order of the element names")


def raw_join(comps):
    return b"/".join(comp_bytes(c) for c in comps)


# --------------------------------------------------------------------------- TLA+ values -> plain python
def kind_py(k):
    return {"t": str(k["t"]), "c": str(k["c"]), "m": str(k["m"]), "to": [str(x) for x in k["to"]],
            "ch": tree_py(k["ch"])}


def tree_py(t):
    ents = [{"n": [str(x) for x in e["n"]], "k": kind_py(e["k"])} for e in t]
    return sorted(ents, key=lambda e: e["n"])


_LAB = re.compile(r"^(Step|Move)\((.*)\)$", re.S)


def parse_label(lab):
    """-> (op, tree, move): Step(op, T) -> (op, T, None); Move(m) -> ("MV", [], m)."""
    m = _LAB.match(lab.strip().replace('\\"', '"').replace("\\\\", "\\"))
    if m.group(1) == "Move":
        v = tlaval.parse(m.group(2))
        return "MV", [], {"mode": str(v["mode"]), "hunks": bool(v["hunks"]),
                          "src": [str(x) for x in v["src"]], "dst": [str(x) for x in v["dst"]]}
    v = tlaval.parse("<<" + m.group(2) + ">>")
    return str(v[0]), tree_py(v[1]), None


def node_norm(nd):
    t = str(nd["t"])
    if t == "d":
        return {"t": "d"}
    if t == "l":
        return {"t": "l", "to": [str(x) for x in nd["to"]]}
    if t in ("g", "gd", "gl"):
        return {"t": t}
    return {"t": "f", "c": str(nd["c"]), "x": bool(nd["x"])}


def state_norm(st):
    """Model state (parsed TLC state) -> comparable observation."""
    fs = st["fs"]
    fs = {} if isinstance(fs, tuple) else fs
    idx = st["idx"]
    idx = {} if isinstance(idx, tuple) else idx
    return {
        "res": str(st["out"]["res"]),
        "fs": {tuple(str(c) for c in p): node_norm(nd) for p, nd in fs.items() if len(p) > 0},
        "idx": {tuple(str(c) for c in p): node_norm(nd) for p, nd in idx.items()},
        "hasHead": bool(st["hasHead"]),
    }


def tree_show(t):
    """Compact rendering of a tree for messages: d/{x:A644} d->../od git~1:A644."""
    out = []
    for e in t:
        k = e["k"]
        nm = "/".join(e["n"]) if e["n"] != [""] else "''"
        if k["t"] == "f":
            out.append(f"{nm}:{k['c']}{k['m']}")
        elif k["t"] == "l":
            out.append(f"{nm}->{'/'.join(k['to'])}")
        elif k["t"] == "d":
            out.append(f"{nm}/{{{tree_show(k['ch'])}}}")
        else:
            out.append(f"{nm}:{k['t']}")
    return " ".join(out) if out else "(empty)"


def move_show(mv):
    return f"{'rename' if mv['mode'] == 'ren' else 'copy'}{'+hunk' if mv['hunks'] else ''} {'/'.join(mv['src'])} => {'/'.join(mv['dst'])}"


def seq_show(steps):
    return " ; ".join(f"MV[{move_show(s['mv'])}]" if s.get("mv") else f"{s['op']}[{tree_show(s['tree'])}]" for s in steps)


def flat_paths(t, prefix=()):
    out = []
    for e in t:
        if e["k"]["t"] == "d":
            # posixpath.join: an empty directory name adds nothing to the paths below it
            out += flat_paths(e["k"]["ch"], tuple(prefix) if e["n"] == [""] else tuple(prefix) + tuple(e["n"]))
        else:
            out.append((tuple(prefix) + tuple(e["n"]), e["k"]))
    return out


# --------------------------------------------------------------------------- graph -> jobs
def graph_jobs(g, prot_of, max_finals=24):
    """Cover every labelled transition.  Transitions are grouped by source state: a job reaches the
    source by its shortest prefix (deterministic steps preferred), saves the directory, and
    executes each outgoing transition from the restored directory.
    A job: {"prot", "prefix": [step], "finals": [step]},  step = {"op","tree","alts":[ids],"plan": id}."""
    groups = {}
    for s, es in g.edges.items():
        for lab, d in es:
            groups.setdefault((s, lab), []).append(d)
    parent = {}
    order = []
    for i in sorted(g.init):
        parent[i] = None
        order.append(i)
    for nd in order:
        outs = sorted(g.edges.get(nd, []), key=lambda e: (len(groups[(nd, e[0])]), e[0], e[1]))
        for lab, d in outs:
            if d not in parent:
                parent[d] = (nd, lab)
                order.append(d)
    labels = {}

    def step_of(a, lab, b):
        if lab not in labels:
            labels[lab] = parse_label(lab)
        op, tree, mv = labels[lab]
        return {"op": op, "tree": tree, "mv": mv, "alts": sorted(set(groups[(a, lab)])), "plan": b}

    def prefix_to(nd):
        out = []
        while parent[nd] is not None:
            p, lab = parent[nd]
            out.append(step_of(p, lab, nd))
            nd = p
        return out[::-1], nd

    by_src = {}
    for (s, lab), dsts in sorted(groups.items()):
        if s in parent:
            by_src.setdefault(s, []).append(step_of(s, lab, dsts[0]))
    jobs = []
    for s, finals in by_src.items():
        prefix, root = prefix_to(s)
        prot = prot_of(g.nodes[root])
        clones = [f for f in finals if f["op"] in ("CL", "SU")]
        rest = [f for f in finals if f["op"] not in ("CL", "SU")]
        for f in clones:                       # a clone needs a directory without a repository
            jobs.append({"prot": prot, "prefix": [], "finals": [f], "risky": False})
        fs = g.nodes[s]["fs"]
        risky = (not isinstance(fs, tuple)) and any(len(q) > 2 and q[:2] == ("p", "repo") and q[2] != ".git" and str(nd["t"]) == "l"
                                                    for q, nd in fs.items())
        # the long-lived Stash object does not survive save/restore of the directory: such behaviours are
        # executed from the start, one final step per job
        mf = 1 if any(s_["op"] == "STL" for s_ in prefix + rest) else max_finals
        for i in range(0, len(rest), mf):
            jobs.append({"prot": prot, "prefix": prefix, "finals": rest[i:i + mf], "risky": risky})
    return jobs, {"states": len(g.nodes), "transitions": sum(len(v) for v in groups.values()),
                  "labelled_transitions": len(groups), "reachable": len(parent)}


# --------------------------------------------------------------------------- worker side
def _diff_protected(before, after):
    out = []
    for rel in sorted(set(before) | set(after)):
        b, a = before.get(rel), after.get(rel)
        if b == a:
            continue
        if b is None:
            out.append(("created", rel, a[0]))
        elif a is None:
            out.append(("deleted", rel, b[0]))
        else:
            out.append(("modified", rel, a[0]))
    return out


def _links_in_worktree(case):
    out = []
    Wb = os.fsencode(case.W)
    for d, dirs, files in os.walk(Wb):
        if d == Wb and b".git" in dirs:
            dirs.remove(b".git")
        for nm in dirs + files:
            full = os.path.join(d, nm)
            if os.path.islink(full):
                out.append((full, os.path.realpath(full)))
    return out


def _classify(case, rel, links):
    full = os.path.realpath(os.path.join(os.fsencode(case.root), os.fsencode(rel)))
    loc = os.path.join(os.fsencode(case.root), os.fsencode(rel))
    gitdir = os.path.join(os.fsencode(case.W), b".git")
    zone = ".git" if (loc + b"/").startswith(gitdir + b"/") else "outside"
    mech = "direct"
    for _, real in links:
        if real == loc or real == full:
            mech = "final-symlink"
            break
        if (loc + b"/").startswith(real + b"/"):
            mech = "leading-symlink"
    return zone, mech


NT = {"f": "file", "d": "dir", "l": "link", "unlistable": "dir"}
_REF = {}


def _git_reference(scratch):
    """Protected part of a freshly initialised .git (relative paths), computed once per worker."""
    if not _REF:
        from . import c17_real
        root = os.path.join(scratch, f"ref{os.getpid()}")
        shutil.rmtree(root, ignore_errors=True)
        os.makedirs(root)
        r = c17_real.Repo.init(os.path.join(root, "w"), mkdir=True)
        r.close()
        g = os.path.join(root, "w", ".git")
        for d, dirs, files in os.walk(g):
            for nm in dirs + files:
                full = os.path.join(d, nm)
                rel = os.path.relpath(full, g)
                if rel.split("/")[0] in c17_real.GIT_LEGIT or rel == "config":
                    continue
                st = os.lstat(full)
                import stat as _s
                if _s.S_ISDIR(st.st_mode):
                    _REF[rel] = ("d", _s.S_IMODE(st.st_mode))
                else:
                    with open(full, "rb") as f:
                        data = f.read()
                    _REF[rel] = ("f", _s.S_IMODE(st.st_mode), data.hex() if len(data) < 64 else hash(data))
        shutil.rmtree(root, ignore_errors=True)
    return _REF


def _save(case, snap):
    """Copy of the case directory without the (append-only, content-addressed) object store."""
    shutil.rmtree(snap, ignore_errors=True)
    objs = os.path.join(case.W, ".git", "objects")
    shutil.copytree(case.root, snap, symlinks=True, ignore=lambda d, names: [n for n in names if os.path.join(d, n) == objs])


def _restore(case, snap):
    case.close()
    objs = os.path.join(case.W, ".git", "objects")
    keep = os.path.join(os.path.dirname(snap), "objs-" + os.path.basename(snap))
    os.rename(objs, keep)
    shutil.rmtree(case.root)
    shutil.copytree(snap, case.root, symlinks=True)
    os.rename(keep, objs)
    case.reopen()


def _exec_step(job, case, st, done_steps, res, head_tree):
    """Execute one step; append observations / violations / drift to res.
    Returns (stop reason or None, new head tree)."""
    states, unsafe, prot = job["states"], job["unsafe"], job["prot"]
    op, tree = st["op"], st["tree"]
    links = _links_in_worktree(case) if os.path.isdir(case.W) else []
    before = case.protected(include_config=(op not in ("CL", "SU")), stamp=True)
    outcome, exc = case.run(op, tree, st.get("mv"))
    after = case.protected(include_config=(op not in ("CL", "SU")))
    if op in ("CL", "SU"):
        # .git did not exist before: what a clone legitimately creates is what Repo.init creates
        ref = _git_reference(job["scratch"])
        for rel in [r for r in after if r not in before]:
            v = after[rel]
            if rel.endswith("/p/repo") or rel.endswith("/p/repo/.git"):
                before[rel] = v
            elif "/p/repo/.git/" in rel:
                rv = ref.get(rel.split("/p/repo/.git/", 1)[1])
                if rv is not None and rv[:3] == v[:3]:
                    before[rel] = v
        if case.repo is not None and case.cfg0 is None:
            case._post_init()      # settings + .git canaries, after the observation
    res["executed"] += 1
    links += _links_in_worktree(case)
    fs = case.project()
    idx = case.index_paths() if case.repo is not None else {}
    steps = done_steps + [st]
    i = len(done_steps)
    obs = {"op": op, "tree": tree, "mv": st.get("mv"), "res": outcome, "exc": exc,
           "fs": [[list(p), nd] for p, nd in sorted(fs.items())],
           "idx": None if idx is None else [[list(p), nd] for p, nd in sorted(idx.items())]}
    seqtxt = seq_show(steps)
    hist = {"prot": prot, "steps": [{"op": s["op"], "tree": s["tree"], "mv": s.get("mv")} for s in steps]}
    viol = []
    # ---- property clause Confined, on the real directory
    for verb, rel, nt in _diff_protected(before, after):
        zone, mech = _classify(case, rel, links)
        viol.append({"sig": f"{SITE[op]}|Confined|{verb} {zone} {NT.get(nt, nt)} via {mech}", "step": i,
                     "what": f"{ENTRY[op]} {verb} {rel.split('/top/', 1)[-1]} "
                             f"({'inside .git' if zone == '.git' else 'outside the work tree'}) in: {seqtxt} -> {outcome} {exc[:120]}"})
    # ---- property clause UnsafeRefused, on the real directory
    for p in fs:
        if p[:2] == ("p", "repo") and len(p) > 2 and p[2] != ".git":
            for j, c in enumerate(p[2:]):
                if c == ".git" and j == len(p) - 3 and j > 0 and fs[p].get("c") == "M":
                    continue        # the .git file of a submodule placeholder
                if unsafe.get((c, prot["ntfs"], prot["hfs"]), c not in job["known_comps"]):
                    loc = os.path.join(os.fsencode(case.W), *[comp_bytes(x) for x in p[2:2 + j + 1]])
                    mech = "direct"
                    for _, real in links:
                        if real == loc:
                            mech = "final-symlink"
                            break
                        if (loc + b"/").startswith(real + b"/"):
                            mech = "leading-symlink"
                    viol.append({"sig": f"{SITE[op]}|UnsafeRefused|element {c!r} materialised ntfs={int(prot['ntfs'])} hfs={int(prot['hfs'])} via {mech}",
                                 "step": i, "what": f"{ENTRY[op]} materialised {'/'.join(p[2:])!r} in: {seqtxt}"})
                    break
    if outcome == "ok":
        ents = flat_paths(tree)
        if op == "AP":
            ents = [e for e in ents if e[1]["t"] == "f"]
        if op == "RM":
            ents = []            # nothing is materialised
        if op == "MV":           # the patch names two paths: both must be safe for the patch to be applied
            ents = [(tuple(st["mv"]["src"]), None), (tuple(st["mv"]["dst"]), None)]
        if op in ("CO", "COF") and head_tree is not None:
            old = {(p, repr(k)) for p, k in flat_paths(head_tree)}
            ents = [e for e in ents if (e[0], repr(e[1])) not in old]
        for p, k in ents:
            if any(unsafe.get((c, prot["ntfs"], prot["hfs"]), False) for c in p):
                viol.append({"sig": f"{SITE[op]}|UnsafeRefused|unsafe path {'/'.join(p)!r} accepted ntfs={int(prot['ntfs'])} hfs={int(prot['hfs'])}",
                             "step": i, "what": f"{ENTRY[op]} reported success for a {'patch' if op == 'MV' else 'tree'} with the unsafe path {'/'.join(p)!r}: {seqtxt}"})
    if op in ("CL", "SU", "RH", "RM") or (op in ("CO", "COF") and outcome == "ok"):
        head_tree = tree
    res["behaviours"] += 1
    if outcome != "ok" or any(len(p) > 2 and p[:2] == ("p", "repo") and p[2] != ".git" for p in fs):
        res["nontrivial"] += 1
    if res["sample"] is None or viol:
        res["sample"] = {"history": seqtxt, "outcome": outcome, "exception": exc[:160]}
    if job.get("keep_obs"):
        res["obs"].append(dict(obs, hist=hist, step=i, violated=bool(viol)))
    if viol:
        for v in viol:
            v["hist"] = hist
            v["observed"] = obs
        res["violations"] += viol
        return "violation", head_tree
    # ---- conformance with the specification's successor state(s)
    if st.get("alts") is None:
        return None, head_tree
    hit = None
    for sid in st["alts"]:
        m = states[sid]
        if m["res"] == outcome and m["fs"] == fs and (idx is None or m["idx"] == idx):
            hit = sid
            break
    if hit is None:
        m = states[st["plan"]]
        d = []
        if m["res"] != outcome:
            d.append(f"outcome model={m['res']} real={outcome} ({exc[:100]})")
        for p in sorted(set(m["fs"]) | set(fs)):
            if m["fs"].get(p) != fs.get(p):
                d.append(f"fs {'/'.join(p)}: model={m['fs'].get(p)} real={fs.get(p)}")
        if idx is not None:
            for p in sorted(set(m["idx"]) | set(idx)):
                if m["idx"].get(p) != idx.get(p):
                    d.append(f"idx {'/'.join(p)}: model={m['idx'].get(p)} real={idx.get(p)}")
        res["drift"].append(f"[ntfs={int(prot['ntfs'])} hfs={int(prot['hfs'])}] {seqtxt}: " + "; ".join(d[:4]))
        return "drift", head_tree
    res["matched"] += 1
    if hit != st["plan"]:
        return "other-alternative", head_tree
    return None, head_tree


def run_job(job):
    try:
        return _run_job(job)
    except Exception as e:      # noqa: BLE001 - reported with the job, the parent turns it into a machinery failure
        import traceback
        return {"id": job["id"], "crash": f"{type(e).__name__}: {e}\n{traceback.format_exc()[-1500:]}",
                "history": seq_show(job["prefix"] + job["finals"][:1])}


def _run_job(job):
    """Execute the behaviours of one job on the real code.  Returns a plain dict (picklable)."""
    from . import c17_real
    prot = job["prot"]
    prefix, finals = job["prefix"], job["finals"]
    root = os.path.join(job["scratch"], f"j{os.getpid()}-{job['id']}")
    snap = root + ".snap"
    shutil.rmtree(root, ignore_errors=True)
    res = {"id": job["id"], "violations": [], "drift": [], "executed": 0, "matched": 0, "obs": [], "behaviours": 0,
           "nontrivial": 0, "sample": None, "unreached": 0}
    first = (prefix + finals)[0]["op"]
    case = c17_real.Case(root, prot, clone_first=(first in ("CL", "SU")))
    head_tree = None
    try:
        done = []
        for st in prefix:
            stop, head_tree = _exec_step(job, case, st, done, res, head_tree)
            done.append(st)
            if stop is not None:
                res["unreached"] += len(finals)
                return res
        if len(finals) > 1:
            _save(case, snap)
        for k, st in enumerate(finals):
            if k > 0:
                _restore(case, snap)
            _exec_step(job, case, st, done, res, head_tree)
    finally:
        case.close()
        shutil.rmtree(root, ignore_errors=True)
        shutil.rmtree(snap, ignore_errors=True)
        shutil.rmtree(os.path.join(os.path.dirname(snap), "objs-" + os.path.basename(snap)), ignore_errors=True)
    return res


# --------------------------------------------------------------------------- random histories (code -> spec)
def _F(c, m):
    return {"t": "f", "c": c, "m": m, "to": [], "ch": []}


def _L(to):
    return {"t": "l", "c": "", "m": "", "to": list(to), "ch": []}


def _D(ch):
    return {"t": "d", "c": "", "m": "", "to": [], "ch": ch}


_G = {"t": "g", "c": "", "m": "", "to": [], "ch": []}
FILE_KINDS = [_F("A", "644"), _F("B", "odd"), _F("A", "755"), _F("B", "oddnx"), _F("B", "644")]
LINK_TARGETS = [["..", "od"], ["..", "of"], ["..", "repo-x", "f"], ["..", "repo-x"], ["..", "tmp"], [".git", "hooks", "x"],
                ["..", "repo-x", "x"], ["", "p", "tmp"], ["", "p", "od"], ["", "p", "of"], [".git"], [".git", "config"], [".git", "hooks"],
                ["a"], ["d"], ["e"], ["x"], ["d", "x"], ["..", "ol"], ["."], [".."], ["..", ".."], ["..", "od", "e"],
                [".git", "hooks", "h"], ["a", "x"]]
CHILD_LINKS = [["..", "..", "od"], ["..", "..", "of"], ["..", "a"], ["..", ".git", "config"], ["x"], ["", "p", "od", "e"]]
ROOT_NAMES = [["a"], ["d"], ["e"], ["x"]]
ODD_NAMES = [[".git"], ["git~1"], [".GIT"], ["..", "of"], ["d", "x"], ["a", "x"], ["d", "e"], [".git", "x"], ["~"]]
CHILD_NAMES = [["x"], ["e"], ["config"], ["h"], ["of"], ["od"], ["f"]]


def gen_tree(rng, max_entries=3):
    for _ in range(50):
        ents = []
        for _ in range(rng.choice([0, 1, 1, 2, 2, 2, 3][:max(1, 2 * max_entries + 1)]) if max_entries >= 3 else rng.randrange(0, max_entries + 1)):
            r = rng.random()
            if r < 0.12:
                nm = rng.choice(ODD_NAMES)
                k = rng.choice(FILE_KINDS[:2] + [_L(rng.choice(LINK_TARGETS[:6]))])
            else:
                nm = rng.choice(ROOT_NAMES)
                q = rng.random()
                if q < 0.06:
                    k = _G
                elif q < 0.3:
                    k = rng.choice(FILE_KINDS)
                elif q < 0.65:
                    k = _L(rng.choice(LINK_TARGETS))
                else:
                    ch = []
                    for cn in rng.sample(CHILD_NAMES, rng.choice([1, 1, 2])):
                        z = rng.random()
                        ch.append({"n": cn, "k": rng.choice(FILE_KINDS) if z < 0.65 else _G if z < 0.72 else _L(rng.choice(CHILD_LINKS))})
                    k = _D(sorted(ch, key=lambda e: e["n"]))
            ents.append({"n": nm, "k": k})
        names = [tuple(e["n"]) for e in ents]
        flat = [p for p, _ in flat_paths(ents)]
        if len(set(names)) == len(names) and len(set(flat)) == len(flat):
            return sorted(ents, key=lambda e: e["n"])
    return []


def gen_history(rng, length):
    prot = rng.choice([{"ntfs": True, "hfs": False}] * 3 + [{"ntfs": False, "hfs": False}, {"ntfs": True, "hfs": True},
                                                           {"ntfs": False, "hfs": True}])
    steps = []
    has_head = False
    for i in range(length):
        ops = ["RI", "CO", "COF", "COF", "RH", "RH", "RM", "RM", "AP", "AP"] + (["ST", "ST"] if has_head else [])
        if i == 0 and prot == {"ntfs": True, "hfs": False} and rng.random() < 0.2:
            op = "CL"
        else:
            op = rng.choice(ops)
        if op in ("CL", "RH", "RM"):
            has_head = True
        steps.append({"op": op, "tree": gen_tree(rng), "alts": None, "plan": None})
    return {"prot": prot, "prefix": steps[:-1], "finals": steps[-1:], "keep_obs": True}


def node4(nd):
    t = nd["t"]
    if t == "d":
        return {"t": "d", "c": "", "x": False, "to": []}
    if t == "l":
        return {"t": "l", "c": "", "x": False, "to": list(nd["to"])}
    if t in ("g", "gd", "gl"):
        return {"t": t, "c": "", "x": False, "to": []}
    return {"t": "f", "c": nd["c"] + ("!" + nd["perm"] if "perm" in nd else ""), "x": bool(nd["x"]), "to": []}


def trace_line(tid, prot, obs):
    return {"tid": tid, "prot": prot,
            "steps": [{"op": o["op"], "tree": o["tree"], "res": o["res"],
                       "fs": [[p, node4(nd)] for p, nd in o["fs"]],
                       "idx": [[p, node4(nd)] for p, nd in (o["idx"] or [])]} for o in obs]}


# --------------------------------------------------------------------------- self-test of the observation
def selftest(scratch):
    """The snapshot must see every kind of escape the property names (create / overwrite with the
    same content / delete / chmod, outside the work tree and inside .git) and nothing else."""
    from . import c17_real
    root = os.path.join(scratch, f"selftest{os.getpid()}")
    shutil.rmtree(root, ignore_errors=True)
    case = c17_real.Case(root, {"ntfs": True, "hfs": False})
    try:
        git = os.path.join(case.W, ".git")
        probes = [
            ("overwrite outside, same content", lambda: open(os.path.join(case.p, "of"), "wb").write(b"A\n"), 1),
            ("delete outside", lambda: os.unlink(os.path.join(case.p, "od", "e", "x")), 1),
            ("create outside", lambda: open(os.path.join(case.top, "new"), "wb").write(b"x"), 1),
            ("create above the model root", lambda: open(os.path.join(case.root, "u1", "new"), "wb").write(b"x"), 1),
            ("chmod outside", lambda: os.chmod(os.path.join(case.p, "od", "x"), 0o6755), 1),
            ("retarget outside link", lambda: (os.unlink(os.path.join(case.p, "ol")), os.symlink("od", os.path.join(case.p, "ol"))), 1),
            ("overwrite .git/config, same content", lambda: open(os.path.join(git, "config"), "wb").write(case.cfg0), 1),
            ("create .git/hooks/post-checkout", lambda: open(os.path.join(git, "hooks", "post-checkout"), "wb").write(b"#!/bin/sh\n"), 1),
            ("create .git/x", lambda: os.symlink("config", os.path.join(git, "x")), 1),
            ("legitimate: work tree file, index, HEAD, refs, objects", lambda: (
                open(os.path.join(case.W, "f"), "wb").write(b"x"), open(os.path.join(git, "index"), "wb").write(b"x"),
                open(os.path.join(git, "HEAD"), "ab").write(b""), open(os.path.join(git, "refs", "heads", "b"), "wb").write(b"x"),
                os.makedirs(os.path.join(git, "objects", "aa"), exist_ok=True), open(os.path.join(git, "ORIG_HEAD"), "wb").write(b"x")), 0),
        ]
        for name, act, want in probes:
            before = case.protected(stamp=True)
            act()
            got = len(_diff_protected(before, case.protected()))
            if (got > 0) != (want > 0):
                return f"snapshot self-test failed: {name}: {got} differences reported"
        return None
    finally:
        case.close()
        shutil.rmtree(root, ignore_errors=True)

"""./check <ID> [--tier quick|thorough] [--replay path]   exit 0 ok / 1 violation / 2 machinery failure"""
from __future__ import annotations

import argparse
import importlib
import os
import sys
import traceback

from .core import Ctx, MachineryError


def main(argv=None):
    ap = argparse.ArgumentParser()
    ap.add_argument("pid")
    ap.add_argument("--tier", default=os.environ.get("VERIF_TIER", "quick"), choices=["quick", "thorough"])
    ap.add_argument("--seed", type=int, default=None)
    ap.add_argument("--replay", default=None)
    a = ap.parse_args(argv)
    pid = a.pid.upper()
    os.environ.setdefault("PYTHONHASHSEED", "0")
    os.environ["DULWICH_VERIF"] = "1"
    from .core import REPO
    import importlib.util
    origin = importlib.util.find_spec("dulwich").origin      # does not import the package
    if os.path.realpath(os.path.dirname(os.path.dirname(origin))) != os.path.realpath(REPO):
        print(f"MACHINERY-FAILURE property={pid}: dulwich would be imported from {origin}, expected {REPO}", file=sys.stderr)
        return 2
    try:
        mod = importlib.import_module(f"harness.props.{pid.lower()}")
    except ModuleNotFoundError as e:
        print(f"no check for {pid}: {e}", file=sys.stderr)
        return 2
    ctx = Ctx(pid, a.tier, a.seed, a.replay)
    try:
        if a.replay:
            return mod.replay(ctx, a.replay)
        rc = mod.run(ctx)
        return rc if rc is not None else ctx.finish()
    except MachineryError as e:
        print(f"MACHINERY-FAILURE property={pid}: {e}", file=sys.stderr)
        return 2
    except Exception:
        traceback.print_exc()
        print(f"MACHINERY-FAILURE property={pid}: unexpected exception", file=sys.stderr)
        return 2
    finally:
        import shutil
        shutil.rmtree(ctx.scratch, ignore_errors=True)


if __name__ == "__main__":
    sys.exit(main())

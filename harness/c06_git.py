"""C06, third opinion: C git as the pushing client.

The behaviours TLC enumerates for the spaces GitSolo / GitRace of RecvPackMC.tla are executed
  (a) by `git push` to C git's own receive-pack (a bare repository reached by path).  This validates
      the *specification*: git is the reference for the design with all three repairs, so the
      statuses git prints and the refs it leaves must be a behaviour of RecvPack with the repaired
      parameters.  A mismatch is a defect of the specification (machinery failure), never a verdict
      about dulwich;
  (b) by `git push` over a loopback TCP connection to a dulwich TCPGitServer serving a real
      repository.  What git prints (--porcelain) is what "the client was told"; the trace goes to
      the TLC monitor like every other execution, and is compared with the behaviours of RecvPack
      under the design parameters of the code under test.
The racing pusher is a pre-receive hook (a hook object for dulwich, a shell script for git) that
performs pusher 2's ref update between the advertisement and the processing of the commands.
"""
from __future__ import annotations

import os
import shutil
import subprocess
import threading

from . import c06_lib as L
from .core import MachineryError

GIT_ENV = {"GIT_CONFIG_NOSYSTEM": "1", "GIT_CONFIG_GLOBAL": "/dev/null", "HOME": "/nonexistent", "GIT_TERMINAL_PROMPT": "0",
           "PATH": os.environ.get("PATH", "/usr/bin:/bin"), "LC_ALL": "C"}


def git(args, cwd=None, check=True, env=None):
    e = dict(GIT_ENV)
    if env:
        e.update(env)
    p = subprocess.run(["git", *args], cwd=cwd, env=e, capture_output=True, timeout=60)
    if check and p.returncode != 0:
        raise MachineryError(f"git {' '.join(args)} failed: {p.stderr.decode(errors='replace')[:500]}")
    return p


class RacerHook:
    """pre-receive hook object: another pusher's ref update lands now."""

    def __init__(self, rec, repo, cmd):
        self.rec, self.repo, self.cmd = rec, repo, cmd
        self.result = None

    def execute(self, client_refs):
        fx = L.fixture()
        c = self.cmd
        name = L.REFNAMES[c["r"] - 1]
        saved = self.rec.cur
        self.rec.cur = 2
        try:
            if c["new"] == 0:
                self.result = self.repo.refs.remove_if_equals(name, fx.sha[c["old"]])
            else:
                self.result = self.repo.refs.set_if_equals(name, fx.sha[c["old"]], fx.sha[c["new"]])
        finally:
            self.rec.cur = saved
        self.rec.log({"p": 2, "op": "done", "unp": "ok", "st": ["ok" if self.result else "ng"], "err": "", "rest": 0,
                      "refs": self.rec.refs_now(), "store": self.rec.store_now()})
        return (b"", b"")


class OneRepoBackend:
    def __init__(self):
        self.repo = None

    def open_repository(self, path):
        return self.repo


class Servers:
    def __init__(self, ctx, tpl):
        from dulwich.repo import Repo
        from dulwich.server import TCPGitServer
        self.ctx, self.tpl = ctx, tpl
        self.base = ctx.tmpdir("git")
        fx = L.fixture()
        # client side: a bare C git repository holding every fixture object
        self.cli = os.path.join(self.base, "client.git")
        git(["init", "-q", "--bare", self.cli])
        r = Repo(self.cli)
        for i in fx.objs:
            for o in fx.objs[i]:
                r.object_store.add_object(o)
        r.close()
        self.backend = OneRepoBackend()
        self.srv = TCPGitServer(self.backend, "127.0.0.1", 0)
        self.errors = []
        self.srv.handle_error = lambda request, client_address: self.errors.append(repr(__import__("sys").exc_info()[1]))
        self.port = self.srv.server_address[1]
        self.thread = threading.Thread(target=self.srv.serve_forever, kwargs={"poll_interval": 0.05}, daemon=True)
        self.thread.start()
        self.n = 0

    def close(self):
        self.srv.shutdown()
        self.srv.server_close()
        self.thread.join(5)
        shutil.rmtree(self.base, ignore_errors=True)

    # ---------------------------------------------------------------- git push and its report
    def push(self, url, desc):
        fx = L.fixture()
        specs = []
        for c in desc["cmds"]:
            name = os.fsdecode(L.REFNAMES[c["r"] - 1])
            specs.append((":" + name) if c["new"] == 0 else (fx.sha[c["new"]].decode() + ":" + name))
        args = ["push", "--porcelain", "--force"] + (["--atomic"] if "atomic" in desc["caps"] else []) + [url] + specs
        p = git(args, cwd=self.cli, check=False)
        st = {}
        for line in p.stdout.decode(errors="replace").splitlines():
            parts = line.split("\t")
            if len(parts) >= 3 and len(parts[0]) == 1 and ":" in parts[1]:
                to = parts[1].split(":", 1)[1]
                st[to] = "ng" if parts[0] == "!" else "ok"
        out = [st.get(os.fsdecode(L.REFNAMES[c["r"] - 1]), "-") for c in desc["cmds"]]
        err = p.stderr.decode(errors="replace")
        unp = "fail" if ("unpack" in err and "fail" in err) or "unpacker error" in p.stdout.decode(errors="replace") else "ok"
        return out, unp, p.returncode, (p.stdout.decode(errors="replace") + err)[-600:]

    # ---------------------------------------------------------------- (b) dulwich TCP server
    def push_dulwich_client(self, desc):
        """dulwich's own TCP client against the same server: TraditionalGitClient.send_pack,
        _handle_receive_pack_tail and ReportStatusParser end to end."""
        from dulwich.client import TCPGitClient
        from dulwich.errors import GitProtocolError, SendPackError
        from dulwich.pack import pack_objects_to_data
        fx = L.fixture()
        new_refs = {L.REFNAMES[c["r"] - 1]: fx.sha[c["new"]] for c in desc["cmds"]}

        def update_refs(old):
            return dict(new_refs)

        def gen(have, want, ofs_delta=False, progress=None):
            return pack_objects_to_data([(o, None) for i in sorted(desc["pack"]) for o in fx.objs[i]])
        n = len(desc["cmds"])
        try:
            res = TCPGitClient("127.0.0.1", port=self.port).send_pack(b"/x", update_refs, gen, atomic="atomic" in desc["caps"])
        except SendPackError as e:
            return ["-"] * n, "fail", 1, str(e)[:200]
        except GitProtocolError as e:
            return ["-"] * n, "fail", 1, type(e).__name__ + ":" + str(e)[:200]
        status = res.ref_status
        if status is None:
            return ["-"] * n, "none", 0, ""
        st = []
        for c in desc["cmds"]:
            name = L.REFNAMES[c["r"] - 1]
            st.append("-" if name not in status else ("ok" if status[name] is None else "ng"))
        return st, "ok", 0, repr(status)[:300]

    def run_dulwich(self, case, client="git"):
        from dulwich.repo import Repo
        L.install()
        descs = case["push"]
        root = self.tpl.fresh(case["refs0"], case["store0"], case.get("layout", "loose"))
        rec = L.Rec(root, len(case["refs0"]))
        for p, d in enumerate(descs, 1):
            rec.descs[p] = d
        rec.cur = 1
        L._ACTIVE[rec.root] = rec
        repo = Repo(root)
        try:
            if descs[0]["decl"]:
                repo.hooks["update"] = L.DeclineUpdate(L.REFNAMES[r - 1] for r in descs[0]["decl"])
            if len(descs) > 1:
                repo.hooks["pre-receive"] = RacerHook(rec, repo, descs[1]["cmds"][0])
            self.backend.repo = repo
            if client == "git":
                st, unp, rc, text = self.push(f"git://127.0.0.1:{self.port}/x", descs[0])
            else:
                st, unp, rc, text = self.push_dulwich_client(descs[0])
            rec.log({"p": 1, "op": "done", "unp": unp, "st": st, "err": "" if rc == 0 else f"rc={rc}", "rest": 0,
                     "refs": rec.refs_now(), "store": rec.store_now()})
        finally:
            self.backend.repo = None
            repo.close()
            L._ACTIVE.pop(rec.root, None)
            shutil.rmtree(root, ignore_errors=True)
        return {"refs0": list(case["refs0"]), "store0": sorted(case["store0"]), "push": descs, "ev": rec.ev, "via": client,
                "layout": case.get("layout", "loose"), "git_output": text}

    # ---------------------------------------------------------------- (a) C git's own receive-pack
    def run_cgit(self, case):
        fx = L.fixture()
        self.n += 1
        root = os.path.join(self.base, f"cg{self.n}.git")
        git(["init", "-q", "--bare", root])
        from dulwich.repo import Repo
        r = Repo(root)
        for i in case["store0"]:
            for o in fx.objs[i]:
                r.object_store.add_object(o)
        r.close()
        for idx, v in enumerate(case["refs0"]):
            if v:
                git(["update-ref", os.fsdecode(L.REFNAMES[idx]), fx.sha[v].decode()], cwd=root)
        descs = case["push"]
        hooks = os.path.join(root, "hooks")
        os.makedirs(hooks, exist_ok=True)
        if descs[0]["decl"]:
            names = "|".join(os.fsdecode(L.REFNAMES[r - 1]) for r in descs[0]["decl"])
            with open(os.path.join(hooks, "update"), "w") as f:
                f.write(f"#!/bin/sh\ncase \"$1\" in {names}) echo declined >&2; exit 1;; esac\nexit 0\n")
            os.chmod(os.path.join(hooks, "update"), 0o755)
        if len(descs) > 1:
            c = descs[1]["cmds"][0]
            name = os.fsdecode(L.REFNAMES[c["r"] - 1])
            if c["new"] == 0:
                cmd = f"git update-ref -d {name} {fx.sha[c['old']].decode()}"
            else:
                cmd = f"git update-ref {name} {fx.sha[c['new']].decode()} {fx.sha[c['old']].decode()}"
            with open(os.path.join(hooks, "pre-receive"), "w") as f:
                f.write(f"#!/bin/sh\ncat >/dev/null\nunset GIT_QUARANTINE_PATH GIT_OBJECT_DIRECTORY GIT_ALTERNATE_OBJECT_DIRECTORIES\n{cmd} || exit 1\nexit 0\n")
            os.chmod(os.path.join(hooks, "pre-receive"), 0o755)
        st, unp, rc, text = self.push(root, descs[0])
        refs = [fx.v(L.read_ref_file(root, L.REFNAMES[i])) for i in range(len(case["refs0"]))]
        store = L.Rec(root, len(case["refs0"])).store_now()
        shutil.rmtree(root, ignore_errors=True)
        return st, unp, refs, store, text


def p2_first(beh):
    """Pusher 2 (if any) completed before pusher 1 started."""
    seen1 = False
    for h in beh["hist"]:
        if h["p"] == 1:
            seen1 = True
        elif seen1:
            return False
    return True


def outcome_model(beh):
    d = beh["push"][0]
    return (beh["unp"][0], tuple(beh["st"][0]), tuple(beh["refs"]))


def run(ctx, judge, tpl, behs_ref, behs_code):
    """behs_ref: behaviours of GitSolo+GitRace under the repaired parameters (git is the reference);
    behs_code: the same spaces under the parameters of the code under test."""
    if shutil.which("git") is None:
        ctx.assumptions.append("C git not available: third-opinion runs skipped")
        return
    import json
    ref = {}
    for b in behs_ref:
        if p2_first(b):
            ref.setdefault(L_case_key(b), set()).add(outcome_model(b))
    code = {}
    cases = {}
    for b in behs_code:
        if p2_first(b):
            k = L_case_key(b)
            cases[k] = L.case_of_behaviour(b)
            code.setdefault(k, set()).add((outcome_model(b), L.project_model(b)[0]))
    keys = sorted(cases)
    if ctx.quick:
        step = max(1, len(keys) // 36)
        keys = keys[ctx.seed % step::step]
    S = Servers(ctx, tpl)
    ngit = nd = 0
    try:
        for k in keys:
            case = cases[k]
            # (a) the specification against C git
            st, unp, refs, store, text = S.run_cgit(case)
            got = (unp, tuple(st), tuple(refs))
            ngit += 1
            if got not in ref.get(k, set()):
                raise MachineryError(f"specification disagrees with C git (spec defect, not a verdict on dulwich): case={k} "
                                     f"git={got} spec={sorted(ref.get(k, set()))} output={text!r}")
            # (b) dulwich behind the same client, and behind dulwich's own TCP client
            for client in ("git", "dulwich"):
                tr = S.run_dulwich(case, client)
                nd += 1
                label = client + "-tcp"
                tr["label"] = label
                judge.add(label, tr)
                ctx.count()
                done = [e for e in tr["ev"] if e["op"] == "done" and e["p"] == 1][-1]
                ops = tuple((e["p"], e["i"], e["pre"], e["post"]) for e in tr["ev"] if e["op"] == "refop")
                got = ((done["unp"], tuple(done["st"]), tuple(done["refs"])), ops)
                ctx.nontrivial((label, k, got))
                if got not in code.get(k, set()):
                    ctx.drift_event(f"{label}: dulwich behind this client behaves in a way RecvPack does not allow: case={k} real={got} "
                                    f"spec={sorted(code.get(k, set()), key=repr)[:3]} client said {tr['git_output']!r}")
        if S.errors:
            ctx.drift_event(f"git-tcp: the TCP server's handler raised: {S.errors[:3]}")
    finally:
        S.close()
    ctx.sample({"kind": "git-tcp", "case": json.loads(keys[len(keys) // 2]), "events": tr["ev"][-3:]}, limit=8)
    ctx.log(f"C git: {ngit} pushes to git's own receive-pack agree with the repaired specification; {nd} pushes (C git and dulwich's "
            f"TCP client) to a dulwich TCP server recorded")


def L_case_key(beh):
    import json
    case = L.case_of_behaviour(beh)
    return json.dumps([case["refs0"], case["store0"], case["push"]], sort_keys=True, separators=(",", ":"))


def rerun(ctx, tpl, tr0):
    S = Servers(ctx, tpl)
    try:
        return S.run_dulwich({"refs0": tr0["refs0"], "store0": tr0["store0"], "push": tr0["push"], "layout": tr0.get("layout", "loose")},
                             tr0.get("via", "git"))
    finally:
        S.close()

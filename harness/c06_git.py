"""C06, third opinion: C git as the pushing client.

The behaviours TLC enumerates for the spaces GitSolo / GitRace of RecvPackMC.tla are executed
  (a) by `git push` to C git's own receive-pack (a bare repository reached by path).  This validates
      the *specification*: git is the reference for the design with all three repairs, so the
      statuses git prints and the refs it leaves must be a behaviour of RecvPack with the repaired
      parameters.  A mismatch is a defect of the specification (machinery failure), never a verdict
      about dulwich;
  (b) by `git push` over a loopback TCP connection to a dulwich TCPGitServer serving a real
      repository.  What git prints (--porcelain) is what "the client was told"; the trace goes to
      the TLC monitor like every other execution, and is compared with the behaviours of RecvPack
      under the design parameters of the code under test.
The racing pusher is a pre-receive hook (a hook object for dulwich, a shell script for git) that
performs pusher 2's ref update between the advertisement and the processing of the commands.
"""
from __future__ import annotations

import os
import shutil
import subprocess
import threading

from . import c06_lib as L
from .core import MachineryError

GIT_ENV = {"GIT_CONFIG_NOSYSTEM": "1", "GIT_CONFIG_GLOBAL": "/dev/null", "HOME": "/nonexistent", "GIT_TERMINAL_PROMPT": "0",
           "PATH": os.environ.get("PATH", "/usr/bin:/bin"), "LC_ALL": "C"}


def git(args, cwd=None, check=True, env=None):
    e = dict(GIT_ENV)
    if env:
        e.update(env)
    p = subprocess.run(["git", *args], cwd=cwd, env=e, capture_output=True, timeout=60)
    if check and p.returncode != 0:
        raise MachineryError(f"git {' '.join(args)} failed: {p.stderr.decode(errors='replace')[:500]}")
    return p


class RacerHook:
    """pre-receive hook object: another pusher's ref update lands now."""

    def __init__(self, rec, repo, cmd):
        self.rec, self.repo, self.cmd = rec, repo, cmd
        self.result = None

    def execute(self, client_refs):
        fx = L.fixture()
        c = self.cmd
        name = L.REFNAMES[c["r"] - 1]
        saved = self.rec.cur
        self.rec.cur = 2
        try:
            if c["new"] == 0:
                self.result = self.repo.refs.remove_if_equals(name, fx.sha[c["old"]])
            else:
                self.result = self.repo.refs.set_if_equals(name, fx.sha[c["old"]], fx.sha[c["new"]])
        finally:
            self.rec.cur = saved
        self.rec.log({"p": 2, "op": "done", "unp": "ok", "st": ["ok" if self.result else "ng"], "err": "", "rest": 0,
                      "refs": self.rec.refs_now(), "store": self.rec.store_now()})
        return (b"", b"")


class OneRepoBackend:
    def __init__(self):
        self.repo = None

    def open_repository(self, path):
        return self.repo


class Servers:
    def __init__(self, ctx, tpl):
        from dulwich.repo import Repo
        from dulwich.server import TCPGitServer
        self.ctx, self.tpl = ctx, tpl
        self.base = ctx.tmpdir("git")
        fx = L.fixture()
        # client side: a bare C git repository holding every fixture object
        self.cli = os.path.join(self.base, "client.git")
        git(["init", "-q", "--bare", self.cli])
        r = Repo(self.cli)
        for i in fx.objs:
            for o in fx.objs[i]:
                r.object_store.add_object(o)
        r.close()
        self.backend = OneRepoBackend()
        self.srv = TCPGitServer(self.backend, "127.0.0.1", 0)
        self.errors = []
        self.srv.handle_error = lambda request, client_address: self.errors.append(repr(__import__("sys").exc_info()[1]))
        self.port = self.srv.server_address[1]
        self.thread = threading.Thread(target=self.srv.serve_forever, kwargs={"poll_interval": 0.05}, daemon=True)
        self.thread.start()
        # the same backend behind dulwich.web (smart HTTP, stateless-rpc): for HttpGitClient
        from wsgiref.simple_server import make_server
        from dulwich.web import WSGIRequestHandlerLogger, WSGIServerLogger, make_wsgi_chain
        self.web = make_server("127.0.0.1", 0, make_wsgi_chain(self.backend), handler_class=WSGIRequestHandlerLogger,
                               server_class=WSGIServerLogger)
        self.webport = self.web.server_address[1]
        self.webthread = threading.Thread(target=self.web.serve_forever, kwargs={"poll_interval": 0.05}, daemon=True)
        self.webthread.start()
        self.n = 0

    def close(self):
        self.srv.shutdown()
        self.srv.server_close()
        self.thread.join(5)
        self.web.shutdown()
        self.web.server_close()
        self.webthread.join(5)
        shutil.rmtree(self.base, ignore_errors=True)

    # ---------------------------------------------------------------- git push and its report
    def push(self, url, desc):
        fx = L.fixture()
        specs = []
        for c in desc["cmds"]:
            name = os.fsdecode(L.REFNAMES[c["r"] - 1])
            specs.append((":" + name) if c["new"] == 0 else (fx.sha[c["new"]].decode() + ":" + name))
        args = ["push", "--porcelain", "--force"] + (["--atomic"] if "atomic" in desc["caps"] else []) + [url] + specs
        p = git(args, cwd=self.cli, check=False)
        st = {}
        for line in p.stdout.decode(errors="replace").splitlines():
            parts = line.split("\t")
            if len(parts) >= 3 and len(parts[0]) == 1 and ":" in parts[1]:
                to = parts[1].split(":", 1)[1]
                st[to] = "ng" if parts[0] == "!" else "ok"
        out = [st.get(os.fsdecode(L.REFNAMES[c["r"] - 1]), "-") for c in desc["cmds"]]
        err = p.stderr.decode(errors="replace")
        unp = "fail" if ("unpack" in err and "fail" in err) or "unpacker error" in p.stdout.decode(errors="replace") else "ok"
        return out, unp, p.returncode, (p.stdout.decode(errors="replace") + err)[-600:]

    # ---------------------------------------------------------------- (b) dulwich TCP server
    def push_dulwich_client(self, desc, stack="dulwich", path=None):
        """dulwich's own client stacks end to end (send_pack, _handle_receive_pack_tail,
        ReportStatusParser): stack = "dulwich" TCPGitClient -> dulwich TCPGitServer, "http" HttpGitClient
        -> dulwich.web, "subprocess" SubprocessGitClient -> `git receive-pack` on the repository at path."""
        from dulwich.client import HttpGitClient, SubprocessGitClient, TCPGitClient
        from dulwich.errors import GitProtocolError, SendPackError
        from dulwich.pack import pack_objects_to_data
        fx = L.fixture()
        new_refs = {L.REFNAMES[c["r"] - 1]: fx.sha[c["new"]] for c in desc["cmds"]}

        def update_refs(old):
            return dict(new_refs)

        def gen(have, want, ofs_delta=False, progress=None):
            return pack_objects_to_data([(o, None) for i in sorted(desc["pack"]) for o in fx.objs[i]])
        n = len(desc["cmds"])
        try:
            atomic = "atomic" in desc["caps"]
            if stack == "http":
                res = HttpGitClient(f"http://127.0.0.1:{self.webport}").send_pack("/x", update_refs, gen, atomic=atomic)
            elif stack == "subprocess":
                res = SubprocessGitClient().send_pack(path, update_refs, gen, atomic=atomic)
            else:
                res = TCPGitClient("127.0.0.1", port=self.port).send_pack(b"/x", update_refs, gen, atomic=atomic)
        except SendPackError as e:
            return ["-"] * n, "fail", 1, str(e)[:200]
        except GitProtocolError as e:
            return ["-"] * n, "fail", 1, type(e).__name__ + ":" + str(e)[:200]
        status = res.ref_status
        if status is None:
            return ["-"] * n, "none", 0, ""
        st = []
        for c in desc["cmds"]:
            name = L.REFNAMES[c["r"] - 1]
            st.append("-" if name not in status else ("ok" if status[name] is None else "ng"))
        return st, "ok", 0, repr(status)[:300]

    def run_dulwich(self, case, client="git"):
        from dulwich.repo import Repo
        L.install()
        descs = case["push"]
        root = self.tpl.fresh(case["refs0"], case["store0"], case.get("layout", "loose"))
        rec = L.Rec(root, len(case["refs0"]))
        for p, d in enumerate(descs, 1):
            rec.descs[p] = d
        rec.cur = 1
        L._ACTIVE[rec.root] = rec
        repo = Repo(root)
        try:
            if descs[0]["decl"]:
                repo.hooks["update"] = L.DeclineUpdate(L.REFNAMES[r - 1] for r in descs[0]["decl"])
            if len(descs) > 1:
                repo.hooks["pre-receive"] = RacerHook(rec, repo, descs[1]["cmds"][0])
            self.backend.repo = repo
            if client == "git":
                st, unp, rc, text = self.push(f"git://127.0.0.1:{self.port}/x", descs[0])
            else:
                st, unp, rc, text = self.push_dulwich_client(descs[0], client)
            rec.log({"p": 1, "op": "done", "unp": unp, "st": st, "err": "" if rc == 0 else f"rc={rc}", "rest": 0,
                     "refs": rec.refs_now(), "store": rec.store_now()})
        finally:
            self.backend.repo = None
            repo.close()
            L._ACTIVE.pop(rec.root, None)
            shutil.rmtree(root, ignore_errors=True)
        return {"refs0": list(case["refs0"]), "store0": sorted(case["store0"]), "push": descs, "ev": rec.ev, "via": client,
                "layout": case.get("layout", "loose"), "git_output": text}

    # ---------------------------------------------------------------- (a) C git's own receive-pack
    def run_cgit(self, case):
        root = self.make_cgit(case)
        fx = L.fixture()
        st, unp, rc, text = self.push(root, case["push"][0])
        refs = [fx.v(L.read_ref_file(root, L.REFNAMES[i])) for i in range(len(case["refs0"]))]
        store = L.Rec(root, len(case["refs0"])).store_now()
        shutil.rmtree(root, ignore_errors=True)
        return st, unp, refs, store, text

    def run_subprocess(self, case):
        """dulwich's SubprocessGitClient pushing to C git's receive-pack.  The server is not
        instrumented; the events are inferred from what can be read: the racing pusher is a pre-receive
        hook, so every ref holds (initial value, changed by the racer's command) when receive-pack turns
        to the commands, the refs are distinct, and the value after is the one read back at the end."""
        fx = L.fixture()
        descs = case["push"]
        root = self.make_cgit(case)
        st, unp, rc, text = self.push_dulwich_client(descs[0], "subprocess", root)
        n = len(case["refs0"])
        final = [fx.v(L.read_ref_file(root, L.REFNAMES[i])) for i in range(n)]
        store = L.Rec(root, n).store_now()
        shutil.rmtree(root, ignore_errors=True)
        cur = list(case["refs0"])
        ev, seq = [], 0

        def log(e):
            nonlocal seq
            seq += 1
            e["seq"] = seq
            ev.append(e)
        if len(descs) > 1:
            c = descs[1]["cmds"][0]
            pre = cur[c["r"] - 1]
            if pre == c["old"]:
                cur[c["r"] - 1] = c["new"]
            log({"p": 2, "op": "refop", "i": 1, "kind": "inferred", "ref": os.fsdecode(L.REFNAMES[c["r"] - 1]), "cold": c["old"], "cnew": c["new"],
                 "pre": pre, "post": cur[c["r"] - 1], "res": int(pre == c["old"]), "exc": "", "refs": list(cur)})
            log({"p": 2, "op": "done", "unp": "ok", "st": ["ok" if pre == c["old"] else "ng"], "err": "", "rest": 0, "refs": list(cur),
                 "store": sorted(case["store0"])})
        if store != sorted(case["store0"]):
            log({"p": 1, "op": "unpack", "ok": True, "exc": "", "store": store})
        for i, c in enumerate(descs[0]["cmds"], 1):
            pre, post = cur[c["r"] - 1], final[c["r"] - 1]
            if pre != post:
                cur[c["r"] - 1] = post
                log({"p": 1, "op": "refop", "i": i, "kind": "inferred", "ref": os.fsdecode(L.REFNAMES[c["r"] - 1]), "cold": c["old"], "cnew": c["new"],
                     "pre": pre, "post": post, "res": 1, "exc": "", "refs": list(cur)})
        log({"p": 1, "op": "done", "unp": unp, "st": st, "err": "" if rc == 0 else f"rc={rc}", "rest": 0, "refs": final, "store": store})
        return {"refs0": list(case["refs0"]), "store0": sorted(case["store0"]), "push": descs, "ev": ev, "via": "subprocess",
                "inferred": True, "layout": "loose", "git_output": text}

    def make_cgit(self, case):
        fx = L.fixture()
        self.n += 1
        root = os.path.join(self.base, f"cg{self.n}.git")
        git(["init", "-q", "--bare", root])
        from dulwich.repo import Repo
        r = Repo(root)
        for i in case["store0"]:
            for o in fx.objs[i]:
                r.object_store.add_object(o)
        r.close()
        for idx, v in enumerate(case["refs0"]):
            if v:
                git(["update-ref", os.fsdecode(L.REFNAMES[idx]), fx.sha[v].decode()], cwd=root)
        descs = case["push"]
        hooks = os.path.join(root, "hooks")
        os.makedirs(hooks, exist_ok=True)
        if descs[0]["decl"]:
            names = "|".join(os.fsdecode(L.REFNAMES[r - 1]) for r in descs[0]["decl"])
            with open(os.path.join(hooks, "update"), "w") as f:
                f.write(f"#!/bin/sh\ncase \"$1\" in {names}) echo declined >&2; exit 1;; esac\nexit 0\n")
            os.chmod(os.path.join(hooks, "update"), 0o755)
        if len(descs) > 1:
            c = descs[1]["cmds"][0]
            name = os.fsdecode(L.REFNAMES[c["r"] - 1])
            if c["new"] == 0:
                cmd = f"git update-ref -d {name} {fx.sha[c['old']].decode()}"
            else:
                cmd = f"git update-ref {name} {fx.sha[c['new']].decode()} {fx.sha[c['old']].decode()}"
            with open(os.path.join(hooks, "pre-receive"), "w") as f:
                f.write(f"#!/bin/sh\ncat >/dev/null\nunset GIT_QUARANTINE_PATH GIT_OBJECT_DIRECTORY GIT_ALTERNATE_OBJECT_DIRECTORIES\n{cmd} || exit 1\nexit 0\n")
            os.chmod(os.path.join(hooks, "pre-receive"), 0o755)
        return root


def p2_first(beh):
    """Pusher 2 (if any) completed before pusher 1 started."""
    seen1 = False
    for h in beh["hist"]:
        if h["p"] == 1:
            seen1 = True
        elif seen1:
            return False
    return True


def outcome_model(beh):
    d = beh["push"][0]
    return (beh["unp"][0], tuple(beh["st"][0]), tuple(beh["refs"]))


def run(ctx, judge, tpl, behs_ref, behs_code):
    """behs_ref: behaviours of GitSolo+GitRace under the repaired parameters (git is the reference);
    behs_code: the same spaces under the parameters of the code under test."""
    if shutil.which("git") is None:
        ctx.assumptions.append("C git not available: third-opinion runs skipped")
        return
    import json
    ref = {}
    for b in behs_ref:
        if p2_first(b):
            ref.setdefault(L_case_key(b), set()).add(outcome_model(b))
    code = {}
    cases = {}
    for b in behs_code:
        if p2_first(b):
            k = L_case_key(b)
            cases[k] = L.case_of_behaviour(b)
            code.setdefault(k, set()).add((outcome_model(b), L.project_model(b)[0]))
    keys = sorted(cases)
    if ctx.quick:
        step = max(1, len(keys) // 36)
        keys = keys[ctx.seed % step::step]
    S = Servers(ctx, tpl)
    ngit = nd = 0
    try:
        for k in keys:
            case = cases[k]
            # (a) the specification against C git
            st, unp, refs, store, text = S.run_cgit(case)
            got = (unp, tuple(st), tuple(refs))
            ngit += 1
            if got not in ref.get(k, set()):
                raise MachineryError(f"specification disagrees with C git (spec defect, not a verdict on dulwich): case={k} "
                                     f"git={got} spec={sorted(ref.get(k, set()))} output={text!r}")
            # (b) real client stacks: C git and dulwich's TCP client -> dulwich TCP server, dulwich's HTTP client ->
            # dulwich.web, dulwich's subprocess client -> C git's receive-pack
            for client in ("git", "dulwich", "http", "subprocess"):
                tr = S.run_subprocess(case) if client == "subprocess" else S.run_dulwich(case, client)
                nd += 1
                label = {"git": "git-tcp", "dulwich": "dulwich-tcp", "http": "dulwich-http", "subprocess": "subprocess-cgit"}[client]
                tr["label"] = label
                tid = judge.add(label, tr)
                ctx.count()
                done = [e for e in tr["ev"] if e["op"] == "done" and e["p"] == 1][-1]
                ops = tuple((e["p"], e["i"], e["pre"], e["post"]) for e in tr["ev"] if e["op"] == "refop")
                outcome = (done["unp"], tuple(done["st"]), tuple(done["refs"]))
                ctx.nontrivial((label, k, outcome, ops))
                if client == "subprocess":
                    # the server is C git: the outcome must be one the repaired specification allows
                    if outcome not in ref.get(k, set()):
                        judge.pending.append((tid, f"{label}: dulwich's client against C git's receive-pack: outcome outside the repaired "
                                                   f"specification: case={k} real={outcome} spec={sorted(ref.get(k, set()))} client said {tr['git_output']!r}"))
                elif (outcome, ops) not in code.get(k, set()):
                    judge.pending.append((tid, f"{label}: dulwich behind this client behaves in a way RecvPack does not allow: case={k} "
                                               f"real={(outcome, ops)} spec={sorted(code.get(k, set()), key=repr)[:3]} client said {tr['git_output']!r}"))
        if S.errors:
            ctx.drift_event(f"git-tcp: the TCP server's handler raised: {S.errors[:3]}")
    finally:
        S.close()
    ctx.sample({"kind": "git-tcp", "case": json.loads(keys[len(keys) // 2]), "events": tr["ev"][-3:]}, limit=8)
    ctx.log(f"C git: {ngit} pushes to git's own receive-pack agree with the repaired specification; {nd} pushes through real client "
            f"stacks (C git / TCPGitClient -> dulwich TCP server, HttpGitClient -> dulwich.web, SubprocessGitClient -> C git) recorded")


def L_case_key(beh):
    import json
    case = L.case_of_behaviour(beh)
    return json.dumps([case["refs0"], case["store0"], case["push"]], sort_keys=True, separators=(",", ":"))


def rerun(ctx, tpl, tr0):
    S = Servers(ctx, tpl)
    try:
        case = {"refs0": tr0["refs0"], "store0": tr0["store0"], "push": tr0["push"], "layout": tr0.get("layout", "loose")}
        if tr0.get("via") == "subprocess":
            return S.run_subprocess(case)
        return S.run_dulwich(case, tr0.get("via", "git"))
    finally:
        S.close()

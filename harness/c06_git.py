def run(ctx, judge, tpl):
    return

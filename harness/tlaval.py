"""Parser for TLA+ values as TLC prints them (state dumps, dot labels, PrintT output).

Supported: integers, strings, TRUE/FALSE, model values / identifiers, tuples <<..>>,
sets {..}, records [a |-> v, ...], functions (k :> v @@ k :> v), integer ranges a..b.
Records and functions become dict, tuples become tuple, sets become frozenset when
hashable else list.
"""
from __future__ import annotations


class ModelValue(str):
    """A TLC model value / bare identifier."""

    def __repr__(self):
        return f"MV({str(self)})"


class _P:
    def __init__(self, s: str):
        self.s = s
        self.i = 0
        self.n = len(s)

    def ws(self):
        s, n = self.s, self.n
        while self.i < n and s[self.i] in " \t\r\n":
            self.i += 1

    def peek(self, k=1):
        return self.s[self.i:self.i + k]

    def expect(self, tok):
        self.ws()
        if not self.s.startswith(tok, self.i):
            raise ValueError(f"expected {tok!r} at {self.i}: {self.s[self.i:self.i+40]!r}")
        self.i += len(tok)

    def value(self):
        self.ws()
        s = self.s
        c = s[self.i]
        if c == '"':
            return self.string()
        if s.startswith("<<", self.i):
            self.i += 2
            items = self.seq(">>")
            return tuple(items)
        if c == "{":
            self.i += 1
            items = self.seq("}")
            try:
                return frozenset(items)
            except TypeError:
                return list(items)
        if c == "[":
            self.i += 1
            return self.record()
        if c == "(":
            self.i += 1
            return self.function()
        if c == "-" or c.isdigit():
            j = self.i + 1
            while j < self.n and s[j].isdigit():
                j += 1
            v = int(s[self.i:j])
            self.i = j
            self.ws()
            if s.startswith("..", self.i):
                self.i += 2
                hi = self.value()
                return frozenset(range(v, hi + 1))
            return v
        j = self.i
        while j < self.n and (s[j].isalnum() or s[j] in "_!"):
            j += 1
        if j == self.i:
            raise ValueError(f"unexpected {s[self.i:self.i+40]!r} at {self.i}")
        w = s[self.i:j]
        self.i = j
        if w == "TRUE":
            return True
        if w == "FALSE":
            return False
        return ModelValue(w)

    def string(self):
        s = self.s
        assert s[self.i] == '"'
        j = self.i + 1
        out = []
        while s[j] != '"':
            if s[j] == "\\":
                j += 1
                ch = s[j]
                out.append({"n": "\n", "t": "\t", "r": "\r", "f": "\f"}.get(ch, ch))
            else:
                out.append(s[j])
            j += 1
        self.i = j + 1
        return "".join(out)

    def seq(self, close):
        items = []
        self.ws()
        if self.s.startswith(close, self.i):
            self.i += len(close)
            return items
        while True:
            items.append(self.value())
            self.ws()
            if self.s.startswith(close, self.i):
                self.i += len(close)
                return items
            self.expect(",")

    def record(self):
        d = {}
        self.ws()
        if self.peek() == "]":
            self.i += 1
            return d
        while True:
            self.ws()
            j = self.i
            while self.s[j].isalnum() or self.s[j] == "_":
                j += 1
            k = self.s[self.i:j]
            self.i = j
            self.expect("|->")
            d[k] = self.value()
            self.ws()
            if self.peek() == "]":
                self.i += 1
                return d
            self.expect(",")

    def function(self):
        d = {}
        while True:
            k = self.value()
            self.expect(":>")
            v = self.value()
            d[k] = v
            self.ws()
            if self.peek() == ")":
                self.i += 1
                return d
            self.expect("@@")


def parse(s: str):
    p = _P(s)
    v = p.value()
    p.ws()
    if p.i != p.n:
        raise ValueError(f"trailing input at {p.i}: {s[p.i:p.i+40]!r}")
    return v


def parse_state(s: str) -> dict:
    """Parse '/\\ x = 1\n/\\ y = <<>>' into {'x': 1, 'y': ()}."""
    p = _P(s)
    d = {}
    while True:
        p.ws()
        if p.i >= p.n:
            return d
        if p.s.startswith("/\\", p.i):
            p.i += 2
        p.ws()
        j = p.i
        while p.s[j].isalnum() or p.s[j] == "_":
            j += 1
        name = p.s[p.i:j]
        p.i = j
        p.expect("=")
        d[name] = p.value()


def to_py(v):
    """Convert parsed value into plain JSON-able Python (sets -> sorted lists)."""
    if isinstance(v, ModelValue):
        return str(v)
    if isinstance(v, (bool, int, str)):
        return v
    if isinstance(v, tuple):
        return [to_py(x) for x in v]
    if isinstance(v, (frozenset, list)):
        xs = [to_py(x) for x in v]
        try:
            return sorted(xs)
        except TypeError:
            return sorted(xs, key=repr)
    if isinstance(v, dict):
        if all(isinstance(k, int) for k in v) and v and sorted(v) == list(range(1, len(v) + 1)):
            return [to_py(v[k]) for k in sorted(v)]
        return {(str(k) if not isinstance(k, (tuple,)) else repr(to_py(k))): to_py(x) for k, x in v.items()}
    raise TypeError(type(v))


def to_tla(v) -> str:
    """Render a Python value as a TLA+ expression (for generated constants)."""
    if isinstance(v, bool):
        return "TRUE" if v else "FALSE"
    if isinstance(v, int):
        return str(v)
    if isinstance(v, str):
        return '"' + v.replace("\\", "\\\\").replace('"', '\\"') + '"'
    if isinstance(v, (list, tuple)):
        return "<<" + ", ".join(to_tla(x) for x in v) + ">>"
    if isinstance(v, (set, frozenset)):
        return "{" + ", ".join(to_tla(x) for x in sorted(v, key=repr)) + "}"
    if isinstance(v, dict):
        if not v:
            return "<<>>"
        return "[" + ", ".join(f"{k} |-> {to_tla(x)}" for k, x in v.items()) + "]"
    if v is None:
        return '"None"'
    raise TypeError(type(v))

"""C11: index files produced by ordinary C git commands (real stat data, index versions 2/3/4,
intent-to-add / skip-worktree / assume-unchanged bits, gitlinks, symlinks, merge conflicts with
missing stages, resolve-undo, cache-tree, untracked cache, end-of-index-entries, read-tree,
sparse-checkout with and without a sparse index, a larger index).

scenarios() yields (label, path of a copy of the index file, repository to run git in, sparse)."""
from __future__ import annotations

import os
import shutil


def scenarios(git, root, thorough=False, seed=0):
    repo = os.path.join(root, "scen")
    shutil.rmtree(repo, ignore_errors=True)
    git.run(["git", "init", "-q", "-b", "main", repo], cwd=root)
    brepo = os.fsencode(repo)
    count = [0]

    def g(*args, check=True, stdin=None, env=None):
        return git.run(["git", *args], cwd=repo, check=check, stdin=stdin, env=env)

    def put(name: bytes, data: bytes, mode=None):
        p = os.path.join(brepo, name)
        os.makedirs(os.path.dirname(p), exist_ok=True)
        with open(p, "wb") as f:
            f.write(data)
        if mode:
            os.chmod(p, mode)

    def snap(label, sparse=False):
        count[0] += 1
        dst = os.path.join(root, f"snap{count[0]}")
        shutil.copyfile(os.path.join(repo, ".git", "index"), dst)
        return (label, dst, repo, sparse)

    g("config", "core.quotepath", "false")
    g("config", "index.threads", "1")
    names = [b"a", b"a.txt", b"a0", b"dir/file", b"dir/sub/deep.txt", b"sp ace", b"\xff\xfe-latin1", b"uni-\xc3\xa9",
             b"other/x", b"other/y/z", b"new\nline", b"L" * 200 + b"/" + b"M" * 200 + b"/" + b"n" * 50, b"L" * 200 + b"/O"]
    for i, n in enumerate(names):
        put(n, b"content %d\n" % i * (i + 1))
    put(b"exec.sh", b"#!/bin/sh\n", 0o755)
    os.symlink(b"a", os.path.join(brepo, b"link"))
    g("add", "-A")
    yield snap("git add (default version)")
    for v in (4, 3, 2):
        g("update-index", "--index-version", str(v))
        yield snap(f"git update-index --index-version {v}")
    g("commit", "-q", "-m", "base")
    yield snap("after git commit (TREE)")
    # flag bits
    put(b"ita-file", b"x\n")
    g("add", "-N", "ita-file")
    g("update-index", "--skip-worktree", "a.txt")
    g("update-index", "--assume-unchanged", "dir/file")
    g("update-index", "--add", "--cacheinfo", "160000,1234567890123456789012345678901234567890,submod")
    yield snap("intent-to-add + skip-worktree + assume-unchanged + gitlink (v3)")
    g("update-index", "--index-version", "4")
    yield snap("intent-to-add + skip-worktree + assume-unchanged + gitlink (v4)")
    g("update-index", "--index-version", "2")
    g("update-index", "--no-skip-worktree", "a.txt")
    g("update-index", "--no-assume-unchanged", "dir/file")
    g("update-index", "--force-remove", "submod")
    g("rm", "-q", "--cached", "ita-file")
    os.unlink(os.path.join(repo, "ita-file"))
    yield snap("flags cleared again (back to v2)")
    # merge conflicts: modify/modify (1,2,3), modify/delete (1,3), delete/modify (1,2), add/add (2,3)
    g("checkout", "-q", "-b", "b1")
    put(b"a.txt", b"b1 version\n")
    put(b"both.txt", b"b1 both\n")
    put(b"dir/sub/deep.txt", b"b1 deep\n")
    g("rm", "-q", "dir/file")
    g("add", "-A")
    g("commit", "-q", "-m", "b1")
    g("checkout", "-q", "main")
    g("checkout", "-q", "-b", "b2")
    put(b"a.txt", b"b2 version\n")
    put(b"both.txt", b"b2 both\n")
    put(b"dir/file", b"b2 file\n")
    g("rm", "-q", "dir/sub/deep.txt")
    g("add", "-A")
    g("commit", "-q", "-m", "b2")
    g("merge", "-q", "b1", check=False)
    yield snap("merge conflict (stages 1-3, missing stages) v2")
    g("update-index", "--index-version", "4")
    yield snap("merge conflict v4")
    g("update-index", "--index-version", "2")
    put(b"a.txt", b"resolved\n")
    g("add", "a.txt")
    yield snap("one conflict resolved (REUC)")
    g("merge", "--abort", check=False)
    g("reset", "-q", "--hard", "b2")
    # read-tree
    g("read-tree", "HEAD")
    yield snap("git read-tree HEAD (TREE, zero stat)")
    g("read-tree", "--empty")
    yield snap("git read-tree --empty (no entries)")
    g("read-tree", "-m", "main", "b1", "b2", check=False)
    yield snap("git read-tree -m base ours theirs (three-way, unmerged)")
    g("reset", "-q", "--hard", "b2")
    # caches
    g("update-index", "--force-untracked-cache")
    put(b"untracked-file", b"u\n")
    g("status", "--porcelain")
    yield snap("untracked cache (UNTR)")
    g("update-index", "--no-untracked-cache")
    g("-c", "index.threads=4", "update-index", "--force-write")
    yield snap("index.threads=4 (EOIE)")
    g("update-index", "--force-write")
    # sparse checkout
    os.unlink(os.path.join(repo, "untracked-file"))
    g("sparse-checkout", "init", "--cone", "--no-sparse-index")
    g("sparse-checkout", "set", "dir")
    yield snap("sparse-checkout cone (skip-worktree entries)")
    g("update-index", "--index-version", "4")
    yield snap("sparse-checkout cone v4")
    g("update-index", "--index-version", "3")
    g("sparse-checkout", "init", "--cone", "--sparse-index")
    g("sparse-checkout", "reapply", "--sparse-index")
    yield snap("sparse-checkout --sparse-index (sdir, directory entries)", sparse=True)
    g("sparse-checkout", "disable")
    g("config", "index.sparse", "false")
    g("update-index", "--force-write")
    yield snap("sparse-checkout disabled again")
    # a larger index, shared prefixes, all versions
    import random
    rng = random.Random(seed + 11)
    n = 2500 if thorough else 300
    paths = set()
    while len(paths) < n:
        depth = rng.randint(1, 4)
        comps = [rng.choice(["src", "lib", "docs", "x" * 140, "t", "Z"]) for _ in range(depth - 1)] + ["f%05d" % rng.randrange(10**5)]
        paths.add("/".join(comps))
    lines = b"".join(b"100644 %040x 0\t%s\0" % (rng.getrandbits(159) + 1, p.encode()) for p in sorted(paths))
    for v in (2, 4):
        idx = os.path.join(root, f"bigidx{v}")
        if os.path.exists(idx):
            os.unlink(idx)
        git.run(["git", "update-index", "--index-version", str(v), "-z", "--index-info"], cwd=repo, index=idx, stdin=lines)
        count[0] += 1
        yield (f"update-index --index-info, {n} entries, v{v}", idx, repo, False)

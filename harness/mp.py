"""Real operating-system processes as actors (true parallelism).

The greenlet scheduler of sched.py explores interleavings exhaustively but only at the calls it
interposes.  This module is its complement: N forked worker processes run short scripts of
operations against the same directory at full speed, with random sub-millisecond pauses, and record
for every operation the CLOCK_MONOTONIC time just before the call and just after the return
(system-wide on Linux, so intervals of different processes are comparable).  The recorded history
is judged by the same TLA+ specifications as the scheduled ones (RefsLin for linearizability,
LockHist for mutual exclusion): an interval that is wider than the operation only makes a history
easier to explain, never harder, so a rejection is never an artefact of the measurement.

Workers are forked once and reused; each round gets a fresh directory."""
from __future__ import annotations

import multiprocessing as _mp
import os
import random
import time
import traceback

_ctx = _mp.get_context("fork")


def spin(rng, max_us=300):
    """busy-wait / yield for a random short time so that rounds differ"""
    r = rng.random()
    if r < 0.3:
        return
    if r < 0.5:
        os.sched_yield()
        return
    end = time.monotonic_ns() + int(rng.random() * max_us * 1000)
    while time.monotonic_ns() < end:
        pass


def _worker(a, conn, barrier, jobs):
    import gc
    gc.disable()
    while True:
        msg = conn.recv()
        if msg is None:
            return
        kind, args = msg
        try:
            out = jobs[kind](a, barrier, *args)
            conn.send(("ok", out))
        except BaseException as e:      # noqa: BLE001 -- reported to the parent, which decides
            try:
                barrier.abort()
            except Exception:
                pass
            conn.send(("err", f"{type(e).__name__}: {e}\n{traceback.format_exc()[-1500:]}"))


class Pool:
    """n forked workers; jobs = {name: fn(actor_index, barrier, *args) -> picklable}.  Fork happens here,
    so everything the jobs need must be importable/defined before the Pool is created."""

    def __init__(self, n, jobs):
        self.n = n
        self.barrier = _ctx.Barrier(n)
        self.conns, self.procs = [], []
        for a in range(n):
            pc, cc = _ctx.Pipe()
            p = _ctx.Process(target=_worker, args=(a, cc, self.barrier, jobs), daemon=True)
            p.start()
            cc.close()
            self.conns.append(pc)
            self.procs.append(p)

    def round(self, kind, per_actor_args, timeout=120):
        """run one job on every worker at once; returns the list of results (MachineryError on failure)."""
        from .core import MachineryError
        try:
            self.barrier.reset()
        except Exception:
            pass
        for a, c in enumerate(self.conns):
            c.send((kind, per_actor_args[a]))
        out = []
        for a, c in enumerate(self.conns):
            if not c.poll(timeout):
                self.close(kill=True)
                raise MachineryError(f"worker process {a} did not answer within {timeout}s")
            st, val = c.recv()
            if st != "ok":
                self.close(kill=True)
                raise MachineryError(f"worker process {a} failed: {val}")
            out.append(val)
        return out

    def close(self, kill=False):
        for c in self.conns:
            try:
                if not kill:
                    c.send(None)
            except Exception:
                pass
        for p in self.procs:
            p.join(timeout=0.5 if kill else 5)
            if p.is_alive():
                p.kill()
        self.conns, self.procs = [], []


def rank_times(records, keys=("c", "r")):
    """replace nanosecond timestamps by their rank (1..) over all records, in place; equal stamps share a rank"""
    ts = sorted({rec[k] for rec in records for k in keys})
    rk = {t: i + 1 for i, t in enumerate(ts)}
    for rec in records:
        for k in keys:
            rec[k] = rk[rec[k]]
    return records

"""C19: consumers of the pkt-line decoder for which an empty data packet (0004) is a legal element:
the long-running filter process protocol of dulwich/filters.py:ProcessFilterDriver, driven against a
scripted helper process.  Cases and expected results come from specs/StreamRdFilter.tla."""
from __future__ import annotations

import os
import sys
import threading

from .c19_lib import b, okind, outcome

SITE = "dulwich/filters.py:ProcessFilterDriver"

# The helper speaks the filter-process protocol.  What it answers is scripted by the caller:
# argv[1] = hex of the bytes of its half of the handshake; every request's content is the hex of the
# bytes it writes as the response.  It parses pkt-lines itself (nothing of dulwich is used).
HELPER = r'''
import sys
R, W = sys.stdin.buffer, sys.stdout.buffer

def read_exact(n):
    data = b""
    while len(data) < n:
        chunk = R.read(n - len(data))
        if not chunk:
            sys.exit(0)
        data += chunk
    return data

def read_list():
    out = []
    while True:
        n = int(read_exact(4), 16)
        if n == 0:
            return out
        out.append(read_exact(n - 4))

read_list()                                   # git-filter-client, version=2
W.write(bytes.fromhex(sys.argv[1])); W.flush()  # welcome, version, flush, capability list, flush
read_list()                                   # the client's capabilities
while True:
    read_list()                               # command=..., pathname=...
    script = b"".join(read_list())            # content = hex of the response to give
    W.write(bytes.fromhex(script.decode())); W.flush()
'''

def _enc(*items):
    """Independent pkt-line rendering for the helper's scripts (None = flush-pkt)."""
    return b"".join(b"0000" if x is None else b"%04x" % (len(x) + 4) + x for x in items)


PROBE = _enc(b"status=success", None, b"probe-ok", None, None)
PLAIN_HANDSHAKE = _enc(b"git-filter-server", b"version=2", None, b"capability=clean", b"capability=smudge", None)


class Env:
    """One helper process per handshake; restarted when a case left it out of step."""

    def __init__(self, ctx):
        self.dir = ctx.tmpdir("filter")
        self.helper = os.path.join(self.dir, "helper.py")
        with open(self.helper, "w") as f:
            f.write(HELPER)
        self.driver = None
        self.n = 0

    def start(self, handshake: bytes = PLAIN_HANDSHAKE):
        from dulwich.filters import ProcessFilterDriver
        self.stop()
        self.driver = ProcessFilterDriver(process_cmd=f"{sys.executable} {self.helper} {handshake.hex()}", required=True)
        return self.driver

    def stop(self):
        if self.driver is not None:
            try:
                self.driver.cleanup()
            except Exception:  # noqa: BLE001
                pass
            self.driver = None

    def call(self, response: bytes):
        """One request whose scripted answer is `response`; clean and smudge alternate."""
        from dulwich.filters import FilterError
        if self.driver is None:
            self.start()
        d = self.driver
        self.n += 1
        fn = (lambda: d.clean(response.hex().encode())) if self.n % 2 else (lambda: d.smudge(response.hex().encode(), b"p"))

        def kill():
            pr = getattr(d, "_process", None)
            if pr is not None:
                pr.kill()
        t = threading.Timer(20, kill)
        t.start()
        try:
            try:
                return ("ok", fn())
            except FilterError as e:
                return ("filtererr", str(e)[:80])
            except BaseException as e:  # noqa: BLE001
                if isinstance(e, (KeyboardInterrupt, SystemExit)):
                    raise
                return ("crash", f"{type(e).__name__}: {str(e)[:60]}")
        finally:
            t.cancel()


def where_empty(c):
    secs = [n for n, k in (("headers", "hdr"), ("content", "chunks"), ("final headers", "fin")) if [] in c[k]]
    return ("empty packet in " + "+".join(secs)) if secs else "no empty packet"


def check_filter_leaf(rep, c, env=None):
    """c = {scen, hdr, chunks, fin, bytes, st, content, ncaps}"""
    own = env is None
    if own:
        env = Env(rep.ctx)
    try:
        return _check(rep, c, env)
    finally:
        if own:
            env.stop()


def _check(rep, c, env):
    resp = b(c["bytes"])
    rp = {"kind": "filter", "case": c}
    site = f"{SITE}._use_process_filter"
    if c["scen"] == "handshake":
        # the capability list as scripted; then both operations must be available and in step
        env.start(resp)
        caps = [b(x) for x in c["hdr"]]
        o1, o2 = env.call(PROBE), env.call(PROBE)
        rep.say(f"handshake with capability list {caps}: first request {o1}, second {o2}")
        env.stop()
        if o1 != ("ok", b"probe-ok") or o2 != ("ok", b"probe-ok"):
            bad = o1 if o1 != ("ok", b"probe-ok") else o2
            rep.v(f"{SITE}._get_or_start_process", "TotalDecoder" if bad[0] == "crash" else "RoundTrip",
                  f"capability list {'with' if b'' in caps else 'without'} an empty packet -> {okind(bad) if bad[0] != 'ok' else 'wrong content'}",
                  f"filter process announces {caps} then flush-pkt: clean/smudge requests gave {o1}, {o2}; both capabilities are announced", rp)
        return 2
    want = ("ok", b(c["content"])) if c["st"] == "ok" else ("filtererr",)
    o = env.call(resp)
    probe = env.call(PROBE)
    lists = f"headers {[b(x) for x in c['hdr']]}, content packets {[b(x) for x in c['chunks']]}, final headers {[b(x) for x in c['fin']]}"
    rep.say(f"response {resp!r} ({lists}) -> {o}; next request -> {probe}; the reference says {want}")
    good = o[:1] == want[:1] and (o[0] != "ok" or o[1] == want[1])
    if good and probe == ("ok", b"probe-ok"):
        return 2
    env.start()           # whatever happened, the next case starts on a fresh process
    if o[0] == "crash":
        rep.v(site, "TotalDecoder", f"{where_empty(c)} -> {okind(o)}", f"filter response with {lists}: {o[1]}; the reference says {want}", rp)
    elif not good:
        chunks = [b(x) for x in c["chunks"]]
        if o[0] == "ok" and want[0] == "ok" and b"" in chunks and o[1] == b"".join(chunks[:chunks.index(b"")]):
            how = "content cut at the empty packet"
        elif o[0] == "ok" and want[0] == "ok":
            how = "wrong content"
        else:
            how = f"{o[0]} instead of {want[0]}"
        rep.v(site, "RoundTrip", f"{where_empty(c)} -> {how}", f"filter response with {lists}: got {o}, the reference says {want}", rp)
    else:
        rep.v(site, "RoundTrip", f"{where_empty(c)} -> stream out of step for the next request",
              f"filter response with {lists} was read as {o}, but the next request on the same process gave {probe}", rp)
    return 2

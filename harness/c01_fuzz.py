"""C01 child tasks that produce (field values, bytes) pairs for TLC to judge (ObjGrammarTrace):

 task "fuzz":    seeded random objects well inside and at the edges of the canonical grammar are built
                 on the real classes, serialised, named, parsed back and edited in one field; every
                 (fields, as_raw_string()) pair is written as a trace line; names are compared with
                 hashlib and parsed fields with the generated ones here.
 task "gitobjs": objects written by C git (mktree, commit-tree, tag -a, mktag) are parsed, compared
                 with the field values git was given, re-serialised and named.
"""
from __future__ import annotations

import json
import random

from . import c01_lib as L
from .c01_exec import diff_fields, impl_exc, mk_commit, mk_tag, rd_commit, rd_tag, set_attr

RESERVED = {b"tree", b"parent", b"author", b"committer", b"encoding", b"mergetag", b"gpgsig"}
MODES = [0o100644, 0o100755, 0o100664, 0o120000, 0o40000, 0o160000]
TIMES = [0, 1, 59, 1234567890, 2 ** 31 - 1, 2 ** 31, 2 ** 32, 10 ** 9, 10 ** 9 + 7, 10 ** 18, 2 ** 40, 2 ** 62, 2 ** 63 - 1, -1,
         -2 ** 31, -10 ** 9]


class Gen:
    def __init__(self, rng, algo):
        self.r = rng
        self.algo = algo

    def bytes_(self, lo, hi, exclude=b"\n"):
        r = self.r
        n = r.randint(lo, hi)
        out = bytearray()
        while len(out) < n:
            k = r.random()
            if k < 0.6:
                c = r.choice(b"abcXYZ019 _-.,:;/@+=~#")
            elif k < 0.8:
                c = r.choice(b" \t<>\"'\\\x01\x7f\r")
            else:
                c = r.randrange(128, 256)
            if c in exclude:
                continue
            out.append(c)
        return bytes(out)

    def hex(self):
        n = 40 if self.algo == "sha1" else 64
        return "".join(self.r.choice("0123456789abcdef") for _ in range(n)).encode()

    def ident(self):
        name = self.bytes_(0, 12, exclude=b"\n\0<>")
        email = self.bytes_(0, 12, exclude=b"\n\0<> ")
        return name + b" <" + email + b">"

    def time(self):
        r = self.r
        if r.random() < 0.6:
            return r.choice(TIMES)
        return r.randrange(-2 ** 40, 2 ** 63)

    def tz(self):
        r = self.r
        k = r.random()
        if k < 0.15:
            return 0, True
        if k < 0.3:
            return 0, False
        off = r.randrange(0, 100) * 3600 + r.randrange(0, 60) * 60
        return (off if r.random() < 0.5 else -off), False

    def text(self, maxlines=4, allow_none=True, marker_free=False):
        r = self.r
        if allow_none and r.random() < 0.15:
            return None
        lines = [self.bytes_(0, 14) for _ in range(r.randint(1, maxlines))]
        if marker_free:
            lines = [l.replace(b"-----BEGIN", b"-----begin") for l in lines]
        if r.random() < 0.6:
            lines.append(b"")
        return b"\n".join(lines)

    def sig(self, kind=None):
        r = self.r
        kind = kind or r.choice(["PGP", "SSH"])
        body = [self.bytes_(1, 20, exclude=b"\n ") for _ in range(r.randint(1, 3))]
        lines = [b"-----BEGIN %s SIGNATURE-----" % kind.encode()] + ([b""] if kind == "PGP" else []) + body + [b"-----END %s SIGNATURE-----" % kind.encode()]
        return b"\n".join(lines)

    def tag(self, signed=None):
        r = self.r
        has = r.random() < 0.8
        tz = self.tz()
        signed = (r.random() < 0.4) if signed is None else signed
        msg = self.text(marker_free=True, allow_none=not signed)
        if signed and not msg.endswith(b"\n"):
            msg += b"\n"
        return {"object": (r.choice(["commit", "tree", "blob", "tag"]), self.hex()),
                "name": self.bytes_(1, 12, exclude=b"\n"),
                "tagger": self.ident() if has else None, "tag_time": self.time() if has else None,
                "tag_timezone": tz[0] if has else None, "tag_timezone_neg_utc": tz[1] if has else False,
                "message": msg, "signature": (self.sig() + b"\n") if signed else None}

    def key(self):
        while True:
            k = self.bytes_(1, 10, exclude=b"\n \0")
            if k not in RESERVED:
                return k

    def commit(self):
        r = self.r
        atz, ctz = self.tz(), self.tz()
        return {"tree": self.hex(), "parents": [self.hex() for _ in range(r.choice([0, 1, 1, 2, 3, 5]))],
                "author": self.ident(), "author_time": self.time(), "author_timezone": atz[0], "author_timezone_neg_utc": atz[1],
                "committer": self.ident(), "commit_time": self.time(), "commit_timezone": ctz[0], "commit_timezone_neg_utc": ctz[1],
                "encoding": self.bytes_(1, 10) if r.random() < 0.3 else None,
                "mergetag": [self.tag(signed=True) for _ in range(r.choice([0, 0, 0, 1, 2]))],
                "extra": [(self.key(), self.text(allow_none=False)) for _ in range(r.choice([0, 0, 1, 2, 3]))],
                "gpgsig": self.sig() if r.random() < 0.3 else None,
                "message": self.text(maxlines=5)}

    def tree(self):
        r = self.r
        names = set()
        stems = [self.bytes_(1, 4, exclude=b"\0/") for _ in range(3)]
        for _ in range(r.randint(0, 8)):
            if r.random() < 0.6:
                s = r.choice(stems)
                n = s + r.choice([b"", b".", b"-", b"0", b"a", b"\xff", b" ", b".c", b"\x01"])
            else:
                n = self.bytes_(1, 6, exclude=b"\0/")
            names.add(n)
        return [(n, r.choice(MODES), self.hex()) for n in names]

    def blob(self):
        return [self.bytes_(0, 20, exclude=b"") for _ in range(self.r.randint(0, 4))]


def fmt_of(algo):
    from dulwich.object_format import SHA1, SHA256
    return SHA1 if algo == "sha1" else SHA256


def ids_ok(o, kind, algo, body):
    return o.id == L.H("sha1", kind, body) and o.get_id(fmt_of(algo)) == L.H(algo, kind, body)


def mk_tree(entries, algo, rng=None):
    from dulwich.objects import Tree
    t = Tree()
    t.object_format = fmt_of(algo)
    es = list(entries)
    if rng:
        rng.shuffle(es)
    for (n, m, h) in es:
        t.add(n, m, h)
    return t


def run_fuzz(job):
    from dulwich import objects as O
    rng = random.Random(f"{job['seed']}/fuzz/{job['shard']}/{job['mode']}")
    out = {"n": {"objects": 0, "traces": 0}, "fail": [], "meta": {}}
    tid = job["shard"] * 10_000_000
    with open(job["traces"], "w") as tf:
        def emit(kind, case, obs, what, F):
            nonlocal tid
            tid += 1
            tf.write(json.dumps({"tid": tid, "kind": kind, "c": case, "obs": list(obs)}, separators=(",", ":")) + "\n")
            out["n"]["traces"] += 1
            if len(out["meta"]) < 200000:
                out["meta"][str(tid)] = {"what": what, "kind": kind, "n": out["n"]["objects"], "algo": algo, "shard": job["shard"]}
            return tid

        def fail(site, clause, kind, note, F):
            out["fail"].append({"site": site, "clause": clause, "kind": kind, "n": out["n"]["objects"], "shard": job["shard"],
                                "algo": algo, "mode": job["mode"], "note": note[:300], "fields": L.jsonable(F)})
        for i in range(job["count"]):
            algo = L.ALGOS[i % 2]
            g = Gen(rng, algo)
            kind = ["commit", "commit", "tag", "tree", "tree", "blob"][i % 6] if job["mode"] == "py" else "tree"
            out["n"]["objects"] += 1
            try:
                if kind in ("commit", "tag"):
                    F = g.commit() if kind == "commit" else g.tag()
                    mk, rd, cls = (mk_commit, rd_commit, O.Commit) if kind == "commit" else (mk_tag, rd_tag, O.Tag)
                    mkcase = L.commit_case if kind == "commit" else L.tag_case
                    site = f"dulwich/objects.py:{cls.__name__}"
                    o = mk(F, rng)
                    b = o.as_raw_string()
                    emit(kind, mkcase(F), b, "build", F)
                    if not ids_ok(o, kind, algo, b):
                        fail(site + "._serialize", "id-not-hash-of-content", kind, "built object", F)
                    p = cls.from_string(b)
                    d = diff_fields(kind, F, rd(p))
                    if d:
                        fail(site + "._deserialize", "parse-fields:" + ",".join(d), kind, repr({k: rd(p)[k] for k in d}), F)
                    # one-field edit of the parsed object
                    p.id
                    F2 = dict(F)
                    G2 = g.commit() if kind == "commit" else g.tag()
                    attrs = L.COMMIT_ATTRS if kind == "commit" else L.TAG_ATTRS
                    f = rng.choice(sorted(k for k, v in attrs.items() if v is not None))
                    if kind == "tag" and f in ("ttime", "ttz"):
                        f = "tagger"          # time and zone only exist together with a tagger
                    for a in attrs[f]:
                        F2[a] = G2[a]
                    for a in attrs[f]:
                        set_attr(p, kind, a, F2)
                    b2 = p.as_raw_string()
                    emit(kind, mkcase(F2), b2, f"edit:{f}", F2)
                    if not ids_ok(p, kind, algo, b2):
                        fail(site + "._serialize", f"id-not-hash-of-content-after-edit:{f}", kind, "edited object", F2)
                    d = diff_fields(kind, F2, rd(cls.from_string(b2)))
                    if d:
                        fail(site + "._deserialize", "reparse-fields-after-edit:" + ",".join(d), kind, "", F2)
                elif kind == "tree":
                    ents = g.tree()
                    t = mk_tree(ents, algo, rng)
                    b = t.as_raw_string()
                    site = "dulwich/objects.py:Tree" if job["mode"] == "py" else "crates/objects/src/lib.rs"
                    emit("tree", L.tree_case(ents), b, "build", ents)
                    if not ids_ok(t, "tree", algo, b):
                        fail(site, "id-not-hash-of-content", "tree", "", {"entries": ents})
                    p = O.ShaFile.from_raw_string(2, b, object_format=fmt_of(algo))
                    if {n: v for n, v in p._entries.items()} != {n: (m, h) for (n, m, h) in ents}:
                        fail(site, "parse-fields", "tree", repr(p.items())[:200], {"entries": ents})
                    if [tuple(x) for x in p.items()] != [tuple(x) for x in t.items()]:
                        fail(site, "items-order", "tree", "", {"entries": ents})
                    # edit: delete / add / change mode of one entry
                    p.id
                    ents2 = list(ents)
                    if ents2 and rng.random() < 0.6:
                        j = rng.randrange(len(ents2))
                        n, m, h = ents2[j]
                        if rng.random() < 0.5:
                            del p[n]
                            ents2.pop(j)
                        else:
                            m2 = rng.choice(MODES)
                            p[n] = (m2, h)
                            ents2[j] = (n, m2, h)
                    else:
                        n = g.bytes_(1, 5, exclude=b"\0/")
                        if n not in p:
                            e = (n, rng.choice(MODES), g.hex())
                            p.add(*e)
                            ents2.append(e)
                    b2 = p.as_raw_string()
                    emit("tree", L.tree_case(ents2), b2, "edit", ents2)
                    if not ids_ok(p, "tree", algo, b2):
                        fail(site, "id-not-hash-of-content-after-edit", "tree", "", {"entries": ents2})
                else:
                    chunks = g.blob()
                    bl = O.Blob()
                    bl.chunked = list(chunks)
                    b = bl.as_raw_string()
                    emit("blob", L.blob_case(chunks), b, "build", chunks)
                    if not ids_ok(bl, "blob", algo, b):
                        fail("dulwich/objects.py:Blob", "id-not-hash-of-content", "blob", "", {"chunks": chunks})
                    bl.id
                    c2 = g.blob()
                    bl.data = b"".join(c2)
                    b2 = bl.as_raw_string()
                    emit("blob", L.blob_case(c2), b2, "edit:data", c2)
                    if not ids_ok(bl, "blob", algo, b2):
                        fail("dulwich/objects.py:Blob.data", "id-not-hash-of-content-after-edit", "blob", "", {"chunks": c2})
            except Exception as e:  # noqa: BLE001
                import traceback
                if not impl_exc(e):
                    raise
                fail(f"dulwich/objects.py:{kind}", f"exception:{type(e).__name__}", kind, traceback.format_exc()[-300:], {})
    return out


def run_gitobjs(job):
    """job["objects"]: file with one JSON per line {kind, algo, fields (jsonable), bytes (latin-1), id}."""
    from dulwich import objects as O
    out = {"n": {"objects": 0}, "fail": []}
    with open(job["objects"]) as f:
        for line in f:
            rec = json.loads(line)
            kind, algo = rec["kind"], rec["algo"]
            b = rec["bytes"].encode("latin-1")
            F = L.unjson(rec["fields"])
            out["n"]["objects"] += 1

            def fail(clause, note=""):
                out["fail"].append({"site": f"dulwich/objects.py:{kind}", "clause": clause, "kind": kind, "algo": algo,
                                    "mode": job["mode"], "src": rec["src"], "note": note[:300], "bytes": rec["bytes"][:4000], "record": rec})
            try:
                o = O.ShaFile.from_raw_string(L.TYPE_NUM[kind], b, object_format=fmt_of(algo))
                if o.get_id(fmt_of(algo)) != rec["id"].encode():
                    fail("git-made:name-differs-from-git", f"{o.get_id(fmt_of(algo))} vs {rec['id']}")
                if kind in ("commit", "tag"):
                    rd = rd_commit if kind == "commit" else rd_tag
                    if kind == "commit":
                        F["mergetag"] = F.get("mergetag", [])
                        F["extra"] = [tuple(x) for x in F.get("extra", [])]
                    if kind == "tag":
                        F["object"] = tuple(F["object"])
                    d = diff_fields(kind, F, rd(o))
                    if d:
                        fail("git-made:parse-fields:" + ",".join(d), repr({k: rd(o)[k] for k in d}))
                    o.message = o.message
                elif kind == "tree":
                    ents = [tuple(x) for x in F["entries"]]
                    if {n: v for n, v in o._entries.items()} != {n: (m, h) for (n, m, h) in ents}:
                        fail("git-made:parse-fields", repr(o.items())[:200])
                    if o._entries:
                        n0 = next(iter(o._entries))
                        o[n0] = o[n0]
                if o.as_raw_string() != b:
                    fail("git-made:reserialise-differs", o.as_raw_string().decode("latin-1")[:300])
            except Exception as e:  # noqa: BLE001
                if not impl_exc(e):
                    raise
                fail(f"git-made:exception:{type(e).__name__}", str(e))
    return out


def run_job(job):
    if job.get("objects"):
        return run_gitobjs(job)
    return run_fuzz(job)

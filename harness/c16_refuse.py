"""C16 -- calls made while another process holds a lock (RefMapRefuse.tla).

TLC enumerates every case (placement of HEAD / two branches loose, packed or both; call; held lock:
packed-refs.lock or the .lock of one ref) and, for each, the two outcomes the contract allows with the
map and the reads each must show: REFUSED (the call raises; the map is the one before the call) and
DONE (the call returns; RefMap's Apply).  Every case is executed on a real DiskRefsContainer whose
placement was produced by real calls; the lock file is created the way another dulwich / git process
would (O_CREAT|O_EXCL), the call is made, the lock removed ("the other process gives up"), and this
container, a re-opened container and C git are compared with the successor state of the outcome seen.
"""
from __future__ import annotations

import os
import shutil

from . import tlaval, tlc
from .c16_backends import ABSENT, HEAD, DiskBackend, GitView, nm, result_matches
from .c16_replay import METHOD, entry, git_diffs, name_t, placement

NAMES = [("HEAD",), ("refs", "heads", "a"), ("refs", "heads", "b")]
KEYVARS = ("c", "loose", "packed", "held")


def load_cases(dump):
    """-> [(refused state text, done state text)] grouped by case without parsing the values."""
    if not dump.endswith(".dump") and os.path.exists(dump + ".dump"):
        dump += ".dump"
    groups = {}
    with open(dump, encoding="utf-8", errors="replace") as f:
        blocks, buf = [], []
        for line in f:
            if line.startswith("State "):
                if buf:
                    blocks.append("".join(buf))
                buf = []
            elif line.strip():
                buf.append(line)
        if buf:
            blocks.append("".join(buf))
    for b in blocks:
        if 'phase = "case"' in b:
            continue
        parts = {}
        for ch in ("\n" + b).split("\n/\\ ")[1:]:
            parts[ch.split(" = ", 1)[0].strip()] = ch
        key = "\n".join(parts[k] for k in KEYVARS)
        groups.setdefault(key, {})["refused" if 'phase = "refused"' in b else "done"] = b
    out = []
    for key in sorted(groups):
        g = groups[key]
        if "refused" not in g or "done" not in g:
            raise RuntimeError("RefMapRefuse dump: a case without both outcomes")
        out.append((g["refused"], g["done"]))
    return out


def _maps(st):
    loose = {name_t(n): entry(e) for n, e in st["loose"].items()}
    packed = {name_t(n): entry(e) for n, e in st["packed"].items()}
    want = {name_t(n): entry(e) for n, e in st["want"].items()}
    get = {name_t(n): str(v) for n, v in st["shown"]["get"].items()}
    has = {name_t(n): bool(v) for n, v in st["shown"]["has"].items()}
    return loose, packed, want, get, has


def build(be, loose, packed):
    """Reach the placement with real calls; -> True if the directory then is exactly the placement."""
    c, ids = be.c, be.objs.ids
    pk = [n for n in NAMES if packed[n] != ABSENT]
    for n in pk:
        c[nm(n)] = ids[packed[n][1]]
    if pk:
        c.pack_refs(all=True)
    for n in NAMES[1:] + NAMES[:1]:
        e = loose[n]
        if e[0] == "direct":
            c[nm(n)] = ids[e[1]]
        elif e[0] == "sym":
            c.set_symbolic_ref(nm(n), nm(e[1]))
    l, p, _ = be.state()
    if l == loose and p == packed:
        return True
    for n in NAMES:                       # (a write of the value already packed may be skipped: place the file)
        e = loose[n]
        if e[0] == "direct" and l[n] != e:
            path = os.path.join(be.root, *n)
            os.makedirs(os.path.dirname(path), exist_ok=True)
            with open(path, "wb") as f:
                f.write(ids[e[1]] + b"\n")
    be.reopen()
    l, p, _ = be.state()
    return l == loose and p == packed


def lock_path(be, held):
    return os.path.join(be.root, *held) + ".lock"


def _cls(want, got, pre_packed):
    if got == want:
        return "same"
    if got == "KeyError":
        return "absent"
    if pre_packed and got == pre_packed:
        return "stale-packed-value"
    return "other-value" if got.startswith("v") else got


def execute(be, gv, st, form_alt):
    """One case on the real container.  -> dict(outcome, got, views) ; views: name -> api dict / git view."""
    loose, packed, _, _, _ = _maps(st)
    if not build(be, loose, packed):
        return None
    c = st["c"]
    held = name_t(st["held"])
    lp = lock_path(be, held)
    fd = os.open(lp, os.O_CREAT | os.O_EXCL | os.O_WRONLY, 0o644)
    os.close(fd)
    be.nstep = 1 if form_alt else 0
    try:
        got, is_oserr, form = be.call(str(c["op"]), name_t(c["n"]), str(c["old"]), str(c["v"]), name_t(c["t"]))
    finally:
        lock_left = os.path.lexists(lp)
        if lock_left:
            os.unlink(lp)
    out = {"got": got, "is_oserr": is_oserr, "form": form, "lock_removed_by_call": not lock_left, "views": {}}
    out["views"]["container"] = be.api()
    sc = be.scan()
    out["scan"] = sc
    be.reopen()
    out["views"]["reopened"] = be.api()
    if gv is not None and (got.startswith("exc:") or held == ("packed-refs",)):
        # (C git's view of completed calls is compared on every transition of the RefMapFiles graph already)
        out["git"] = gv.view(sc, be.fingerprint(sc))
    return out


def judge(be, st_refused, st_done, ex):
    """-> [(clause, case, what)]: the property clauses the real outcome fails."""
    c = st_done["c"]
    op, n = str(c["op"]), name_t(c["n"])
    held = name_t(st_done["held"])
    loose, packed, _, _, _ = _maps(st_done)
    raised = ex["got"].startswith("exc:")
    want_res = str(st_done["res"])
    # an exception the contract itself prescribes is a result, not a refusal (none arises in this universe)
    refused = raised and want_res in ("True", "False", "None")
    st = st_refused if refused else st_done
    _, _, want, get, has = _maps(st)
    tgt = n if n else None
    hk = "packed-refs.lock" if held == ("packed-refs",) else ("own.lock" if held == n else
                                                              ("head-target.lock" if loose[HEAD] == ("sym", held) and n == HEAD else "other.lock"))
    pl = placement(loose, packed, n) if tgt else "-"
    base = f"op={METHOD[op]}{'[]' if ex['form'] == 'item' else ''}{'(cond)' if str(c['old']) != 'ANY' else ''} name={pl} held={hk}"
    clause = "refused-unchanged" if refused else "held-lock-completed"
    out = []
    if ex["lock_removed_by_call"]:
        out.append(("foreign-lock-removed", base, f"{METHOD[op]} removed {'/'.join(held)}.lock, which another process held"))
    if not refused and not result_matches(want_res, ex["got"], ex["is_oserr"], ex["form"]):
        out.append((clause, f"{base} result want={want_res} got={ex['got']}",
                    f"{METHOD[op]} under a held {hk} returned {ex['got']}; the contract says {want_res}"))
    ids = be.objs.ids
    order = ([n] if n in NAMES else []) + [x for x in NAMES if x != n]       # the call's own name first
    for vname, api in ex["views"].items():
        for x in order:
            g = api["get"][x]
            if g != get[x]:
                pp = packed[x][1] if packed[x] != ABSENT else None
                out.append((clause, f"{base} view={vname} read {'target' if x == n else 'other-ref'} got={_cls(get[x], g, pp)}",
                            f"after {METHOD[op]}({'/'.join(n)}) -> {ex['got']} under a held {hk}, {vname} reads {'/'.join(x)} as {g}; "
                            f"the map says {get[x]} (before the call: loose {loose[x]}, packed {packed[x]})"))
            if api["contains"][x] != has[x]:
                out.append((clause, f"{base} view={vname} contains {'target' if x == n else 'other-ref'} got={api['contains'][x]}",
                            f"after {METHOD[op]}({'/'.join(n)}) -> {ex['got']}, `{'/'.join(x)} in refs` is {api['contains'][x]} in {vname}; the map says {has[x]}"))
        wd = {x: v for x, v in get.items() if v in ids}
        if api["as_dict"] != wd:
            out.append((clause, f"{base} view={vname} as_dict", f"as_dict() of {vname} is {api['as_dict']}; the map says {wd}"))
        ws = {x: e[1] for x, e in want.items() if e[0] == "sym"}
        if api["symrefs"] != ws:
            out.append((clause, f"{base} view={vname} symrefs", f"get_symrefs() of {vname} is {api['symrefs']}; the map says {ws}"))
    if "git" in ex:
        nop = {x: ABSENT for x in NAMES}
        for gclause, case, what in git_diffs(be.objs, ex["git"], get, want, nop):
            out.append((clause, f"{base} view=git {gclause} {case}", f"after {METHOD[op]}({'/'.join(n)}) -> {ex['got']} under a held {hk}: {what}"))
    return out, refused


def worker(args):
    """-> dict(findings=[(sig, what, replay)], cases, refused, validated, unbuilt, nontrivial)"""
    wid, pairs, objs, scratch, use_git = args
    sc = os.path.join(scratch, f"rf-{wid}")
    os.makedirs(sc, exist_ok=True)
    gv = GitView(objs, sc) if use_git else None
    res = {"findings": [], "cases": 0, "refused": 0, "validated": 0, "unbuilt": 0, "nontrivial": [], "sample": None,
           "by_op": {}}
    seen = {}
    for i, (tr, td) in enumerate(pairs):
        st_r, st_d = tlaval.parse_state(tr), tlaval.parse_state(td)
        be = DiskBackend(objs, NAMES, os.path.join(sc, "repo"))
        try:
            ex = execute(be, gv, st_d, (i + wid) % 2 == 1)
            if ex is None:
                res["unbuilt"] += 1
                continue
            res["cases"] += 1
            fails, refused = judge(be, st_r, st_d, ex)
        finally:
            be.close()
        c = st_d["c"]
        key = (str(c["op"]), "/".join(name_t(c["n"])), str(c["old"]), str(c["v"]), "/".join(name_t(c["t"])),
               "/".join(name_t(st_d["held"])), str(sorted((k, v) for k, v in _maps(st_d)[0].items())),
               str(sorted((k, v) for k, v in _maps(st_d)[1].items())))
        if refused:
            res["refused"] += 1
            res["nontrivial"].append(key)
            res["by_op"][METHOD[str(c["op"])]] = res["by_op"].get(METHOD[str(c["op"])], 0) + 1
            if res["sample"] is None:
                res["sample"] = {"kind": "held-lock", "call": key[:5], "held": key[5], "outcome": ex["got"]}
        if not fails:
            res["validated"] += 1
        for clause, case, what in fails[:1]:      # one signature per case: the first (most specific) failed clause
            sig = f"{be.site}|{clause}|{case}"
            if sig in seen:
                continue
            seen[sig] = 1
            loose, packed, _, _, _ = _maps(st_d)
            res["findings"].append((sig, what, {
                "backend": "disk", "kind": "refuse", "clause": clause, "case": case,
                "loose": _ser(loose), "packed": _ser(packed), "held": "/".join(name_t(st_d["held"])) + ".lock",
                "call": {k: ("/".join(v) if isinstance(v, tuple) else str(v)) for k, v in c.items()},
                "form": ex["form"], "outcome": ex["got"], "states": [tr, td]}))
    shutil.rmtree(sc, ignore_errors=True)
    return res


def _ser(m):
    return {"/".join(k): (v[1] if v[0] == "direct" else "ref: " + "/".join(v[1])) for k, v in m.items() if v != ABSENT}


def replay_case(objs, scratch, use_git, obj):
    tr, td = obj["states"]
    gv = GitView(objs, scratch) if use_git else None
    st_r, st_d = tlaval.parse_state(tr), tlaval.parse_state(td)
    be = DiskBackend(objs, NAMES, os.path.join(scratch, "repo"))
    try:
        ex = execute(be, gv, st_d, obj.get("form") == "item")
        fails, refused = judge(be, st_r, st_d, ex) if ex else ([], False)
    finally:
        be.close()
    print(f"  placement loose={obj['loose']} packed={obj['packed']}; {obj['held']} held; call {obj['call']} -> "
          f"{ex['got'] if ex else 'placement not reached'} ({'refused' if refused else 'completed'})")
    return [(f"{be.site}|{clause}|{case}", what) for clause, case, what in fails]

"""C19: executions recorded from the real code and judged by TLC (StreamRdTrace, StreamRdPackTrace);
C git as third party."""
from __future__ import annotations

import hashlib
import json
import os
import shutil
import subprocess
import sys
from concurrent.futures import ThreadPoolExecutor
from io import BytesIO

from . import tlc
from .c19_lib import P, RecHash, Wire, buffered, git_env, okind, outcome, rprotocol, split_frames
from .core import MachineryError


def frame_case_of(item):
    if item is None:
        return "frame=0000"
    if item == "delim":
        return "frame=0001"
    return "frame=0004" if len(item) == 0 else "frame=data"


# --------------------------------------------------------------------------- recording ReceivableProtocol
class RpRecorder:
    KIND = {"read": "bytes", "recv": "some"}

    def __init__(self, data: bytes, chunks, rbufsize):
        self.data = data
        self.w = Wire(data, chunks)
        self.p = rprotocol(self.w, rbufsize)
        self.ev, self.note, self.nlog = [], {}, 0
        self.last_line = None

    def op(self, t, n=0, note=""):
        self.ev.append(["op", t, n])
        fn = {"read": lambda: self.p.read(n), "recv": lambda: self.p.recv(n), "pkt": self.p.read_pkt_line,
              "eof": self.p.eof, "unread": lambda: self.p.unread_pkt_line(self.last_line)}[t]
        o = outcome(fn)
        for asked, k in self.w.log[self.nlog:]:
            self.ev.append(["rx", "", asked, k])
        self.nlog = len(self.w.log)
        kind, d = "-", b""
        if o[0] == "ok":
            v = o[1]
            if t in self.KIND:
                kind, d = self.KIND[t], v
            elif t == "pkt":
                kind, d = ("none", b"") if v is None else ("data", v)
                self.last_line = v
            elif t == "eof":
                kind = "true" if v else "false"
        st = o[0] if o[0] != "crash" else okind(o)
        self.ev.append(["ret", st, buffered(self.p) or 0, 0, kind, list(d)])
        self.note[len(self.ev)] = (t, n, note)
        return o

    def trace(self, tid):
        return {"tid": tid, "stream": list(self.data), "ev": self.ev}

    def meta(self, what, chunks, rbuf):
        return {"what": what, "notes": dict(self.note), "rbuf": rbuf, "chunks": chunks,
                "program": [self.note[k] for k in sorted(self.note)]}


def encode_items(items):
    from dulwich.protocol import pkt_line
    return b"".join(b"0001" if it == "delim" else pkt_line(it) for it in items)


def run_program(rec: RpRecorder, items, rng, mixed, tail_len):
    """The client: read the lines (sometimes peeking with eof(), sometimes unreading), then the raw tail."""
    for it in items:
        note = frame_case_of(it)
        if mixed and rng.random() < 0.3:
            if rec.op("eof", note=note)[0] != "ok":
                return
        o = rec.op("pkt", note=note)
        if o[0] != "ok":
            return
        if mixed and rng.random() < 0.25:
            rec.op("unread")
            if rec.op("pkt", note=note)[0] != "ok":
                return
    if tail_len:
        left = tail_len
        while left > 0:
            n = rng.choice([1, 2, 3, 5, 8, 13, 64, 1000])
            t = rng.choice(["read", "recv"])
            o = rec.op(t, n)
            if o[0] != "ok" or not o[1]:
                return
            left -= len(o[1])
        rec.op(rng.choice(["read", "recv"]), 4)        # at end of stream
    else:
        for _ in range(2):
            note = "eof"
            if mixed and rng.random() < 0.5:
                rec.op("eof", note=note)
            if rec.op("pkt", note=note)[0] != "ok":
                return


def random_chunks(rng, total, style):
    out, left = [], total
    while left > 0:
        if style == 0:
            k = 1
        elif style == 1:
            k = rng.randint(1, 4)
        elif style == 2:
            k = rng.choice([1, 2, 3, 4, 5, 7, 8, 16, 100, 4096])
        else:
            k = rng.choice([1, 4, 1000, 4095, 4096, 8192, 65515, 65516, 65519, 65520, 65536])
        k = min(k, left)
        out.append(k)
        left -= k
    return out


def validate(ctx, rep, spec, constants, traces, meta, label, sigfn):
    """Run TLC on a batch of traces; verdict per trace.  meta[tid] = replay info; sigfn(trace, meta, verdict, failAt)."""
    return judge(ctx, rep, run_tlc(ctx, spec, constants, traces, label), meta, sigfn)


def run_tlc(ctx, spec, constants, traces, label):
    if not traces:
        return None
    d = ctx.tmpdir("tr")
    path = os.path.join(d, "traces.ndjson")
    with open(path, "w") as f:
        for t in traces:
            f.write(json.dumps(t, separators=(",", ":")) + "\n")
    cfg = os.path.join(d, "trace.cfg")
    tlc.write_cfg(cfg, spec="TraceSpec", constants=constants)
    res = tlc.run(spec, cfg, workers=1, timeout=1500, env={"TRACE_FILE": path}, java_opts=["-Xmx6g"])
    shutil.rmtree(d, ignore_errors=True)
    return (spec, constants, traces, label, res)


def judge(ctx, rep, job, meta, sigfn):
    if job is None:
        return 0
    spec, constants, traces, label, res = job
    ctx.add_tlc(f"{spec[:-4]}[{label}: {len(traces)} recorded executions]", res, require_ok=False)
    verdicts = {}
    for line in res.output.splitlines():
        if line.startswith('<<"VERDICT"'):
            v = tlc.tlaval.parse(line.strip())
            verdicts[v[1]] = v
    if not res.completed or len(verdicts) != len(traces) or "Error:" in res.output:
        raise MachineryError(f"trace validation {label} incomplete ({len(verdicts)}/{len(traces)} verdicts)\n{res.output[-3000:]}")
    for t in traces:
        _, tid, verdict, fail_at, drift_at = verdicts[t["tid"]]
        if verdict != "ok":
            site, case, what = sigfn(t, meta[tid], verdict, fail_at)
            rep.v(site, verdict, case, what, {"kind": "trace", "spec": spec, "constants": constants, "trace": t, "meta": meta[tid],
                                             "clause": verdict, "fail_at": fail_at})
        elif drift_at:
            rep.drift(f"{label} trace {tid}: event {drift_at} {t['ev'][drift_at - 1][:5]} is not a step of {spec[:-9]}")
    return len(traces)


def rp_sig(t, m, verdict, fail_at):
    e = t["ev"][fail_at - 1]
    op, n, note = m["notes"].get(str(fail_at), m["notes"].get(fail_at, ("?", 0, "")))
    name = {"read": "ReceivableProtocol.read", "recv": "ReceivableProtocol.recv", "unread": "Protocol.unread_pkt_line"}.get(op, "ReceivableProtocol.read_pkt_line")
    got = e[1] if e[1] != "ok" else "wrong result"
    case = note if note.startswith("frame=") else f"{op}{n or ''} at {note or 'raw bytes'}"
    return (f"{P}:{name}", f"{case} -> {got}",
            f"recorded execution ({m['what']}): operation {op}({n or ''}) returned {e[1]}/{e[4]} ({len(e[5])} bytes); TLC: clause {verdict} at event {fail_at}")


def part_traces(ctx, rep):
    from hypothesis import HealthCheck, given, seed, settings
    from hypothesis import strategies as st
    rng = ctx.rng
    small, big, meta = [], [], {}
    tid = [0]

    def record(items, tail, cut, style, mixed, rbuf, bucket, what):
        data = encode_items(items) + tail
        if cut is not None:
            data = data[:cut % (len(data) + 1)]
        chunks = random_chunks(rng, len(data), style)
        rec = RpRecorder(data, chunks, rbuf)
        run_program(rec, items, rng, mixed, len(tail))
        tid[0] += 1
        bucket.append(rec.trace(tid[0]))
        meta[tid[0]] = rec.meta(what, chunks, rbuf)
        ctx.count()
        ctx.nontrivial(hash(("trace", data, tuple(rec.w.log))))

    payload = st.one_of(st.binary(min_size=1, max_size=12), st.binary(min_size=1, max_size=300), st.none(), st.just("delim"))
    nsmall = ctx.pick(220, 2500)

    @settings(max_examples=nsmall, derandomize=True, database=None, deadline=None, suppress_health_check=list(HealthCheck))
    @seed(ctx.seed)
    @given(st.lists(payload, max_size=6), st.binary(max_size=40), st.one_of(st.none(), st.integers(0, 2000)), st.integers(0, 2),
           st.booleans(), st.booleans())
    def small_cases(items, tail, cut, style, mixed, empty):
        if empty and items:
            items = list(items)
            items[len(items) // 2] = b""
        if cut is not None and rng.random() < 0.6:
            cut = None
        if any(it is None or it == "delim" for it in items[:-1]) and not mixed:
            tail = b""
        record(items, tail if mixed else b"", cut, style, mixed, 7, small, "hypothesis payload list, random partition")
    small_cases()
    # real-size frames at the boundaries, as the real encoder emits them
    from .props.c19 import pattern
    for sizes in ([65516], [65515, 1], [1, 65516, 2], [65516, 65516]) if ctx.quick else \
            ([65516], [65515, 1], [1, 65516, 2], [65516, 65516], [65514, 65515, 65516], [4092, 65516, 996], [65516] * 4):
        for style in ((3,) if ctx.quick else (3, 3, 2)):
            record([pattern(n) for n in sizes] + [None], b"", None, style, False, 65536, big, f"payloads of {sizes} bytes, random partition")
    ctx.sample({"kind": "trace", "what": meta[1]["what"], "stream_len": len(small[0]["stream"]), "events": small[len(small) // 2]["ev"][:14]}, limit=20)
    base = {"Scen": '"mixed"', "MaxOps": 1000000, "MaxItems": 0, "MaxLen": 0, "Gen": "FALSE", "EmptyReadAsserts": "FALSE"}
    with ThreadPoolExecutor(2) as ex:
        f1 = ex.submit(run_tlc, ctx, "StreamRdTrace.tla", {**base, "RBuf": 7}, small, "payload lists")
        f2 = ex.submit(run_tlc, ctx, "StreamRdTrace.tla", {**base, "RBuf": 65536}, big, "real-size frames")
        n = judge(ctx, rep, f1.result(), meta, rp_sig) + judge(ctx, rep, f2.result(), meta, rp_sig)
    ctx.validated(n)
    ctx.log(f"traces: {len(small)} + {len(big)} recorded ReceivableProtocol executions judged by TLC")


# --------------------------------------------------------------------------- recording PackStreamReader
def record_pack(tid, pack, chunks, rbufsize, zbuf, valid):
    from dulwich.errors import ChecksumMismatch
    from dulwich.pack import PackStreamReader
    w = Wire(pack, chunks)
    proto = rprotocol(w, rbufsize)
    called = [0]

    def cb(fn):
        def g(n):
            called[0] += 1
            return fn(n)
        return g
    psr = PackStreamReader(lambda: RecHash(20, hashlib.sha1), cb(proto.read), cb(proto.recv), zlib_bufsize=zbuf)
    h = psr.sha
    ev = []
    state = {"cons": 0}

    def hok():
        return bytes(h.fed) + bytes(psr._trailer) == pack[:psr._offset]

    def wrap(name, fn):
        def f(size):
            now = psr.offset
            if now < state["cons"]:
                ev.append(["push", state["cons"] - now, -1, [], psr._offset, len(psr._trailer), now, hok()])
            off0, c0 = psr._offset, called[0]
            data = fn(size)
            k = psr._offset - off0 if called[0] > c0 else -1
            ev.append([name, size, k, list(data), psr._offset, len(psr._trailer), psr.offset, hok()])
            state["cons"] = psr.offset
            return data
        return f
    psr.read = wrap("read", psr.read)
    psr.recv = wrap("recv", psr.recv)
    nobj = 0
    try:
        for _ in psr.read_objects():
            nobj += 1
        end = "ok"
    except ChecksumMismatch:
        end = "ChecksumMismatch"
    except Exception as e:  # noqa: BLE001
        end = type(e).__name__
    ev.append(["end", end, nobj])
    return {"tid": tid, "stream": list(pack), "valid": valid, "ev": ev}, w.log


def pack_sig(t, m, verdict, fail_at):
    e = t["ev"][fail_at - 1]
    if e[0] == "end":
        case = f"{'valid' if t['valid'] else 'corrupt trailer'} pack -> {e[1]}"
        return ("dulwich/pack.py:PackStreamReader.read_objects", case,
                f"pack of {len(t['stream'])} bytes made by C git, {m['what']}: read_objects() ended with {e[1]} after {e[2]} objects")
    return ("dulwich/pack.py:PackStreamReader._read", "hashed prefix / trailer wrong" if verdict == "TrailerExact" else f"{e[0]}: wrong bytes",
            f"pack of {len(t['stream'])} bytes, {m['what']}: after {e[0]}({e[1]}) _offset={e[4]} deque={e[5]} hashed-prefix-ok={e[7]}")


def small_pack(repo):
    env = git_env(os.path.dirname(repo))
    oids = subprocess.run(["git", "rev-parse", "HEAD", "v1", "HEAD:a.txt", "HEAD^{tree}"], cwd=repo, env=env, check=True,
                          capture_output=True, text=True).stdout
    p = subprocess.run(["git", "pack-objects", "--stdout", "-q"], cwd=repo, env=env, input=oids.encode(), check=True, capture_output=True)
    return p.stdout


def part_pack_traces(ctx, rep, repo):
    from dulwich.pack import PackStreamReader
    if repo is None or not all(hasattr(PackStreamReader, a) for a in ("read_objects", "offset")):
        ctx.log("pack traces skipped (no git or PackStreamReader API changed)")
        return
    pack = small_pack(repo)
    rng = ctx.rng
    traces, meta = [], {}
    n = ctx.pick(60, 600)
    for i in range(n):
        valid = i % 6 != 5
        data = pack
        if not valid:
            j = len(pack) - 1 - rng.randrange(20)
            data = pack[:j] + bytes([pack[j] ^ (1 << rng.randrange(8))]) + pack[j + 1:]
        style = i % 3
        zbuf = rng.choice([1, 3, 16, 64, 4096])
        rbuf = rng.choice([1, 5, 32, 65536])
        chunks = random_chunks(rng, len(data), style)
        t, log = record_pack(i + 1, data, chunks, rbuf, zbuf, valid)
        traces.append(t)
        meta[i + 1] = {"what": f"rbufsize {rbuf}, zlib_bufsize {zbuf}, partition style {style}", "chunks": chunks, "rbuf": rbuf, "zbuf": zbuf}
        ctx.count()
        ctx.nontrivial(hash(("packtrace", data, tuple(log), zbuf, rbuf)))
    ctx.sample({"kind": "pack-trace", "pack_len": len(pack), "what": meta[1]["what"], "events": [e[:3] + e[4:] for e in traces[0]["ev"][:10]]}, limit=20)
    nv = validate(ctx, rep, "StreamRdPackTrace.tla", {"N": 0, "HS": 20, "MaxOps": 1000000, "Sizes": "{}", "Gen": "FALSE", "HashAfterPop": "TRUE"},
                  traces, meta, "packs from C git", pack_sig)
    ctx.validated(nv)
    ctx.log(f"traces: {nv} recorded PackStreamReader.read_objects executions judged by TLC")


# --------------------------------------------------------------------------- report-status through the side band, end to end
def part_report_status(ctx, rep):
    """server.py:ReceivePackHandler._report_status (BufferedPktLineWriter -> write_sideband) read back by
    client.py:_handle_receive_pack_tail (read_pkt_seq -> _read_side_band64k_data -> PktLineParser) under
    random partitions.  Private entry points: if they moved, this part is skipped with a drift note."""
    try:
        from dulwich.client import LocalGitClient, ReportStatusParser
        from dulwich.protocol import Protocol
        from dulwich.repo import MemoryRepo
        from dulwich.server import DictBackend, ReceivePackHandler

        def server_bytes(status, sideband):
            w = []
            h = ReceivePackHandler(DictBackend({b"/": MemoryRepo()}), [b"/"], Protocol(None, w.append))
            h.set_client_capabilities([b"report-status", b"delete-refs", b"ofs-delta"] + ([b"side-band-64k"] if sideband else []))
            h._report_status(status)
            return b"".join(w)

        def client_read(data, chunks, rbuf, sideband):
            c = LocalGitClient()
            c._report_status_parser = ReportStatusParser()
            c.protocol_version = 0
            return c._handle_receive_pack_tail(rprotocol(Wire(data, chunks), rbuf),
                                               {b"report-status"} | ({b"side-band-64k"} if sideband else set()), None)
        for sb in (True, False):
            if client_read(server_bytes([(b"unpack", b"ok"), (b"r", b"ok")], sb), None, 65536, sb) != {b"r": None}:
                raise ValueError("unexpected result of the smoke run")
    except Exception as e:  # noqa: BLE001
        rep.drift(f"report-status path not exercised: {type(e).__name__}: {e}")
        return
    rng = ctx.rng
    n = 0
    for nrefs in ctx.pick([0, 3, 2500], [0, 1, 3, 40, 1600, 2500, 6000]):
        status = [(b"unpack", b"ok")] + [(b"refs/heads/b%05d" % i, b"ok" if i % 3 else b"failed to write") for i in range(nrefs)]
        want = {r: (None if m == b"ok" else m.decode()) for (r, m) in status[1:]}
        for sideband in (True, False):
            o = outcome(server_bytes, status, sideband)
            rp = {"kind": "none", "nrefs": nrefs, "sideband": sideband}
            site = "dulwich/server.py:ReceivePackHandler._report_status"
            if o[0] != "ok":
                rep.v(site, "TotalEncoder", f"-> {okind(o)}", f"{nrefs} ref statuses, side-band {sideband}: {o}", rp)
                continue
            data = o[1]
            try:
                frames = split_frames(data)
                bad = [len(pl) + 4 for (_, pl) in frames if pl is not None and len(pl) + 4 > 65520]
            except ValueError as e:
                frames, bad = None, [str(e)]
            if bad:
                rep.v(site, "NoMalformedFrame", "report-status frames", f"{nrefs} ref statuses, side-band {sideband}: {bad[:3]}", rp)
                continue
            for style in ctx.pick((2, 3), (0, 1, 2, 3, 3, 2)):
                if style == 0 and len(data) > 20000:
                    continue
                chunks = random_chunks(rng, len(data), style)
                rbuf = rng.choice([7, 4096, 65536])
                r = outcome(client_read, data, chunks, rbuf, sideband)
                n += 1
                ctx.count()
                ctx.nontrivial(hash(("report-status", nrefs, sideband, tuple(chunks[:2000]), rbuf)))
                if r != ("ok", want):
                    got = r if r[0] != "ok" else f"{len(r[1])} statuses, first difference {next(((k, v, want.get(k)) for k, v in r[1].items() if want.get(k, 0) != v), None)}"
                    rep.v("dulwich/client.py:GitClient._handle_receive_pack_tail", "TotalDecoder" if r[0] == "crash" else "RoundTrip",
                          f"report-status side-band={sideband} -> {okind(r) if r[0] != 'ok' else 'wrong statuses'}",
                          f"{nrefs} ref statuses written by the server ({len(data)} bytes, {len(frames)} frames), read with rbufsize {rbuf}: {got}", rp)
            if nrefs == 2500 and sideband:
                ctx.cov["report_status_2500_refs"] = {"bytes": len(data), "outer_frames": len(frames), "largest_frame": max(len(pl or b"") + 4 for (_, pl) in frames)}
    # the status list as a consumer of the decoder: an empty packet (0004) among the statuses is a line that
    # says nothing, not the end of the list (only the flush-pkt is)
    from dulwich.protocol import pkt_line
    inner = pkt_line(b"unpack ok\n") + pkt_line(b"ok refs/heads/a\n") + pkt_line(b"") + pkt_line(b"ng refs/heads/b nope\n") + pkt_line(None)
    w = []
    Protocol(None, w.append).write_sideband(1, inner)
    for sideband, data in ((True, b"".join(w) + pkt_line(None)), (False, inner)):
        for style in (1, 2):
            r = outcome(client_read, data, random_chunks(rng, len(data), style), 7, sideband)
            n += 1
            ctx.count()
            if r != ("ok", {b"refs/heads/a": None, b"refs/heads/b": "nope"}):
                rep.v("dulwich/client.py:GitClient._handle_receive_pack_tail", "TotalDecoder" if r[0] == "crash" else "RoundTrip",
                      f"report-status with an empty packet, side-band={sideband} -> {okind(r) if r[0] != 'ok' else 'wrong statuses'}",
                      f"status list [unpack ok, ok a, <empty packet>, ng b nope, flush]: {r}", {"kind": "none"})
    ctx.validated(n)
    ctx.log(f"report-status: {n} server -> client executions under random partitions")


# --------------------------------------------------------------------------- C git as third party
def git_probe(repo, data):
    p = subprocess.run(["git", "upload-pack", repo], input=data, capture_output=True, env=git_env(os.path.dirname(repo)))
    err = p.stderr.decode("latin-1")
    if "bad line length character" in err:
        return ("badchar",)
    if "bad line length" in err:
        return ("badlen",)
    if "expected to get object ID, not '" in err:
        return ("data", err.split("not '", 1)[1].rsplit("'", 1)[0])
    if p.returncode == 0:
        return ("special",)
    return ("other", err[:100])


def part_git(ctx, rep, repo):
    if repo is None:
        ctx.assumptions.append("git not available: third-party comparisons skipped")
        return
    part_pack_traces(ctx, rep, repo)
    env = git_env(os.path.dirname(repo))
    from dulwich.protocol import _parse_pkt_line_length, pkt_line
    # ---- G1: the reference against git's own pkt-line reader (validates the specification), then dulwich
    hexs = b"0123456789abcdefABCDEF"
    nonhex = bytes([47, 58, 64, 71, 96, 103, 43, 45, 32, 120, 95, 10, 255])
    cands = set()
    for pos in range(4):
        for c in hexs + nonhex:
            base = bytearray(b"000a")
            base[pos] = c
            cands.add(bytes(base))
    cands |= {b"0000", b"0001", b"0002", b"0003", b"0004", b"0005", b"00FF", b"0Ff0", b"+00a", b"-00a", b"0x0a", b"0_0a", b" 00a", b"00a "}
    cands = sorted(cands)
    if ctx.quick:
        cands = cands[::2] + [b"0003", b"0004", b"+00a", b"000A"]
    with ThreadPoolExecutor(8) as ex:
        verdicts = list(ex.map(lambda pre: git_probe(repo, pre + b"P" * 70000), cands))
    verdicts = [v if v[0] != "data" or len(v[1]) < 2000 else ("data", "long") for v in verdicts]
    for pre, gv in zip(cands, verdicts):
        valid = all(c in hexs for c in pre)
        n = int(pre, 16) if valid else -1
        if n == 3:
            want = ("badlen",)
        elif 0 <= n <= 2:
            want = ("special",)
        elif n >= 4:
            want = ("data", "P" * (n - 4) if n - 4 < 2000 else "long")
        else:
            want = ("badchar",)
        if gv != want:
            raise MachineryError(f"the PktLine reference and C git disagree on the prefix {pre!r}: reference {want[:1]}, git {gv}")
        o = outcome(_parse_pkt_line_length, pre)
        if (o[0] == "ok") != valid or (valid and o[1] != n):
            rep.v(f"{P}:_parse_pkt_line_length", "LenPrefix", f"disagrees with C git on nonhex={'none' if valid else '0x%02x' % next(c for c in pre if c not in hexs)}",
                  f"prefix {pre!r}: C git says {gv[0]}, dulwich {o}", {"kind": "prefix", "case": {"prefix": list(pre), "n": n, "kind": "x", "frames": False}})
        ctx.count()
    ctx.validated(len(cands))
    ctx.cov["git_prefix_probes"] = len(cands)
    # ---- G2: git reads what dulwich's encoder wrote; dulwich decodes what git wrote, under partitions
    head = subprocess.run(["git", "rev-parse", "HEAD"], cwd=repo, env=env, check=True, capture_output=True, text=True).stdout.strip().encode()
    caps = [b"side-band-64k", b"ofs-delta", b"agent=dulwich-verif/1=2"]
    from .props.c19 import real_want_line
    want_line = real_want_line(head, caps) or (b"want " + head + b" " + b" ".join(sorted(caps)) + b"\n")
    request = pkt_line(want_line) + pkt_line(None) + pkt_line(b"done\n")
    p = subprocess.run(["git", "upload-pack", repo], input=request, capture_output=True, env=env)
    out = p.stdout
    if p.returncode != 0 or b"PACK" not in out:
        rep.v(f"{P}:pkt_line", "RoundTrip", "C git refuses a dulwich-encoded upload-pack request",
              f"request {request!r}: git upload-pack rc={p.returncode} {p.stderr[-200:]!r}", {"kind": "none"})
        return
    # independent view of git's output
    frames = split_frames(out)
    adv_end = next(i for i, (_, pl) in enumerate(frames) if pl is None)
    showref = subprocess.run(["git", "show-ref", "--head", "-d"], cwd=repo, env=env, check=True, capture_output=True).stdout
    want_refs = {ln.split(b" ", 1)[1]: ln.split(b" ", 1)[0] for ln in showref.splitlines()}
    first = frames[0][1]
    want_caps = set(first.split(b"\0", 1)[1].rstrip(b"\n").split(b" ")) - {b""}
    want_pack = b"".join(pl[1:] for (_, pl) in frames[adv_end + 2:] if pl is not None and pl[:1] == b"\x01")
    maxframe = max(len(pl) + 4 for (_, pl) in frames if pl is not None)
    ctx.cov["git_upload_pack"] = {"bytes": len(out), "frames": len(frames), "largest_frame": maxframe, "pack_bytes": len(want_pack), "capabilities": len(want_caps)}
    from dulwich.client import _read_side_band64k_data, read_pkt_refs_v1
    from dulwich.pack import PackStreamReader
    rng = ctx.rng
    big, meta = [], {}
    for i in range(ctx.pick(12, 120)):
        style = [3, 2, 3, 1][i % 4] if i else 0
        if style in (0, 1) and i > 1:
            style = 2
        chunks = random_chunks(rng, len(out), style)
        rbuf = rng.choice([65536, 4096, 7])
        w = Wire(out, chunks)
        proto = rprotocol(w, rbuf)

        def decode():
            refs, rcaps = read_pkt_refs_v1(proto.read_pkt_seq())
            nak = proto.read_pkt_line()
            pack, prog = [], []
            for chan, data in _read_side_band64k_data(proto.read_pkt_seq()):
                (pack if chan == 1 else prog).append(data)
            return refs, rcaps, nak, b"".join(pack)
        o = outcome(decode)
        ctx.count()
        ctx.nontrivial(hash(("gitout", tuple(w.log))))
        desc = f"git upload-pack output ({len(out)} bytes, largest frame {maxframe}) read with rbufsize {rbuf} in {len(w.log)} _recv calls"
        rp = {"kind": "gitout", "chunks": chunks if len(chunks) < 5000 else None, "rbuf": rbuf, "style": style}
        if o[0] != "ok":
            rep.v(f"{P}:ReceivableProtocol.read_pkt_line", "TotalDecoder" if o[0] == "crash" else "RoundTrip", f"git-encoded stream -> {okind(o)}", f"{desc}: {o}", rp)
            continue
        refs, rcaps, nak, pack = o[1]
        if dict(refs) != want_refs or set(rcaps) != want_caps:
            rep.v("dulwich/client.py:read_pkt_refs_v1", "CapsRoundTrip", "git advertisement: refs or capabilities differ",
                  f"{desc}: refs {dict(refs)} caps {sorted(rcaps)}; git show-ref: {want_refs}, capabilities on the wire {sorted(want_caps)}", rp)
        elif nak != b"NAK\n" or pack != want_pack:
            rep.v(f"{P}:ReceivableProtocol.read_pkt_line", "RoundTrip", "git side-band stream: pack bytes differ", f"{desc}: NAK {nak!r}, pack {len(pack)} bytes vs {len(want_pack)}", rp)
        else:
            n = outcome(lambda: sum(1 for _ in PackStreamReader(hashlib.sha1, BytesIO(pack).read).read_objects()))
            if n[0] != "ok":
                rep.v("dulwich/pack.py:PackStreamReader.read_objects", "TrailerExact", f"git pack -> {okind(n)}", f"{desc}: {n}", rp)
        ctx.validated()
    # two of these executions (real maximum-size frames written by git) also go to TLC
    for i in range(ctx.pick(1, 4)):
        start = sum(len(pl or b"") + 4 for (_, pl) in frames[:adv_end + 2])
        data = out[start:start + sum(len(pl or b"") + 4 for (_, pl) in frames[adv_end + 2:adv_end + 4 + i])]
        chunks = random_chunks(rng, len(data), 3)
        rec = RpRecorder(data, chunks, 65536)
        while True:
            o = rec.op("pkt", note="frame=data")
            if o[0] != "ok":
                break
        big.append(rec.trace(i + 1))
        meta[i + 1] = rec.meta("frames written by git upload-pack (side-band-64k)", chunks, 65536)
        ctx.count()
    base = {"Scen": '"mixed"', "MaxOps": 1000000, "MaxItems": 0, "MaxLen": 0, "Gen": "FALSE", "EmptyReadAsserts": "FALSE", "RBuf": 65536}
    ctx.validated(validate(ctx, rep, "StreamRdTrace.tla", base, big, meta, "frames written by C git", rp_sig))
    # ---- G3: C git as the client of dulwich's server: advertisement, capabilities, side-band pack
    dst = os.path.join(os.path.dirname(repo), "clone")
    code = ("import sys; from dulwich.server import serve_command, UploadPackHandler; "
            "sys.exit(serve_command(UploadPackHandler, ['dulwich-upload-pack', sys.argv[1]]))")
    up = f"{sys.executable} -c \"{code}\""
    e2 = dict(env)
    if os.environ.get("PYTHONPATH"):
        e2["PYTHONPATH"] = os.environ["PYTHONPATH"]
    p = subprocess.run(["git", "-c", "protocol.version=0", "clone", "-q", "--bare", "--upload-pack", up, repo, dst], env=e2, capture_output=True, timeout=300)
    ctx.count()
    if p.returncode != 0:
        rep.v("dulwich/server.py:UploadPackHandler", "RoundTrip", "C git client cannot read dulwich's upload-pack stream",
              f"git clone --upload-pack=<dulwich> failed: {p.stderr.decode('latin-1')[-400:]}", {"kind": "none"})
        return
    r1 = subprocess.run(["git", "show-ref"], cwd=repo, env=env, capture_output=True).stdout
    r2 = subprocess.run(["git", "show-ref"], cwd=dst, env=env, capture_output=True).stdout
    fsck = subprocess.run(["git", "fsck", "--full"], cwd=dst, env=env, capture_output=True)
    if r1 != r2 or fsck.returncode != 0:
        rep.v("dulwich/server.py:UploadPackHandler", "RoundTrip", "C git client decodes something else from dulwich's stream",
              f"refs equal: {r1 == r2}; fsck rc {fsck.returncode} {fsck.stderr[-200:]!r}", {"kind": "none"})
    ctx.validated()
    ctx.cov["git_clone_from_dulwich_server"] = "ok"


def replay(ctx, rep, obj):
    if obj.get("kind") == "trace":
        t = obj["trace"]
        print(f"  recorded execution, {len(t['stream'])} stream bytes, {len(t['ev'])} events; failing event {obj.get('fail_at')}:")
        for i, e in enumerate(t["ev"], 1):
            if abs(i - obj.get("fail_at", 0)) <= 6:
                print(f"    {i:4d} {[x if not isinstance(x, list) or len(x) < 24 else f'<{len(x)} bytes>' for x in e]}")
        m = obj["meta"]
        data = bytes(t["stream"])
        if "Pack" in obj["spec"]:
            t2, _ = record_pack(t["tid"], data, m["chunks"], m["rbuf"], m["zbuf"], t["valid"])
            sig = pack_sig
        else:
            rec = RpRecorder(data, m["chunks"], m["rbuf"])
            for (op, n, note) in m["program"]:
                rec.op(op, n, note)
            t2, sig = rec.trace(t["tid"]), rp_sig
            m = rec.meta(m["what"], m["chunks"], m["rbuf"])
        same = t2["ev"] == t["ev"]
        print(f"  re-executed on the current tree: {'same events as recorded' if same else 'events differ from the recording'}")
        for i, e in enumerate(t2["ev"], 1):
            if not same and abs(i - obj.get("fail_at", 0)) <= 6:
                print(f"    now {i:4d} {[x if not isinstance(x, list) or len(x) < 24 else f'<{len(x)} bytes>' for x in e]}")
        validate(ctx, rep, obj["spec"], obj["constants"], [t2], {t2["tid"]: m}, "replay", sig)
    else:
        print("  this case is re-executed only by the full check (it depends on C git output)")

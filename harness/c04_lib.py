"""C04 helpers shared by the harness process and its worker children.

* pack builder: abstract attack shape (the alphabet of specs/PackAttack.tla) -> real pack bytes
  (real zlib, real SHA-1 trailer unless 'bad'); independent of dulwich's writers
* small valid artefacts (packs, idx v1/v2/v3, loose objects, index v2/3/4, packed-refs,
  commit-graph, multi-pack-index, bitmap) and the enumeration of their byte-level damage
* the ingestion paths (DiskObjectStore / MemoryObjectStore x add_pack+commit, add_thin_pack,
  add_pack_data, PackStreamReader, ReceivePackHandler, direct read of an installed pack) and the
  read paths of the other artefacts
* store observation: visible object set through a fresh reader, recomputed hashes, junk files
"""
from __future__ import annotations

import hashlib
import os
import shutil
import struct
import zlib

# --------------------------------------------------------------------------- byte builders
OBJ_COMMIT, OBJ_TREE, OBJ_BLOB, OBJ_TAG, OFS_DELTA, REF_DELTA = 1, 2, 3, 4, 6, 7
TYPE_NAME = {1: b"commit", 2: b"tree", 3: b"blob", 4: b"tag"}


def obj_hdr(type_num: int, size: int) -> bytes:
    b = (type_num << 4) | (size & 0x0F)
    size >>= 4
    out = []
    while size:
        out.append(b | 0x80)
        b = size & 0x7F
        size >>= 7
    out.append(b)
    return bytes(out)


def ofs_varint(k: int) -> bytes:
    """git's offset encoding (big-endian groups of 7 bits with the +1 bias)."""
    out = [k & 0x7F]
    k >>= 7
    while k:
        k -= 1
        out.insert(0, 0x80 | (k & 0x7F))
        k >>= 7
    return bytes(out)


def size_varint(n: int) -> bytes:
    out = []
    while True:
        b = n & 0x7F
        n >>= 7
        if n:
            out.append(b | 0x80)
        else:
            out.append(b)
            return bytes(out)


def oid(type_num: int, content: bytes) -> bytes:
    return hashlib.sha1(TYPE_NAME[type_num] + b" %d\0" % len(content) + content).digest()


def blob_id(content: bytes) -> bytes:
    return oid(OBJ_BLOB, content)


def mk_delta(base: bytes, target: bytes) -> bytes:
    """a valid git delta base -> target: one copy op (common prefix) + insert ops."""
    p = 0
    while p < min(len(base), len(target), 0xFFFF) and base[p] == target[p]:
        p += 1
    out = bytearray(size_varint(len(base)) + size_varint(len(target)))
    if p:
        # copy offset 0, size p
        op = 0x80
        args = b""
        if p & 0xFF:
            op |= 0x10
            args += bytes([p & 0xFF])
        if p & 0xFF00:
            op |= 0x20
            args += bytes([(p >> 8) & 0xFF])
        out.append(op)
        out += args
    rest = target[p:]
    while rest:
        chunk, rest = rest[:127], rest[127:]
        out.append(len(chunk))
        out += chunk
    return bytes(out)


# --------------------------------------------------------------------------- attack shapes (PackAttack.tla alphabet)
FULL, OFS, REF = 0, 1, 2
OFS_ZERO, OFS_INSIDE, OFS_NEG = 0, -1, -2          # b of an ofs entry; b >= 1: distance to entry b (b < i)
# b of a ref entry: 1..n = intended object of entry b; n+1.. see below
PREFIX = b"C04 attack object, common prefix for the copy op; "
S_CONTENT = PREFIX + b"S: the object already in the store\n"
M_CONTENT = PREFIX + b"M: an object nobody has\n"
X_CONTENT = PREFIX + b"X: packed in the store before the ingestion\n"


def t_content(i: int) -> bytes:
    return PREFIX + (b"entry %d of the pack " % i) * 2 + b"\n"


def shape_key(shape) -> str:
    return "n%d:%s|h%+d t%d s%d%+d" % (len(shape["e"]), ",".join("%s%d" % ("FOR"[k], b) for k, b in shape["e"]),
                                        shape["hdr"], shape["tr"], shape["szat"], shape["szdir"])


def build_attack_pack(shape, SID=None, MID=None):
    """shape = {"e": [(k, b), ...], "hdr": -1|0|1, "tr": 0|1, "szat": 0..n, "szdir": -1|0|1}.

    Entry i (1-based) is meant to be the blob t_content(i).  A delta entry carries a valid delta
    from the content of the base it names (entry j -> t_content(j); S; M) to t_content(i).
    ref b: 1..n -> id of entry b's object; n+1 -> S (in the store); n+2 -> M (nowhere).
    Returns (bytes, meta)."""
    ents = shape["e"]
    n = len(ents)
    sid, mid = n + 1, n + 2
    ids = {i: blob_id(t_content(i)) for i in range(1, n + 1)}
    ids[sid], ids[mid] = blob_id(S_CONTENT), blob_id(M_CONTENT)
    count = n + shape["hdr"]
    body = bytearray(b"PACK" + struct.pack(">LL", 2, max(count, 0)))
    offs = {}
    for i, (k, b) in enumerate(ents, 1):
        off = len(body)
        offs[i] = off
        target = t_content(i)
        if k == FULL:
            payload, pre = target, None
            tnum = OBJ_BLOB
        elif k == OFS:
            tnum = OFS_DELTA
            if b >= 1:
                dist, base = off - offs[b], t_content(b)
            elif b == OFS_ZERO:
                dist, base = 0, S_CONTENT
            elif b == OFS_INSIDE:
                # lands strictly inside the previous entry (or, for the first entry, inside the header)
                dist, base = (off - (offs[i - 1] + 1)) if i > 1 else 5, S_CONTENT
            else:
                dist, base = off + 100, S_CONTENT
            payload, pre = mk_delta(base, target), ofs_varint(dist)
        else:
            tnum = REF_DELTA
            base = t_content(b) if b <= n else (S_CONTENT if b == sid else M_CONTENT)
            payload, pre = mk_delta(base, target), ids[b]
        declared = len(payload)
        if shape["szat"] == i:
            declared += shape["szdir"]
        body += obj_hdr(tnum, declared)
        if pre is not None:
            body += pre
        body += zlib.compress(payload)
    trailer = hashlib.sha1(bytes(body)).digest()
    if not shape["tr"]:
        trailer = bytes([trailer[0] ^ 0xFF]) + trailer[1:]
    body += trailer
    meta = {"n": n, "ids": {i: ids[i].hex() for i in ids}, "offs": offs, "count": count}
    return bytes(body), meta


# --------------------------------------------------------------------------- valid artefacts
ID = b"C04 <c04@example.com>"


def _commit(tree_hex: bytes, parents, msg: bytes, t: int) -> bytes:
    out = b"tree " + tree_hex + b"\n"
    for p in parents:
        out += b"parent " + p + b"\n"
    out += b"author " + ID + b" %d +0000\n" % t
    out += b"committer " + ID + b" %d +0000\n\n" % t
    return out + msg


def typed_pack(entries, thin_base=None):
    """entries: list of (type_num, content) | ("ofs", j, type_num_of_result, content) | ("ref", j|bytes20, content).
    Returns (bytes, [(id_raw, offset, crc32, type, content)])."""
    body = bytearray(b"PACK" + struct.pack(">LL", 2, len(entries)))
    info = []
    for e in entries:
        off = len(body)
        if e[0] == "ofs":
            _, j, content = e
            bt, bc = info[j][3], info[j][4]
            chunk = obj_hdr(OFS_DELTA, len(mk_delta(bc, content))) + ofs_varint(off - info[j][1]) + zlib.compress(mk_delta(bc, content))
            t = bt
        elif e[0] == "ref":
            _, j, content = e
            if isinstance(j, int):
                bt, bc, bid = info[j][3], info[j][4], info[j][0]
            else:
                bt, bc = thin_base
                bid = j
            chunk = obj_hdr(REF_DELTA, len(mk_delta(bc, content))) + bid + zlib.compress(mk_delta(bc, content))
            t = bt
        else:
            t, content = e
            chunk = obj_hdr(t, len(content)) + zlib.compress(content)
        body += chunk
        info.append((oid(t, content), off, zlib.crc32(chunk) & 0xFFFFFFFF, t, content))
    body += hashlib.sha1(bytes(body)).digest()
    return bytes(body), info


_ART = {}
_SIBLING = {}       # name -> a pack of the same layout with other contents (not itself enumerated for damage)


def artefacts():
    """name -> dict(kind=..., data=bytes, ...).  Deterministic; built once per process."""
    if _ART:
        return _ART
    import io
    import tempfile

    from dulwich.pack import write_pack_index_v1, write_pack_index_v2, write_pack_index_v3
    A = _ART
    b1 = b"alpha\n" * 6
    b2 = b"alpha\n" * 6 + b"beta\n"
    b3 = b"alpha\n" * 5 + b"gamma\n"
    # pack "blobs": full, ofs-delta on it, ref-delta on the first (both delta kinds)
    data, info = typed_pack([(OBJ_BLOB, b1), ("ofs", 0, b2), ("ref", 0, b3)])
    A["pack.blobs"] = {"kind": "pack", "data": data, "info": info}
    # a different pack of the same layout (spliced under pack.blobs' index: same offsets, other contents)
    sdata, sinfo = typed_pack([(OBJ_BLOB, b"omega\n" * 6), ("ofs", 0, b"omega\n" * 6 + b"beta\n"), ("ref", 0, b"omega\n" * 5 + b"gamma\n")])
    _SIBLING["pack.blobs"] = {"kind": "pack", "data": sdata, "info": sinfo}
    # pack "commit": blob, tree, commit, tag (object grammar after a mutation is exercised too)
    blob = b"file content\n"
    tree = b"100644 f\0" + oid(OBJ_BLOB, blob)
    commit = _commit(oid(OBJ_TREE, tree).hex().encode(), [], b"msg\n", 1000)
    tag = (b"object " + oid(OBJ_COMMIT, commit).hex().encode() + b"\ntype commit\ntag v\ntagger " + ID + b" 1000 +0000\n\nt\n")
    data, info = typed_pack([(OBJ_BLOB, blob), (OBJ_TREE, tree), (OBJ_COMMIT, commit), (OBJ_TAG, tag)])
    A["pack.commit"] = {"kind": "pack", "data": data, "info": info}
    # thin pack: ref-delta against the store object S, then an ofs-delta on that
    data, info = typed_pack([("ref", blob_id(S_CONTENT), S_CONTENT + b"thin one\n"), ("ofs", 0, S_CONTENT + b"thin two\n")],
                            thin_base=(OBJ_BLOB, S_CONTENT))
    A["pack.thin"] = {"kind": "pack", "data": data, "info": info}
    # pack whose tree does not parse: indexes fine, fails the post-install validation (rollback path)
    badtree = b"1x0644 f\0" + oid(OBJ_BLOB, blob)
    data, info = typed_pack([(OBJ_BLOB, blob), (OBJ_TREE, badtree)])
    A["pack.badtree"] = {"kind": "pack", "data": data, "info": info, "valid": False}
    # pack indexes for pack.blobs
    pk = A["pack.blobs"]
    ents = sorted((i[0], i[1], i[2]) for i in pk["info"])
    for v, wr in ((1, write_pack_index_v1), (2, write_pack_index_v2)):
        f = io.BytesIO()
        wr(f, ents, pk["data"][-20:])
        A[f"idx.v{v}"] = {"kind": "idx", "data": f.getvalue(), "pack": "pack.blobs"}
    f = io.BytesIO()
    write_pack_index_v3(f, ents, pk["data"][-20:], hash_format=1)
    A["idx.v3"] = {"kind": "idx", "data": f.getvalue(), "pack": "pack.blobs"}
    # loose objects
    for nm, (t, c) in {"blob": (OBJ_BLOB, blob), "tree": (OBJ_TREE, tree), "commit": (OBJ_COMMIT, commit), "tag": (OBJ_TAG, tag)}.items():
        A[f"loose.{nm}"] = {"kind": "loose", "data": zlib.compress(TYPE_NAME[t] + b" %d\0" % len(c) + c),
                            "id": oid(t, c).hex(), "type": t, "content": c}
    # index files
    from dulwich.index import Index, IndexEntry
    d = tempfile.mkdtemp(prefix="c04art")
    try:
        for v in (2, 3, 4):
            p = os.path.join(d, f"index{v}")
            ix = Index(p, read=False, version=v)
            for i, name in enumerate([b"a.txt", b"dir/b.txt", b"dir/c.txt"]):
                kw = {}
                ix[name] = IndexEntry((1000 + i, 0), (1000 + i, 0), 1, 100 + i, 0o100644, 1000, 1000, 13,
                                      oid(OBJ_BLOB, blob).hex().encode(), 0, 0x2000 if (v >= 3 and i == 1) else 0)
            ix.write()
            with open(p, "rb") as f:
                A[f"index.v{v}"] = {"kind": "index", "data": f.read()}
        # commit-graph, midx, bitmap need a repository
        from dulwich.objects import Blob, Commit, Tree
        from dulwich.repo import Repo
        r = Repo.init(os.path.join(d, "r"), mkdir=True)
        bl = Blob.from_string(blob)
        tr = Tree()
        tr.add(b"f", 0o100644, bl.id)
        r.object_store.add_object(bl)
        r.object_store.add_object(tr)
        par, cids = [], []
        for i in range(3):
            c = Commit()
            c.tree = tr.id
            c.parents = par
            c.author = c.committer = ID
            c.author_time = c.commit_time = 1000 + i
            c.author_timezone = c.commit_timezone = 0
            c.message = b"c%d\n" % i
            r.object_store.add_object(c)
            par = [c.id]
            cids.append(c.id)
        r.refs[b"refs/heads/master"] = cids[-1]
        r.object_store.write_commit_graph(cids)
        with open(os.path.join(r.controldir(), "objects", "info", "commit-graph"), "rb") as f:
            A["commit-graph"] = {"kind": "commit-graph", "data": f.read(), "commits": [c.decode() for c in cids]}
        r.object_store.pack_loose_objects()
        pack = r.object_store.packs[0]
        from dulwich.bitmap import generate_bitmap, write_bitmap_file
        bm = generate_bitmap(pack.index, r.object_store, {b"refs/heads/master": cids[-1]}, pack.get_stored_checksum())
        f = io.BytesIO()
        write_bitmap_file(f, bm)
        base = pack._basename
        with open(base + ".pack", "rb") as pf, open(base + ".idx", "rb") as xf:
            A["bitmap"] = {"kind": "bitmap", "data": f.getvalue(), "packdata": pf.read(), "idxdata": xf.read()}
        from dulwich.midx import write_midx
        f = io.BytesIO()
        write_midx(f, [(os.path.basename(base) + ".idx", sorted((e[0], e[1], e[2]) for e in pack.index.iterentries()))])
        A["midx"] = {"kind": "midx", "data": f.getvalue(), "packname": os.path.basename(base),
                     "packdata": A["bitmap"]["packdata"], "idxdata": A["bitmap"]["idxdata"]}
        r.close()
    finally:
        shutil.rmtree(d, ignore_errors=True)
    A["packed-refs"] = {"kind": "packed-refs", "data": (
        b"# pack-refs with: peeled fully-peeled sorted \n"
        + b"a" * 40 + b" refs/heads/master\n"
        + b"b" * 40 + b" refs/tags/v1\n^" + b"c" * 40 + b"\n")}
    return A


# --------------------------------------------------------------------------- byte-level damage
FLIP_VALUES = (0x00, 0xFF)
TAILS = (b"\x00", b"\xff" * 20, b"PACK\x00\x00\x00\x02\x00\x00\x00\x01")


def mutations(n: int, level: str):
    """descriptors of single mutations of an n-byte artefact.
    level 'full': every bit flip, every byte set to 00/FF, every truncation point, every tail
    level 'byte': one bit flip (bit = position mod 8) per byte + byte set 00/FF at every 3rd + every truncation point + tails
    level 'light': as byte, on every 3rd position"""
    out = []
    if level == "full":
        for i in range(n):
            for b in range(8):
                out.append(("bit", i, b))
            for v in FLIP_VALUES:
                out.append(("set", i, v))
        for i in range(n):
            out.append(("trunc", i, 0))
    else:
        step = 1 if level == "byte" else 3
        for i in range(0, n, step):
            out.append(("bit", i, i % 8))
            out.append(("bit", i, (i + 4) % 8))
            if i % 3 == 0:
                out.append(("set", i, FLIP_VALUES[(i // 3) % 2]))
        for i in range(0, n, step):
            out.append(("trunc", i, 0))
    for t in range(len(TAILS)):
        out.append(("tail", t, 0))
    return out


def apply_mutation(data: bytes, m):
    kind, i, v = m
    if kind == "bit":
        return data[:i] + bytes([data[i] ^ (1 << v)]) + data[i + 1:]
    if kind == "set":
        if data[i] == v:
            return None
        return data[:i] + bytes([v]) + data[i + 1:]
    if kind == "trunc":
        return data[:i]
    if kind == "tail":
        return data + TAILS[i]
    if kind == "none":
        return data
    raise ValueError(kind)


# --------------------------------------------------------------------------- store environments
def make_disk_template(path: str):
    """objects directory with: loose S, and an installed pack P0 holding X."""
    from dulwich.object_store import DiskObjectStore
    from dulwich.objects import Blob
    st = DiskObjectStore.init(path)
    st.add_object(Blob.from_string(S_CONTENT))
    data, info = typed_pack([(OBJ_BLOB, X_CONTENT)])
    f, commit, abort = st.add_pack()
    f.write(data)
    commit()
    st.close()


def make_repo_template(path: str):
    from dulwich.objects import Blob
    from dulwich.repo import Repo
    r = Repo.init_bare(path, mkdir=True)
    r.object_store.add_object(Blob.from_string(S_CONTENT))
    data, info = typed_pack([(OBJ_BLOB, X_CONTENT)])
    f, commit, abort = r.object_store.add_pack()
    f.write(data)
    commit()
    r.close()


def visible_disk(objdir: str):
    """(sorted hex ids a fresh reader lists, bad ids: unreadable or hashing to another name)."""
    from dulwich.object_store import DiskObjectStore
    st = DiskObjectStore(objdir)
    try:
        return observe_store(st)
    finally:
        st.close()


def observe_store(st, strict=False):
    """(sorted hex ids the store lists, bad: ids that are unreadable or hash to another name).
    strict: let errors of the listing itself and MemoryError / RecursionError propagate (read paths, where the
    caller classifies them); otherwise they are recorded as unreadable."""
    bad = []
    try:
        ids = sorted(x.decode() for x in st)
    except Exception as e:       # noqa: BLE001  (the store cannot even be listed)
        if strict:
            raise
        return [], ["<listing>:unreadable:" + type(e).__name__]
    for h in ids:
        try:
            t, raw = st.get_raw(h.encode())
            if oid(t, raw).hex() != h:
                bad.append(h + ":misnamed")
        except Exception as e:       # noqa: BLE001
            if strict and isinstance(e, (MemoryError, RecursionError)):
                raise
            bad.append(h + ":unreadable:" + type(e).__name__)
    return ids, bad


def pack_dir_state(objdir: str):
    """independent projection of objects/: visible packs with completeness, junk files."""
    pd = os.path.join(objdir, "pack")
    names = sorted(os.listdir(pd)) if os.path.isdir(pd) else []
    packs = []
    junk = []
    bases = {}
    for f in names:
        b, _, ext = f.rpartition(".")
        if ext in ("pack", "idx"):
            bases.setdefault(b, set()).add(ext)
        if f.endswith(".lock") or f.startswith("tmp"):
            junk.append("pack/" + f)
    for b, exts in sorted(bases.items()):
        if exts == {"pack", "idx"}:
            packs.append({"name": b, "pack": pack_file_class(os.path.join(pd, b + ".pack")),
                          "idx": idx_file_class(os.path.join(pd, b + ".idx"), os.path.join(pd, b + ".pack"))})
        elif not b.startswith("tmp"):
            junk.append("pack/" + b + "." + sorted(exts)[0] + "(unpaired)")
    for f in sorted(os.listdir(objdir)):
        if f.startswith("tmp_pack_"):
            junk.append(f)
    return packs, junk


def pack_file_class(path: str) -> str:
    try:
        with open(path, "rb") as f:
            d = f.read()
    except OSError:
        return "absent"
    if len(d) >= 32 and d[:4] == b"PACK" and hashlib.sha1(d[:-20]).digest() == d[-20:]:
        return "complete"
    return "partial"


def idx_file_class(path: str, packpath: str) -> str:
    try:
        with open(path, "rb") as f:
            d = f.read()
        with open(packpath, "rb") as f:
            p = f.read()
    except OSError:
        return "absent"
    if len(d) >= 40 and hashlib.sha1(d[:-20]).digest() == d[-20:] and d[-40:-20] == p[-20:]:
        # every entry the pack declares is indexed (independent minimal parse of the fan-out table)
        fan = 8 if d[:4] == b"\377tOc" else 0
        if len(d) >= fan + 1024 and len(p) >= 12 and struct.unpack(">L", d[fan + 1020:fan + 1024])[0] == struct.unpack(">L", p[8:12])[0]:
            return "complete"
    return "partial"


def chunked_reader(data: bytes, chunk: int = 7):
    """(read_all, read_some) over data; read_some returns short chunks like a socket."""
    pos = [0]

    def read_all(n):
        r = data[pos[0]:pos[0] + n]
        pos[0] += len(r)
        return r

    def read_some(n):
        r = data[pos[0]:pos[0] + min(n, chunk)]
        pos[0] += len(r)
        return r
    return read_all, read_some


def pkt(line: bytes) -> bytes:
    return b"%04x" % (len(line) + 4) + line


def tx_scenarios():
    """inputs of the transaction runs: name -> pack bytes"""
    A = artefacts()
    dup, _ = typed_pack([(OBJ_BLOB, X_CONTENT)])
    return {"valid": A["pack.blobs"]["data"], "thin": A["pack.thin"]["data"], "dup": dup,
            "badtree": A["pack.badtree"]["data"], "cut-trailer": A["pack.blobs"]["data"][:-5],
            "unresolved": build_attack_pack({"e": [(0, 0), (2, 4)], "hdr": 0, "tr": 1, "szat": 0, "szdir": 0})[0]}


def idx_names(d: bytes):
    """hex names listed by a pack index (v1 / v2 / v3 with SHA-1), independent minimal parser"""
    if d[:4] == b"\377tOc":
        version = struct.unpack(">L", d[4:8])[0]
        base = 8 + 1024 if version == 2 else 8 + 8 + 1024
        n = struct.unpack(">L", d[base - 4:base])[0]
        return [d[base + 20 * i:base + 20 * i + 20].hex() for i in range(n)]
    n = struct.unpack(">L", d[1020:1024])[0]
    return [d[1024 + 24 * i + 4:1024 + 24 * i + 24].hex() for i in range(n)]


def sibling_pack(name):
    artefacts()
    return _SIBLING[name]


def midx_redirect(data: bytes, i: int, j: int) -> bytes:
    """crafted multi-pack-index: the recorded pack offset of object i (in oid order) is replaced by that of object j
    (it now points at the start of ANOTHER object of the same pack); trailing checksum recomputed."""
    nchunks = data[6]
    ooff = None
    for c in range(nchunks):
        e = 12 + 12 * c
        if data[e:e + 4] == b"OOFF":
            ooff = struct.unpack(">Q", data[e + 4:e + 12])[0]
    if ooff is None:
        raise ValueError("no OOFF chunk")
    b = bytearray(data)
    b[ooff + 8 * i + 4:ooff + 8 * i + 8] = data[ooff + 8 * j + 4:ooff + 8 * j + 8]
    b[-20:] = hashlib.sha1(bytes(b[:-20])).digest()
    return bytes(b)


def midx_object_count(data: bytes) -> int:
    nchunks = data[6]
    chunks = {}
    for c in range(nchunks + 1):
        e = 12 + 12 * c
        chunks[data[e:e + 4]] = struct.unpack(">Q", data[e + 4:e + 12])[0]
    f = chunks[b"OIDF"]
    return struct.unpack(">L", data[f + 1020:f + 1024])[0]

"""C01 life-cycle executor (child side): ObjFile behaviours on real Blob/Tree/Commit/Tag objects.

A CONCRETISATION maps the abstract valuations of ObjFile (tuples over Vals) to cases of the
ObjGrammar table: commit/tag -- a triple of real fields, value 0 = base pool index, 1 = the
alternative index; tree -- presence of three entries that collide on a name prefix; blob -- three
chunk lists.  Expected bytes of a valuation are the specification's rendering of that case,
expected names are hashlib over them.
"""
from __future__ import annotations

import io
import itertools
import random
import re
import zlib

from . import c01_lib as L
from .c01_exec import diff_fields, impl_exc, mk_commit, mk_tag, rd_commit, rd_tag, set_attr

ALGO_OF = {1: "sha1", 2: "sha256"}
FMT_OF = {"sha1": 1, "sha256": 2}
TREE_ENTRIES = [((45,), 16384), ((45, 48), 33188), ((45, 45), 33188)]     # "-" (dir), "-0", "--"
BLOB_KEYS = ["", "1,2", "0,1,0"]
CLS = {"commit": "Commit", "tag": "Tag", "tree": "Tree", "blob": "Blob"}


class Conc:
    """kind + what the abstract fields/values stand for + algo."""

    def __init__(self, spec, table, pools):
        self.kind = spec["kind"]
        self.algo = spec["algo"]
        self.triple = spec.get("triple")
        self.name = f"{self.kind}/{'+'.join(self.triple) if self.triple else '-'}/{self.algo}"
        self.pools = pools
        kind = self.kind
        self.bytes = {}      # valuation tuple -> expected bytes
        self.F = {}          # valuation tuple -> concrete field dict (commit/tag) / entries (tree) / chunks (blob)
        if kind in ("commit", "tag"):
            fields = pools[kind + "Fields"]
            self.nf = 3
            for v in itertools.product((0, 1), repeat=3):
                ix = ["1"] * len(fields)
                for f, x in zip(self.triple, v):
                    if x:
                        ix[fields.index(f)] = str((1 % len(pools[kind][f])) + 1)
                key = ",".join(ix)
                self.bytes[v] = L.render(table[(kind, key)], self.algo)
                case = L.case_of(pools, kind, key)
                self.F[v] = (L.commit_fields if kind == "commit" else L.tag_fields)(case, self.algo)
        elif kind == "tree":
            self.nf = 3
            want = {frozenset(s) for r in range(4) for s in itertools.combinations(TREE_ENTRIES, r)}
            found = {}
            for (k, key) in table:
                if k != "tree":
                    continue
                ents = L.tree_entries(key, self.algo)
                fs = frozenset((tuple(n), m) for (n, m, h) in ents)
                if fs in want:
                    found[fs] = (key, ents)
            for v in itertools.product((0, 1), repeat=3):
                fs = frozenset(e for e, x in zip(TREE_ENTRIES, v) if x)
                key, ents = found[fs]
                self.bytes[v] = L.render(table[("tree", key)], self.algo)
                self.F[v] = {e[0]: e for e in ents}
            self.entry = {}
            for i, (n, m) in enumerate(TREE_ENTRIES):
                v = tuple(1 if j == i else 0 for j in range(3))
                self.entry[i] = self.F[v][bytes(n)]
        else:
            self.nf = 1
            for x, key in enumerate(BLOB_KEYS):
                self.bytes[(x,)] = L.render(table[("blob", key)], self.algo)
                self.F[(x,)] = L.blob_chunks(key)
        self.by_bytes = {b: v for v, b in self.bytes.items()}
        if len(self.by_bytes) != len(self.bytes):
            raise RuntimeError(f"concretisation {self.name}: two valuations have the same bytes")
        # hex name -> (valuation it is the hash of, format it is the hash in: 1 SHA-1, 2 SHA-256)
        self.by_name = {L.H(a, kind, b).decode(): (v, FMT_OF[a]) for v, b in self.bytes.items() for a in L.ALGOS}

    def fmt(self, algo=None):
        from dulwich.object_format import SHA1, SHA256
        return SHA1 if (algo or self.algo) == "sha1" else SHA256


class Obj:
    """One live real object driven through abstract operations."""

    def __init__(self, conc: Conc, origin: str, v, flavour: int = 0, ofmt: int = 0):
        from dulwich import objects as O
        self.O = O
        self.c = conc
        self.kind = conc.kind
        self.cls = getattr(O, CLS[self.kind])
        self.n = flavour
        self.o = self._make(origin, tuple(v), ofmt)
        self.tracked = tuple(v)       # model-free oracle: the valuation the setters were called with
        self.spoiled = False          # a field currently holds a value that cannot be serialised
        # which attribute is spoiled: one that the concretisation's own fields do not cover
        tr = conc.triple or ()
        if self.kind == "commit":
            self.spoil_attr = "commit_timezone" if "ctz" not in tr else "author_timezone"
        elif self.kind == "tag":
            self.spoil_attr = "object" if "target" not in tr else "name"
        else:
            self.spoil_attr = None

    # -- construction
    def _make(self, origin, v, ofmt=0):
        c, O = self.c, self.O
        b = c.bytes[v]
        num = L.TYPE_NUM[self.kind]
        if origin == "new":
            if self.kind == "commit":
                o = mk_commit(c.F[v])
            elif self.kind == "tag":
                o = mk_tag(c.F[v])
            elif self.kind == "tree":
                o = O.Tree()
                for (n, m, h) in c.F[v].values():
                    o.add(n, m, h)
            else:
                o = O.Blob()
                o.data = b
            o.object_format = c.fmt()
            return o
        # the trusted name a sha1 (ofmt 1) / sha256 (ofmt 2) object store would hand over
        sha = L.H(ALGO_OF[ofmt or FMT_OF[c.algo]], self.kind, b) if origin == "rawsha" else None
        k = self.n % 3
        if sha is not None and len(sha) != c.fmt().hex_length:
            k = k % 2                      # from_file refuses a name whose length is not the object format's
        if k == 0:
            o = O.ShaFile.from_raw_string(num, b, sha, object_format=c.fmt())
        elif k == 1:
            o = O.ShaFile.from_raw_chunks(num, [b[:7], b[7:]], sha, object_format=c.fmt())
        else:
            o = O.ShaFile.from_file(io.BytesIO(self._legacy(b)), sha, object_format=c.fmt())
        return o

    def _legacy(self, b):
        return zlib.compress(self.kind.encode() + b" " + str(len(b)).encode() + b"\0" + b)

    READS = [("AsRaw", ()), ("ReadId", ()), ("ReadIdF", (1,)), ("ReadIdF", (2,)), ("Copy", ()), ("Check", ()), ("Reload", (0,))]

    # -- operations; each returns (what kind of value, value) for the comparison
    def do(self, op, args):
        o, c, O = self.o, self.c, self.O
        self.n += 1
        n = self.n
        if op == "Spoil":
            # an ordinary setter call with a value _serialize() cannot write
            if self.kind == "commit":
                setattr(o, self.spoil_attr, 61)                   # not a whole minute: ValueError
            elif self.kind == "tag":
                if self.spoil_attr == "object":
                    o.object = (O.Commit, None)                   # "missing object sha"
                else:
                    o.name = None                                 # "missing tag name"
            else:
                o[b"zz-bad"] = ("x", c.entry[0][2])               # a mode that is not a number: TypeError
            self.spoiled = True
            return ("none", None)
        if op == "Unspoil":
            if self.kind in ("commit", "tag"):
                set_attr(o, self.kind, self.spoil_attr, c.F[self.tracked])
            else:
                del o[b"zz-bad"]
            self.spoiled = False
            return ("none", None)
        if op == "FailedRead":
            self.last_read = self.READS[n % len(self.READS)]
            return self.do(*self.last_read)                       # expected to raise; execute() judges
        if op == "Set":
            f, x = args
            v = list(self.tracked)
            v[f - 1] = x
            v = tuple(v)
            if self.kind in ("commit", "tag"):
                attrs = (L.COMMIT_ATTRS if self.kind == "commit" else L.TAG_ATTRS)[c.triple[f - 1]]
                for a in attrs:
                    set_attr(o, self.kind, a, c.F[v])
            else:
                name, mode, hx = c.entry[f - 1]
                if x:
                    if n % 2:
                        o[name] = (mode, hx)
                    else:
                        o.add(name, mode, hx)
                else:
                    if name not in o:
                        o[name] = (mode, hx)
                    del o[name]
            self.tracked = v
            return ("none", None)
        if op == "AsRaw":
            k = n % 5
            if k == 0:
                return ("bytes", o.as_raw_string())
            if k == 1:
                return ("bytes", b"".join(o.as_raw_chunks()))
            if k == 2:
                return ("bytes", bytes(o))
            if k == 3:
                ln = o.raw_length()
                b = o.as_raw_string()
                return ("bytes", b if ln == len(b) else b"<raw_length %d>" % ln + b)
            raw = zlib.decompress(o.as_legacy_object())
            hdr, _, body = raw.partition(b"\0")
            want_hdr = self.kind.encode() + b" " + str(len(body)).encode()
            return ("bytes", body if hdr == want_hdr else b"<header " + hdr + b">" + body)
        if op == "ReadId":
            k = n % 4
            if k == 0:
                return ("sha1", o.id)
            if k == 1:
                return ("sha1", o.sha().hexdigest().encode())
            if k == 2:
                return ("sha1", o.get_id())
            r = repr(o)
            m = re.search(r"b'([0-9a-f]+)'", r)
            return ("sha1", m.group(1).encode() if m else r.encode())
        if op == "ReadIdF":
            F = c.fmt(ALGO_OF[args[0]])
            if n % 2:
                return ("name:" + ALGO_OF[args[0]], o.get_id(F))
            return ("name:" + ALGO_OF[args[0]], o.sha(F).hexdigest().encode())
        if op in ("SetRaw", "SetChunked"):
            v = tuple(args[0])
            b = c.bytes[v]
            if op == "SetChunked":
                o.chunked = list(c.F[v])
            else:
                sha = L.H(ALGO_OF[args[1]], self.kind, b) if args[1] else None
                k = n % 3
                if self.kind == "blob" and not args[1] and k == 0:
                    o.data = b
                elif k == 1:
                    o.set_raw_chunks([b[:3], b[3:]], sha)
                elif k == 2 and args[1] and ALGO_OF[args[1]] == c.algo:
                    o.set_raw_string(b, verify_sha=sha)     # verified against the object's own format
                else:
                    o.set_raw_string(b, sha)
                self.spoiled = False                               # parsing overwrote every field
            self.tracked = v
            return ("none", None)
        if op == "Copy":
            cp = o.copy()
            b = cp.as_raw_string()
            if type(cp) is not type(o):
                return ("bytes", b"<type " + type(cp).__name__.encode() + b">" + b)
            return ("copy", (b, cp.id))
        if op == "Check":
            self._had_fixed256 = isinstance(o._sha, O.FixedSha) and len(o._sha.hexdigest()) == 64 and not o._needs_serialization
            try:
                o.check()
            except O.ObjectFormatException:
                if self.spoiled:
                    raise     # the failed serialisation itself
                # otherwise: check() is stricter than the grammar (e.g. a tag without tagger); not part of C01
            except O.ChecksumMismatch:
                # ShaFile.check() recomputes with SHA-1 and so rejects every object that carries its
                # SHA-256 name; reported as an observation, outside the statement of C01
                if not self._had_fixed256:
                    raise
            self.spoiled = False                                   # (re-parsed; only reached if the read did not fail)
            return ("bytes", b"".join(o._chunked_text))
        if op == "Reload":
            data = o.as_legacy_object()
            want = None
            if args[0]:
                want = o.get_id(c.fmt(ALGO_OF[args[0]]))
            if want is not None and len(want) != c.fmt().hex_length:
                # (from_file refuses a name whose length is not the object format's)
                o2 = O.ShaFile.from_file(io.BytesIO(data), None, object_format=c.fmt())
                o2.set_raw_chunks(o2._chunked_text, want)
            else:
                o2 = O.ShaFile.from_file(io.BytesIO(data), want, object_format=c.fmt())
            if type(o2) is not type(o):
                return ("bytes", b"<type " + type(o2).__name__.encode() + b">")
            self.o = o2
            self.spoiled = False
            return ("bytes", b"".join(o2._chunked_text))
        raise ValueError(op)

    # -- projection of the real object on the abstract state
    def project(self):
        o, c = self.o, self.c
        if self.kind == "commit":
            got = rd_commit(o)
        elif self.kind == "tag":
            hide = self.spoiled and self.spoil_attr == "object"
            if hide:
                o._object_sha = c.F[self.tracked]["object"][1]     # slot only, no flag touched: the getter needs a value
            got = rd_tag(o)
            if hide:
                o._object_sha = None
        if self.spoiled and self.kind in ("commit", "tag"):
            got[self.spoil_attr] = c.F[self.tracked][self.spoil_attr]   # the spoiled attribute is the model's `bad', not a field
        fields = None
        if self.kind in ("commit", "tag"):
            for v, F in c.F.items():
                if not diff_fields(self.kind, F, got):
                    fields = v
                    break
        elif self.kind == "tree":
            ents = {n: (n, m, h) for n, (m, h) in o._entries.items() if n != b"zz-bad"}
            for v, F in c.F.items():
                if F == ents:
                    fields = v
                    break
        text = None
        if o._chunked_text is not None:
            text = c.by_bytes.get(b"".join(o._chunked_text), "other")
        if self.kind == "blob":
            fields = text
        s = o._sha
        if s is None:
            sha = ("none", None, 0)
        else:
            k = "fixed" if isinstance(s, self.O.FixedSha) else "computed"
            v, f = c.by_name.get(s.hexdigest(), ("other", 0))
            sha = (k, v, f)
        return {"fields": fields, "dirty": bool(o._needs_serialization), "text": text, "sha": sha, "bad": self.spoiled}


LABEL = re.compile(r"^(\w+)(?:\((.*)\))?$")


def parse_label(lab):
    m = LABEL.match(lab.replace(" ", ""))
    op, a = m.group(1), m.group(2)
    if op == "Set":
        f, x = a.split(",")
        return op, (int(f), int(x))
    if op in ("SetRaw", "SetChunked"):
        mm = re.match(r"<<([\d,]*)>>(?:,(\d))?", a)
        v = tuple(int(x) for x in mm.group(1).split(",") if x != "")
        return op, (v, int(mm.group(2) or 0))
    if op in ("Reload", "ReadIdF"):
        return op, (int(a),)
    return op, ()          # AsRaw ReadId Copy Check Spoil Unspoil FailedRead


def op_str(op, args):
    if op == "Set":
        return f"set{args[0]}={args[1]}"
    if op in ("SetRaw", "SetChunked"):
        v = "".join(str(x) for x in args[0])
        return ("chunked" if op == "SetChunked" else "setraw" + (f"[{ALGO_OF[args[1]]}-name]" if args[1] else "")) + f"({v})"
    if op == "Reload":
        return "reload" + (f"[{ALGO_OF[args[0]]}-name]" if args[0] else "")
    if op == "ReadIdF":
        return f"get_id({ALGO_OF[args[0]]})"
    return {"AsRaw": "raw", "ReadId": "id", "Copy": "copy", "Check": "check", "Spoil": "unserialisable-edit",
            "Unspoil": "repair-edit", "FailedRead": "read"}[op]


def judge(conc, kind_of, value, expect_v):
    """Property clause: does a returned value equal what the property demands for valuation expect_v?"""
    b = conc.bytes[expect_v]
    if kind_of == "bytes":
        return None if value == b else "bytes-not-serialisation-of-fields"
    names = (L.H("sha1", conc.kind, b), L.H("sha256", conc.kind, b))
    if kind_of == "sha1":
        # .id / sha() without a format: the SHA-1 of the content, or -- for an object that carries the
        # name a sha256 store gave it -- the SHA-256 of the content
        return None if value in names else "id-not-hash-of-content"
    if kind_of.startswith("name:"):
        # explicit request: the hash of the content IN THE REQUESTED FORMAT, whatever is cached
        algo = kind_of[5:]
        return None if value == L.H(algo, conc.kind, b) else f"get_id({algo})-not-{algo}-hash-of-content"
    if kind_of == "copy":
        if value[0] != b:
            return "bytes-not-serialisation-of-fields"
        if value[1] not in names:
            return "copy-id-not-hash-of-content"
    return None


EPILOGUE = [("ReadIdF", (1,)), ("ReadId", ()), ("ReadIdF", (2,)), ("AsRaw", ())]


def execute(conc, origin, v0, ops, flavour=0, states=None, epilogue=True, ofmt=0):
    """Run ops on a fresh object.  Returns (failures, drifts, events).  A failure is
    (step index, clause, detail); the oracle is the tracked valuation (what the setters were
    called with), independent of the model.  states (optional): expected abstract state after each
    op, compared with the projection of the real object (mismatch = drift)."""
    fails, drifts, events = [], [], []
    try:
        ob = Obj(conc, origin, v0, flavour, ofmt)
    except Exception as e:  # noqa: BLE001
        if not impl_exc(e):
            raise
        return [(0, f"exception:{type(e).__name__}", str(e)[:200])], [], []
    READ_OPS = ("AsRaw", "ReadId", "ReadIdF", "Copy", "Check", "Reload", "FailedRead")
    for i, (op, args) in enumerate(list(ops) + (EPILOGUE if epilogue else [])):
        was_spoiled = ob.spoiled
        try:
            kind_of, value = ob.do(op, args)
        except Exception as e:  # noqa: BLE001
            if not impl_exc(e):
                raise
            if was_spoiled and op in READ_OPS:
                # the fields cannot be serialised: the read has to fail (every time it is asked)
                pr = ob.project()
                events.append({"op": "FailedRead", "args": (), "ret": ob.tracked, "rfmt": 0, "err": True, "st": pr})
                if states is not None and i < len(states) and op == "FailedRead":
                    d = state_diff(states[i], pr, conc)
                    if d:
                        drifts.append((i, op_str(op, args), d))
                continue
            fails.append((i, f"exception:{op}:{type(e).__name__}", str(e)[:200]))
            break
        cl = judge(conc, kind_of, value, ob.tracked)
        if was_spoiled and op in READ_OPS:
            # no exception although a field holds an unserialisable value: whatever came back is not
            # the serialisation / name of the current fields
            cl = "read-succeeds-on-unserialisable-fields"
        if cl:
            fails.append((i, cl, (value[:80].hex() if isinstance(value, bytes) else repr(value)[:200])))
        pr = ob.project()
        if kind_of == "copy":
            # a copy stands for the valuation of its bytes only if its name is the hash of these bytes
            kind_of, value = "bytes", (value[0] if cl != "copy-id-not-hash-of-content" else b"<copy with wrong name>")
        rfmt = 0
        if kind_of == "bytes":
            ret = conc.by_bytes.get(value, "other")
        elif kind_of == "sha1" or kind_of.startswith("name:"):
            ret, rfmt = conc.by_name.get(value.decode("ascii", "replace"), ("other", 0))
        else:
            ret = ob.tracked
        if op == "FailedRead":                         # it did not fail: record the read that was made
            op, args = ob.last_read
        events.append({"op": op, "args": args, "ret": ret, "rfmt": rfmt, "err": False, "st": pr})
        if states is not None and i < len(states):
            d = state_diff(states[i], pr, conc)
            if d:
                drifts.append((i, op_str(op, args), d))
    return fails, drifts, events


def state_diff(model, real, conc):
    """model: parsed TLC state dict; real: projection.  Returns description of the first difference."""
    mf = tuple(model["fields"])
    if real["fields"] != mf:
        return f"fields model={mf} real={real['fields']}"
    if bool(model["dirty"]) != real["dirty"]:
        return f"dirty model={model['dirty']} real={real['dirty']}"
    mt = tuple(model["text"]["v"]) if model["text"]["some"] else None
    if mt != real["text"]:
        return f"text model={mt} real={real['text']}"
    if bool(model.get("bad", False)) != bool(real.get("bad", False)):
        return f"bad model={model.get('bad')} real={real.get('bad')}"
    mk = str(model["sha"]["k"])
    ms = (mk, tuple(model["sha"]["v"]) if mk != "none" else None, int(model["sha"]["fmt"]))
    if ms != tuple(real["sha"]):
        return f"sha model={ms} real={real['sha']}"
    return None


def minimise(conc, origin, v0, ops, clause, flavour, ofmt=0):
    """Greedy removal of operations while the same clause still fails."""
    def failing(o, ops_):
        f, _, _ = execute(conc, o, v0, ops_, flavour, epilogue=False, ofmt=ofmt)
        return any(c == clause for (_, c, _) in f)
    ops = list(ops)
    # cut after the first failing step (a failing read of the epilogue becomes an explicit operation)
    f, _, _ = execute(conc, origin, v0, ops, flavour, ofmt=ofmt)
    first = min((i for (i, c, _) in f if c == clause), default=len(ops))
    ops = (ops + EPILOGUE)[:first + 1]
    changed = True
    while changed:
        changed = False
        for i in range(len(ops)):
            cand = ops[:i] + ops[i + 1:]
            if failing(origin, cand):
                ops = cand
                changed = True
                break
    # flavour dependence: keep the flavour, it is part of the replay
    return ops


def scenario(origin, ofmt, v0, ops):
    return f"{origin}{'[' + ALGO_OF[ofmt] + '-name]' if ofmt else ''}({''.join(str(x) for x in v0)});" + ";".join(op_str(o, a) for (o, a) in ops)


def replay_one(job, table, pools):
    """Re-execute one recorded behaviour step by step (./check C01 --replay)."""
    r = job["replay"]
    conc = Conc(r["conc"], table, pools)
    ops = [(o, tuple(tuple(x) if isinstance(x, list) else x for x in a)) for (o, a) in r["ops"]]
    fails, _, events = execute(conc, r["origin"], tuple(r["v0"]), ops, r["flavour"], epilogue=False, ofmt=r.get("ofmt", 0))
    steps = []
    for (o, a), e in zip(ops, events):
        steps.append({"op": op_str(o, a), "returned_value_stands_for": e["ret"], "projection": e["st"]})
    return {"n": {}, "fail": [{"step": i, "clause": c, "detail": d} for (i, c, d) in fails], "steps": steps, "drift": [], "samples": [], "traces": []}


def run_store(job, table, pools):
    """Store-level form of Reload(w); ReadIdF(F): an object is added to a DiskObjectStore of format A,
    looked up there by its A-name (so it carries that trusted name, unedited), asked for its name in
    both formats, added to a store of format B and looked up there by its B-name -- all four (A, B)."""
    import os
    import shutil
    import tempfile
    from dulwich import objects as O
    from dulwich.object_store import DiskObjectStore
    from dulwich.object_format import SHA1, SHA256
    FM = {"sha1": SHA1, "sha256": SHA256}
    out = {"n": {"paths": 0, "steps": 0, "concs": 0, "store_objects": 0}, "fail": [], "drift": [], "samples": [], "traces": [], "store_fail": []}
    only = job.get("store_only")
    root = tempfile.mkdtemp(prefix="c01-store-", dir=job.get("tmp"))
    try:
        for A in L.ALGOS:
            cases = [("blob", k) for k in BLOB_KEYS] + [("tree", "")]
            for kind in ("commit", "tag", "tree"):
                keys = sorted(key for (k, key) in table if k == kind and key)
                cases += [(kind, keys[0]), (kind, keys[len(keys) // 2]), (kind, keys[-1])]
            for B in L.ALGOS:
                if only and [A, B] != only[:2]:
                    continue
                sa = DiskObjectStore.init(os.path.join(root, f"{A}-{B}-src"), object_format=FM[A])
                sb = DiskObjectStore.init(os.path.join(root, f"{A}-{B}-dst"), object_format=FM[B])
                for kind, key in cases:
                    b = L.render(table[(kind, key)], A)
                    names = {a: L.H(a, kind, b) for a in L.ALGOS}
                    out["n"]["store_objects"] += 1

                    def fail(clause, note=""):
                        out["store_fail"].append({"clause": f"{A}->{B}:{clause}", "kind": kind, "key": key, "note": str(note)[:300], "pair": [A, B]})
                    try:
                        sa.add_object(O.ShaFile.from_raw_string(L.TYPE_NUM[kind], b, object_format=FM[A]))
                        try:
                            loaded = sa[names[A]]
                        except KeyError:
                            fail("not-found-under-own-name-in-source-store")
                            continue
                        if loaded.as_raw_string() != b:
                            fail("content-changed-through-source-store")
                        for order in ((B, A), (A, B)):
                            for a in order:
                                if loaded.get_id(FM[a]) != names[a]:
                                    fail(f"get_id({a})-not-{a}-hash-of-content", loaded.get_id(FM[a]))
                                if loaded.sha(FM[a]).hexdigest().encode() != names[a]:
                                    fail(f"sha({a})-not-{a}-hash-of-content", loaded.sha(FM[a]).hexdigest())
                        if kind == "tree" and key and A != B:
                            continue                 # the bytes of a non-empty tree only make sense in its own format
                        sb.add_object(loaded)
                        if names[B] not in sb:
                            fail(f"not-found-under-{B}-name-in-destination-store")
                            continue
                        if sb[names[B]].as_raw_string() != b:
                            fail("content-changed-through-destination-store")
                        if A != B and os.path.exists(O.hex_to_filename(sb.path, names[A])):
                            fail(f"filed-under-{A}-name-in-{B}-store")
                    except Exception as e:  # noqa: BLE001
                        if not impl_exc(e):
                            raise
                        fail(f"exception:{type(e).__name__}", e)
    finally:
        shutil.rmtree(root, ignore_errors=True)
    return out


def run_job(job):
    table = {(k, key): toks for k, key, toks in L.read_dump(job["dump"])}
    pools = L.load_pools(job["pools"])
    if job.get("replay"):
        return replay_one(job, table, pools)
    if job.get("store"):
        return run_store(job, table, pools)
    out = {"n": {"paths": 0, "steps": 0, "concs": 0}, "fail": [], "drift": [], "samples": [], "traces": []}
    import json
    with open(job["paths"]) as f:
        plans = json.load(f)      # {"generic": {"nodes": {id: state}, "paths": [[init, [[label, dst], ...]], ...]}, "blob": {...}}
    seen_sig = set()
    for spec in job["concs"]:
        conc = Conc(spec, table, pools)
        out["n"]["concs"] += 1
        plan = plans["generic"]
        if conc.kind == "blob":
            # the model follows the shape of the code: does Blob.chunked drop the cached sha?
            pb = Obj(conc, "rawsha", (0,), 0, 1)
            pb.do("SetChunked", ((1,), 0))
            plan = plans["blob"] if pb.o._sha is None else plans["blob_keeps_sha"]
            out["blob_model"] = "ChunkedResetsSha" if pb.o._sha is None else "ChunkedKeepsSha (defect model)"
        nodes = plan["nodes"]
        for pi, (init, steps) in enumerate(plan["paths"][:job.get("path_limit")]):
            st0 = nodes[str(init)]
            origin = str(st0["last"]["op"])
            ofmt = int(st0["last"]["f"])
            v0 = tuple(st0["fields"])
            ops = [parse_label(lab) for (lab, _) in steps]
            states = [nodes[str(dst)] for (_, dst) in steps]
            flavour = pi + len(conc.name)
            fails, drifts, events = execute(conc, origin, v0, ops, flavour, states, ofmt=ofmt)
            out["n"]["paths"] += 1
            out["n"]["steps"] += len(events)
            explained = bool(fails)
            for (i, clause, detail) in fails:
                mops = minimise(conc, origin, v0, ops, clause, flavour, ofmt)
                scen = scenario(origin, ofmt, v0, mops)
                sig = (CLS[conc.kind], clause, scen)
                if sig in seen_sig:
                    continue
                seen_sig.add(sig)
                out["fail"].append({"cls": CLS[conc.kind], "clause": clause, "scenario": scen, "conc": spec, "origin": origin, "ofmt": ofmt,
                                    "v0": list(v0), "ops": [[o, list(a) if not (a and isinstance(a[0], tuple)) else [list(a[0])] + list(a[1:])] for (o, a) in mops],
                                    "flavour": flavour, "detail": detail, "mode": job["mode"]})
            if drifts and not explained:
                i, o_, d = drifts[0]
                out["drift"].append(f"{conc.name} path {pi} step {i} {o_}: {d}")
            if len(out["samples"]) < 1 and pi == 3:
                out["samples"].append({"conc": conc.name, "origin": origin, "v0": list(v0),
                                       "ops": [op_str(o, a) for (o, a) in ops],
                                       "final_bytes": conc.bytes[tuple(states[-1]["fields"])].decode("latin-1")[:300] if states else ""})
        # random long histories for trace validation (code -> spec)
        rng = random.Random(f"{job['seed']}/{conc.name}")
        for t in range(job.get("histories", 0)):
            origin = rng.choice(["new", "raw", "rawsha", "rawsha"])
            ofmt = rng.choice([1, 2]) if origin == "rawsha" else 0
            vals = sorted(conc.bytes)
            v0 = rng.choice(vals)
            ops = []
            sp = False
            for _ in range(job.get("history_len", 20)):
                r = rng.random()
                if conc.kind != "blob" and rng.random() < 0.12:
                    # an unserialisable edit, asked twice (or more), sometimes repaired
                    if not sp:
                        ops.append(("Spoil", ()))
                        sp = True
                        for _k in range(rng.randint(1, 3)):
                            ops.append(rng.choice(Obj.READS))
                    else:
                        ops.append(("Unspoil", ()))
                        sp = False
                    continue
                if conc.kind == "blob":
                    if r < 0.3:
                        ops.append(("SetChunked", (rng.choice(vals), 0)))
                    elif r < 0.45:
                        ops.append(("SetRaw", (rng.choice(vals), rng.choice([0, 0, 1, 2]))))
                elif r < 0.35:
                    ops.append(("Set", (rng.randint(1, conc.nf), rng.randint(0, 1))))
                elif r < 0.45:
                    ops.append(("SetRaw", (rng.choice(vals), rng.choice([0, 0, 1, 2]))))
                    sp = False
                if len(ops) and r < 0.45:
                    continue
                ops.append(rng.choice([("AsRaw", ()), ("ReadId", ()), ("ReadIdF", (1,)), ("ReadIdF", (1,)), ("ReadIdF", (2,)), ("Copy", ()),
                                       ("Check", ()), ("Reload", (0,)), ("Reload", (1,)), ("Reload", (2,))]))
            flav = rng.randrange(1000)
            fails, _, events = execute(conc, origin, v0, ops, flav, ofmt=ofmt)
            scen = None
            if fails:
                mops = minimise(conc, origin, v0, ops, fails[0][1], flav, ofmt)
                scen = scenario(origin, ofmt, v0, mops)
            out["traces"].append({"conc": conc.name, "kind": conc.kind, "algo": conc.algo, "origin": origin, "ofmt": ofmt, "v0": list(v0),
                                  "ev": events, "fails": [(i, c) for (i, c, _) in fails], "scenario": scen, "flavour": flav,
                                  "ops": [[o, list(a) if not (a and isinstance(a[0], tuple)) else [list(a[0])] + list(a[1:])] for (o, a) in ops]})
    return out

"""C14: ref storage at file-system granularity (specs/AccelRefStep.tla).

Every initial state of AccelRefStep (loose value x packed entry x operation) is set up as real files and the
operation is run through each real entry point of DiskRefsContainer.  The visible file-system mutations of the
writer (rename / replace / remove / unlink / rmdir under the repository) are interposed:
  * before every mutation a reader looks (a fresh Repo and a long-lived Repo warmed before the operation), and
    the directory is projected onto (lref, pref): the sequence of projections must be a path of Step edges of the
    TLC state graph (otherwise drift), every value read must be the spec's `old` or `new` of that behaviour
    (Atomic -- otherwise VIOLATION), and the completed operation must show `new` (Final);
  * for every k the run is repeated with the writer dying before its k-th mutation (the Crash edge; nothing the
    dead writer would still do reaches the disk); a fresh Repo then reads the ref: `old` or `new`.
"""
from __future__ import annotations

import os
import shutil

from . import c14_exec as X
from . import tlaval

NAME, OTHER = b"refs/heads/a", b"refs/heads/b"
HDR = b"# pack-refs with: peeled fully-peeled sorted \n"
SITE = {"Delete": "dulwich/refs.py:DiskRefsContainer.remove_if_equals",
        "Set": "dulwich/refs.py:DiskRefsContainer.set_if_equals",
        "Pack": "dulwich/refs.py:DiskRefsContainer.pack_refs"}
ENTRIES = {"Delete": ("del", "remove_if_equals", "remove_if_equals_none"),
           "Set": ("setitem", "set_if_equals", "add_if_new"),
           "Pack": ("pack_refs",)}
_MUT = ("rename", "replace", "remove", "unlink", "rmdir")


class Crash(BaseException):
    pass


class Interpose:
    """Counts the visible mutations under `root`; calls hook(k) before the k-th; dies before the crash_at-th."""

    def __init__(self, root, hook=None, crash_at=None):
        self.root, self.hook, self.crash_at = os.path.realpath(root), hook, crash_at
        self.k, self.dead, self.busy, self.orig = 0, False, False, {}

    def _mine(self, a):
        for x in a[:2]:
            if isinstance(x, (bytes, str)):
                p = os.fsdecode(x)
                if os.path.realpath(p).startswith(self.root):
                    return True
        return False

    def __enter__(self):
        for name in _MUT:
            orig = getattr(os, name)
            self.orig[name] = orig

            def wrapped(*a, _orig=orig, **kw):
                if self.busy or not self._mine(a):
                    return _orig(*a, **kw)
                if self.dead:                     # cleanup code of a writer that no longer exists: nothing happens
                    return None
                self.k += 1
                if self.crash_at is not None and self.k >= self.crash_at:
                    self.dead = True
                    raise Crash()
                if self.hook is not None:
                    self.busy = True
                    try:
                        self.hook(self.k, a)
                    finally:
                        self.busy = False
                return _orig(*a, **kw)
            setattr(os, name, wrapped)
        return self

    def __exit__(self, *exc):
        for name, orig in self.orig.items():
            setattr(os, name, orig)
        return False


def make_template(path):
    """A bare repository with three blobs (the values 1..3 a ref can take); returns index -> hex id."""
    from dulwich.objects import Blob
    from dulwich.repo import Repo
    os.makedirs(path)
    r = Repo.init_bare(path)
    vals = {}
    for i in (1, 2, 3):
        b = Blob.from_string(b"value %d\n" % i)
        r.object_store.add_object(b)
        vals[i] = b.id
    c = r.get_config()
    c.set((b"core",), b"logAllRefUpdates", b"false")
    c.write_to_path()
    r.close()
    return vals


def setup(template, root, vals, l0, p0, hdr):
    shutil.rmtree(root, ignore_errors=True)
    shutil.copytree(template, root)
    lines = []
    if p0:
        lines.append(vals[p0] + b" " + NAME + b"\n")
    lines.append(vals[3] + b" " + OTHER + b"\n")           # a bystander that only ever lives in packed-refs
    with open(os.path.join(root, "packed-refs"), "wb") as f:
        f.write((HDR if hdr else b"") + b"".join(lines))
    if l0:
        os.makedirs(os.path.join(root, "refs", "heads"), exist_ok=True)
        with open(os.path.join(root, "refs", "heads", "a"), "wb") as f:
            f.write(vals[l0] + b"\n")


def project(root, inv):
    lv = X.read_ref_file(os.path.join(root, "refs", "heads", "a"))
    pr = X.read_packed_refs(root) or {}
    pv = pr.get(NAME.decode())
    return (inv.get(lv, -1) if lv else 0, inv.get(pv, -1) if pv else 0, inv.get(pr.get(OTHER.decode()), -1))


def read(repo, inv):
    """the value of the ref (and of the bystander) through the three read paths"""
    out = {}
    refs = repo.refs
    for q, fn in (("refs[name]", lambda n: refs[n]), ("as_dict", lambda n: refs.as_dict().get(n)),
                  ("get_packed+loose", lambda n: refs.read_loose_ref(n) or refs.get_packed_refs().get(n))):
        for who, n in (("", NAME), ("bystander:", OTHER)):
            try:
                v = fn(n)
            except KeyError:
                v = None
            except Exception as e:                       # noqa: BLE001
                out[who + q] = "exc:" + type(e).__name__
                continue
            out[who + q] = 0 if v is None else inv.get(v.decode() if isinstance(v, bytes) else v, -1)
    return out


def perform(root, entry, vals, old, op):
    from dulwich.repo import Repo
    r = Repo(root)
    o = vals[old] if old else None
    try:
        if entry == "del":
            del r.refs[NAME]
        elif entry == "remove_if_equals":
            assert r.refs.remove_if_equals(NAME, o)
        elif entry == "remove_if_equals_none":
            assert r.refs.remove_if_equals(NAME, None)
        elif entry == "setitem":
            r.refs[NAME] = vals[op[1]]
        elif entry == "set_if_equals":
            assert r.refs.set_if_equals(NAME, o, vals[op[1]])
        elif entry == "add_if_new":
            assert r.refs.add_if_new(NAME, vals[op[1]])
        elif entry == "pack_refs":
            r.refs.pack_refs(all=True)
        else:
            raise ValueError(entry)
    finally:
        try:
            r.close()
        except Crash:
            pass


def step_succ(g, nid):
    return [(lab, dst) for lab, dst in g.edges.get(nid, []) if not lab.startswith("Crash")]


def run_case(g, nid, template, root, vals, entry, hdr):
    """One initial state of the spec x one entry point x one packed-refs flavour.
    Returns (violations [(who, q, seen, point)], drift [str], executions)."""
    from dulwich.repo import Repo
    st = tlaval.to_py(g.nodes[nid])
    op, old, new, l0, p0 = list(st["op"]), st["old"], st["new"], st["lref"], st["pref"]
    inv = {v.decode(): i for i, v in vals.items()}
    viol, drift = [], []
    allowed = {old, new}

    def judge(ans, who, point, final=False):
        for q, v in ans.items():
            ok = (v == 3) if q.startswith("bystander:") else (v == new if final else v in allowed)
            if not ok:
                viol.append((who, q, v, point))

    # ---- run A: a reader looks before every mutation of the writer
    setup(template, root, vals, l0, p0, hdr)
    longlived = Repo(root)
    read(longlived, inv)                                   # warm its packed-refs cache
    cur = [nid]
    seen_proj = []

    def advance(proj, point):
        node = tlaval.to_py(g.nodes[cur[0]])
        if drift or (node["lref"], node["pref"]) == proj[:2]:        # (after the first deviation the path is lost)
            return
        for lab, dst in step_succ(g, cur[0]):
            d = tlaval.to_py(g.nodes[dst])
            if (d["lref"], d["pref"]) == proj[:2]:
                cur[0] = dst
                return
        drift.append(f"{entry} on (lref {l0}, pref {p0}) {op}: directory (lref, pref) = {proj[:2]} at {point} is not a "
                     f"Step successor of ({node['lref']}, {node['pref']}) in AccelRefStep")

    def hook(k, a):
        proj = project(root, inv)
        seen_proj.append(proj)
        advance(proj, f"mutation {k} ({os.fsdecode(a[0])[len(root):]})")
        fr = Repo(root)
        try:
            judge(read(fr, inv), "fresh", f"reader before mutation {k}")
        finally:
            fr.close()
        judge(read(longlived, inv), "long-lived", f"reader before mutation {k}")

    with Interpose(root, hook=hook) as ip:
        try:
            perform(root, entry, vals, old, op)
        except Exception as e:                             # noqa: BLE001
            drift.append(f"{entry} on (lref {l0}, pref {p0}) {op}: raised {type(e).__name__}: {e}")
        nmut = ip.k
    proj = project(root, inv)
    advance(proj, "the end")
    if step_succ(g, cur[0]) and not drift:
        drift.append(f"{entry} on (lref {l0}, pref {p0}) {op}: finished in (lref, pref) = {proj[:2]} where AccelRefStep still has a step")
    fr = Repo(root)
    judge(read(fr, inv), "fresh", "completed", final=True)
    fr.close()
    judge(read(longlived, inv), "long-lived", "completed", final=True)
    longlived.close()
    runs = 1
    # ---- runs B_k: the writer dies before its k-th mutation
    for k in range(1, nmut + 1):
        setup(template, root, vals, l0, p0, hdr)
        with Interpose(root, crash_at=k):
            try:
                perform(root, entry, vals, old, op)
            except Crash:
                pass
            except Exception as e:                         # noqa: BLE001
                drift.append(f"{entry} on (lref {l0}, pref {p0}) {op}, crash before mutation {k}: raised {type(e).__name__}: {e}")
        proj = project(root, inv)
        if k - 1 < len(seen_proj) and proj != seen_proj[k - 1]:
            drift.append(f"{entry} on (lref {l0}, pref {p0}) {op}: crash before mutation {k} leaves {proj}, the reader saw {seen_proj[k - 1]} there")
        fr = Repo(root)
        judge(read(fr, inv), "fresh", f"crash before mutation {k}")
        fr.close()
        runs += 1
    return viol, drift, runs, {"op": op, "old": old, "new": new, "lref": l0, "pref": p0, "entry": entry, "hdr": hdr,
                               "mutations": nmut}


def cases(g):
    for nid in sorted(g.init):
        st = tlaval.to_py(g.nodes[nid])
        kind = st["op"][0]
        for entry in ENTRIES[kind]:
            if entry == "add_if_new" and st["old"] != 0:
                continue
            if entry == "remove_if_equals" and st["old"] == 0:
                continue
            for hdr in (0, 1):
                yield nid, entry, hdr


def run_all(ctx, g, only=None):
    d = ctx.tmpdir("refstep")
    template = os.path.join(d, "tpl.git")
    vals = make_template(template)
    root = os.path.join(d, "r.git")
    nruns, ncases = 0, 0
    by_entry = {}
    seen_sigs = set()                                   # one report per signature (the first, smallest case)
    for nid, entry, hdr in cases(g):
        st = tlaval.to_py(g.nodes[nid])
        if only is not None and [list(st["op"]), st["lref"], st["pref"], entry, hdr] != list(only):
            continue
        viol, drift, runs, case = run_case(g, nid, template, root, vals, entry, hdr)
        nruns += runs
        ncases += 1
        ctx.count(runs)
        by_entry[entry] = by_entry.get(entry, 0) + runs
        kind = case["op"][0]
        storage = ("loose+packed" if case["lref"] and case["pref"] else "loose" if case["lref"] else "packed" if case["pref"] else "absent")
        for (who, q, v, point) in viol:
            how = "crash" if point.startswith("crash") else "completed" if point == "completed" else "reader"
            what = ("exception" if isinstance(v, str) else "bystander-changed" if q.startswith("bystander:") else
                    "stale-packed-value" if v == case["pref"] and v not in (case["old"], case["new"]) else
                    "vanished" if v == 0 else "other-value")
            sig = f"{SITE[kind]}|ref-neither-old-nor-new|{q}|pref:{what};op={kind};storage={storage};at={how}"
            if sig in seen_sigs:
                continue
            seen_sigs.add(sig)
            ctx.violation(sig, f"{entry} {case['op']} on a ref stored {storage} (loose {case['lref']}, packed {case['pref']}): "
                               f"{who} reader, {point}: {q} = {v}, expected {case['old']} (before) or {case['new']} (after)",
                          {"kind": "refstep", "case": [case["op"], case["lref"], case["pref"], entry, hdr],
                           "seen": v, "point": point, "reader": who, "query": q})
        for s in drift:
            ctx.drift_event("AccelRefStep: " + s)
        if not drift:
            ctx.validated(runs)
        ctx.nontrivial(("refstep", nid, entry, hdr))
    shutil.rmtree(d, ignore_errors=True)
    ctx.cov["refstep"] = {"initial_states": len(g.init), "cases": ncases, "executions": nruns, "by_entry_point": by_entry}
    return ncases, nruns

"""Build the Rust extensions from /repo/crates (working tree) and make them importable by path.

`prelude(mode)` returns Python source to run at the top of a child interpreter:
  mode "rs": dulwich._pack / _objects / _diff_tree are loaded from the freshly built .so files
  mode "py": the three names are blocked so that dulwich falls back to pure Python.
The in-tree /repo/dulwich/_*.so files are never used (stale w.r.t. edits of crates/)."""
from __future__ import annotations

import os
import subprocess
import time

from .core import REPO, VERIF, MachineryError

import hashlib
# a scratch worktree (VERIF_REPO=/tmp/wt-x) gets its own target directory, so that concurrent
# experiments never swap artefacts under the registered checks
TARGET = (os.path.join(VERIF, "out", "cargo-target") if os.path.realpath(REPO) == "/repo"
          else "/tmp/verif-cargo-" + hashlib.sha1(os.path.realpath(REPO).encode()).hexdigest()[:10])
MODS = {"_pack": "libpack_py.so", "_objects": "libobjects_py.so", "_diff_tree": "libdiff_tree_py.so"}
_built = False


def build(force=False):
    global _built
    if _built and not force:
        return TARGET
    env = dict(os.environ, CARGO_NET_OFFLINE="true", PYO3_PYTHON="/venv/bin/python", CARGO_TARGET_DIR=TARGET)
    t0 = time.time()
    p = subprocess.run(["cargo", "build", "--release", "--offline", "--manifest-path", os.path.join(REPO, "Cargo.toml")],
                       env=env, stdout=subprocess.PIPE, stderr=subprocess.STDOUT, text=True)
    if p.returncode != 0:
        raise MachineryError("cargo build failed:\n" + p.stdout[-3000:])
    for so in MODS.values():
        if not os.path.exists(os.path.join(TARGET, "release", so)):
            raise MachineryError(f"missing {so} after cargo build")
    _built = True
    return TARGET


def prelude(mode: str) -> str:
    if mode == "py":
        return ("import sys\n"
                "for _m in ('dulwich._pack','dulwich._objects','dulwich._diff_tree'):\n"
                "    sys.modules[_m] = None\n")
    if mode == "rs":
        lines = ["import sys, importlib.util, importlib.machinery"]
        for mod, so in MODS.items():
            path = os.path.join(TARGET, "release", so)
            lines += [
                f"_l = importlib.machinery.ExtensionFileLoader('dulwich.{mod}', {path!r})",
                f"_s = importlib.util.spec_from_file_location('dulwich.{mod}', {path!r}, loader=_l)",
                "_mod = importlib.util.module_from_spec(_s)",
                "_l.exec_module(_mod)",
                f"sys.modules['dulwich.{mod}'] = _mod",
            ]
        return "\n".join(lines) + "\n"
    raise ValueError(mode)


def install(mode: str):
    """Apply the prelude in the *current* interpreter (must run before dulwich is imported)."""
    import sys
    if any(m == "dulwich" or m.startswith("dulwich.") for m in sys.modules):
        raise MachineryError("rustext.install() must run before dulwich is imported")
    exec(prelude(mode), {})

"""C15 shared code: TLC dump reader, the binding of each enumerated case to the real functions
(run_case), the translation of the reference answer into the same observation format
(expected), divergence classification (bucket).  Imported by the parent (props/c15.py) and by
the sandboxed children (c15_child.py); this module never imports dulwich at import time.

Observation format (JSON): ["v", value] | ["f"]; one *case* yields a list of observations (one
per variant of the call, e.g. strict off/on).  Failure details (exception class, abort) travel
separately and never take part in a comparison: "failure in both" is equivalence.
"""
from __future__ import annotations

import hashlib
import json
import mmap
import os

FAMILIES = ("ptstr", "ptmode", "items", "delta", "deltax", "cdelta", "bisect", "merge", "istree", "blocks")

MODE = {"F": 0o100644, "X": 0o100755, "L": 0o120000, "G": 0o160000, "T": 0o040000}
IDS = {"x": b"1" * 40, "y": b"2" * 40}
PREFIX = [b"", b"d", b"d/e"]
OFFS = {0: 0, 1: (1 << 30) - 1, 2: (1 << 31) - 2, 3: (1 << 32) - 3}
CHUNKS = (0, 1, 63, 64)

SITES = {
    "ptstr": ("dulwich/objects.py:parse_tree", "crates/objects/src/lib.rs:parse_tree"),
    "ptmode": ("dulwich/objects.py:parse_tree", "crates/objects/src/lib.rs:parse_tree"),
    "pttrace": ("dulwich/objects.py:parse_tree", "crates/objects/src/lib.rs:parse_tree"),
    "items": ("dulwich/objects.py:sorted_tree_items", "crates/objects/src/lib.rs:sorted_tree_items"),
    "delta": ("dulwich/pack.py:apply_delta", "crates/pack/src/lib.rs:apply_delta"),
    "deltax": ("dulwich/pack.py:apply_delta", "crates/pack/src/lib.rs:apply_delta"),
    "deltatrace": ("dulwich/pack.py:apply_delta", "crates/pack/src/lib.rs:apply_delta"),
    "cdelta": ("dulwich/pack.py:_create_delta_py", "crates/pack/src/lib.rs:create_delta"),
    "bisect": ("dulwich/pack.py:bisect_find_sha", "crates/pack/src/lib.rs:bisect_find_sha"),
    "merge": ("dulwich/diff_tree.py:_merge_entries", "crates/diff-tree/src/lib.rs:_merge_entries"),
    "istree": ("dulwich/diff_tree.py:_is_tree", "crates/diff-tree/src/lib.rs:_is_tree"),
    "blocks": ("dulwich/diff_tree.py:_count_blocks", "crates/diff-tree/src/lib.rs:_count_blocks"),
}


# --------------------------------------------------------------------------- TLC state dumps
def _val(s: str):
    return json.loads(s.replace("<<", "[").replace(">>", "]").replace("{", "[").replace("}", "]")
                      .replace("TRUE", "true").replace("FALSE", "false"))


def read_dump(path, start=0, end=None):
    """Yield {var: value} per state of a TLC `-dump` file ([start, end) aligned to 'State ' lines).
    Values are tuples/ints/strings only (see Equiv.tla), so <<..>> -> [..] makes them JSON; long
    values are wrapped by TLC over several lines."""
    with open(path, "rb") as f:
        f.seek(start)
        pos = start
        cur, name, buf = None, None, None
        for raw in f:
            if end is not None and pos >= end:
                break
            pos += len(raw)
            line = raw.decode("ascii").rstrip("\n")
            if line.startswith("/\\ "):
                if name is not None:
                    cur[name] = _val("".join(buf))
                name, _, v = line[3:].partition(" = ")
                buf = [v]
            elif line.startswith("State "):
                if name is not None:
                    cur[name] = _val("".join(buf))
                    name = None
                if cur is not None:
                    yield cur
                cur = {}
            elif line.strip() and name is not None:
                buf.append(line.strip())
        if name is not None:
            cur[name] = _val("".join(buf))
        if cur:
            yield cur


def split_dump(path, parts):
    """Byte ranges aligned to state boundaries."""
    size = os.path.getsize(path)
    if size == 0:
        return []
    with open(path, "rb") as f:
        mm = mmap.mmap(f.fileno(), 0, access=mmap.ACCESS_READ)
        cuts = [0]
        for i in range(1, parts):
            p = mm.find(b"\nState ", size * i // parts)
            if p < 0:
                break
            p += 1
            if p > cuts[-1]:
                cuts.append(p)
        cuts.append(size)
        mm.close()
    return [(cuts[i], cuts[i + 1]) for i in range(len(cuts) - 1) if cuts[i] < cuts[i + 1]]


# --------------------------------------------------------------------------- helpers
def unrle(r):
    return b"".join(bytes([c]) * n for c, n in r)


def pt_text(inp):
    pre, mid, post, sha_len = inp
    return unrle(pre) + bytes(mid) + unrle(post), sha_len


def item_sha(name: bytes) -> bytes:
    return hashlib.sha1(name).hexdigest().encode()


def bisect_id(k, id_len):
    return bytes([0x10] * (id_len - 1) + [k])


def octal(digits):
    v = 0
    for d in digits:
        v = v * 8 + d
    return v


def rep(b: bytes) -> str:
    """Bytes as they appear in an observation: hex, or a digest when large."""
    return b.hex() if len(b) <= 1024 else f"sha1:{hashlib.sha1(b).hexdigest()}:{len(b)}"


def describe(e: BaseException) -> str:
    return f"{type(e).__name__}: {str(e)[:120]}"


# --------------------------------------------------------------------------- the real calls
class Impl:
    """The functions under test as dulwich exposes them in this interpreter (after the prelude)."""

    def __init__(self):
        import dulwich.diff_tree as DT
        import dulwich.objects as O
        import dulwich.pack as P
        self.O, self.P, self.DT = O, P, DT
        self.parse_tree = O.parse_tree
        self.sorted_tree_items = O.sorted_tree_items
        self.apply_delta = P.apply_delta
        self.create_delta = P.create_delta
        self.bisect_find_sha = P.bisect_find_sha
        self.merge_entries = DT._merge_entries
        self.is_tree = DT._is_tree
        self.count_blocks = DT._count_blocks

    def origin(self):
        def mod(f):
            return getattr(f, "__module__", None) or type(f).__module__
        return {"parse_tree": mod(self.parse_tree), "sorted_tree_items": mod(self.sorted_tree_items),
                "apply_delta": mod(self.apply_delta), "bisect_find_sha": mod(self.bisect_find_sha),
                "create_delta": getattr(self.create_delta, "__name__", "?"),
                "_merge_entries": mod(self.merge_entries), "_is_tree": mod(self.is_tree),
                "_count_blocks": mod(self.count_blocks)}


def observe(fn, details, tag):
    try:
        return ["v", fn()]
    except (KeyboardInterrupt, SystemExit):
        raise
    except BaseException as e:  # noqa: BLE001 - every failure (also a pyo3 PanicException) is an observation
        details[tag] = describe(e)
        return ["f"]


def ent(e):
    if e is None:
        return None
    return [type(e).__name__, e.path.hex(), e.mode, e.sha.decode("ascii", "replace")]


def run_case(I: Impl, fam: str, inp, exp, details: dict):
    """-> list of observations of the real code for one enumerated case."""
    if fam in ("ptstr", "ptmode", "pttrace"):
        text, sha_len = pt_text(inp) if fam != "pttrace" else (bytes.fromhex(inp[0]), inp[1])
        out = []
        for strict in (False, True):
            out.append(observe(lambda: [[n.hex(), m, s.decode("ascii", "replace")] for n, m, s in
                                        list(I.parse_tree(text, sha_len=sha_len, strict=strict))],
                               details, f"strict={int(strict)}"))
        return out
    if fam == "items":
        items, name_order = inp
        d = {}
        for name, tag in items:
            d[bytes(name)] = (MODE[tag], item_sha(bytes(name)))
        return [observe(lambda: [[type(e).__name__, e.path.hex(), e.mode, e.sha.decode()] for e in
                                 list(I.sorted_tree_items(d, bool(name_order)))], details, "call")]
    if fam in ("delta", "deltax", "deltatrace"):
        base, delta = (bytes(inp[0]), bytes(inp[1])) if fam != "deltatrace" else (bytes.fromhex(inp[0]), bytes.fromhex(inp[1]))
        plain = observe(lambda: rep(b"".join(I.apply_delta(base, delta))), details, "bytes")
        h = len(delta) // 2
        chunked = observe(lambda: rep(b"".join(I.apply_delta([base[:1], base[1:]], [delta[:h], delta[h:]]))),
                          details, "chunks")
        return [plain, chunked]
    if fam == "cdelta":
        base, target = (bytes(inp[0]), bytes(inp[1])) if not isinstance(inp[0], str) else (bytes.fromhex(inp[0]), bytes.fromhex(inp[1]))

        def enc_dec():
            d = b"".join(I.create_delta(base, target))
            details["delta"] = d.hex()
            return rep(b"".join(I.apply_delta(base, d)))

        def enc_dec_chunks():
            d = b"".join(I.create_delta([base[:1], base[1:]], [target[:1], target[1:]]))
            details["delta_chunks"] = d.hex()
            return rep(b"".join(I.apply_delta(base, d)))
        out = [observe(enc_dec, details, "create"), observe(enc_dec_chunks, details, "create-chunks")]
        if exp is not None:
            ref = bytes(exp)
            out.append(observe(lambda: rep(b"".join(I.apply_delta(base, ref))), details, "decode-reference-delta"))
        return out
    if fam == "bisect":
        table, lo, hi, key, offc, id_len = inp
        off, n = OFFS[offc], len(table)
        probes = []

        def unpack_name(i):
            probes.append(i - off)
            j = i - off
            if not 0 <= j < n:
                raise IndexError(i)
            return bisect_id(table[j], id_len)

        def call():
            r = I.bisect_find_sha(off + lo, off + hi, bisect_id(key, id_len), unpack_name)
            return None if r is None else r - off
        o = observe(call, details, "call")
        details["probes"] = probes[:12]
        return [o]
    if fam == "merge":
        p, t1, t2 = inp
        from dulwich.objects import Tree

        def mk(t):
            if t[0] == 0:
                return None
            tr = Tree()
            for name, tag, idt in t[1]:
                tr.add(bytes(name), MODE[tag], IDS[idt])
            return tr
        a, b = mk(t1), mk(t2)
        return [observe(lambda: [[ent(x), ent(y)] for x, y in I.merge_entries(PREFIX[p], a, b)], details, "call")]
    if fam == "istree":
        kind, ty, pm = inp
        from dulwich.objects import TreeEntry
        e = None if kind == "no-entry" else TreeEntry(b"a", None if kind == "no-mode" else ty * 4096 + pm, IDS["x"])
        return [observe(lambda: I.is_tree(e), details, "call")]
    if fam == "blocks":
        content = unrle(inp[0]) if not isinstance(inp[0], str) else bytes.fromhex(inp[0])
        from dulwich.objects import Blob
        out = []
        for ch in CHUNKS:
            if ch and len(content) <= ch:
                out.append(["v", None])
                continue
            chunks = [content] if ch == 0 else [content[i:i + ch] for i in range(0, len(content), ch)]
            if not content and ch == 0:
                chunks = []
            bl = Blob()
            bl.chunked = chunks
            out.append(observe(lambda: sorted([int(k), int(v)] for k, v in dict(I.count_blocks(bl)).items()),
                               details, f"chunk={ch}"))
        return out
    raise ValueError(fam)


# --------------------------------------------------------------------------- the reference's answer
def pt_expected(r):
    if r[0] != "ok":
        return ["f"]
    return ["v", [[bytes(name).hex(), octal(dg), bytes(sha).hex()] for dg, name, sha in r[3]]]


def expected(fam: str, inp, exp):
    """The reference answer (Equiv.tla) in observation format, same shape as run_case."""
    if fam in ("ptstr", "ptmode", "pttrace"):
        return [pt_expected(exp[0]), pt_expected(exp[1])]
    if fam == "items":
        return [["v", [["TreeEntry", bytes(n).hex(), MODE[t], item_sha(bytes(n)).decode()] for n, t in exp]]]
    if fam in ("delta", "deltax", "deltatrace"):
        o = ["v", bytes(exp[2]).hex()] if exp[0] == "ok" else ["f"]
        return [o, o]
    if fam == "cdelta":
        t = rep(bytes(inp[1]) if not isinstance(inp[1], str) else bytes.fromhex(inp[1]))
        return [["v", t]] * (3 if exp is not None else 2)
    if fam == "bisect":
        return [["v", exp[1]] if exp[0] == "val" else ["v", None] if exp[0] == "none" else ["f"]]
    if fam == "merge":
        pre = PREFIX[inp[0]]
        pre = pre + b"/" if pre else pre

        def e(x):
            return None if not x else ["TreeEntry", (pre + bytes(x[0])).hex(), MODE[x[1]], IDS[x[2]].decode()]
        return [["v", [[e(a), e(b)] for a, b in exp]]]
    if fam == "istree":
        return [["v", bool(exp)]]
    if fam == "blocks":
        content = unrle(inp[0]) if not isinstance(inp[0], str) else bytes.fromhex(inp[0])
        d = {}
        for off, n, total in exp:
            h = hash(content[off:off + n])
            d[h] = d.get(h, 0) + total
        v = sorted([k, t] for k, t in d.items())
        return [["v", v] if not (ch and len(content) <= ch) else ["v", None] for ch in CHUNKS]
    raise ValueError(fam)


def allowed(fam, exp, v, obs_v, ref_v):
    """Is one observation inside what the reference semantics permits?  For the decoders the
    contract is C03's: fail, or return the one output the postcondition admits."""
    if fam in ("delta", "deltax", "deltatrace"):
        return obs_v == ["f"] or (exp[3] == 1 and obs_v == ["v", bytes(exp[4]).hex()])
    if fam in ("ptstr", "ptmode", "pttrace") and obs_v == ["f"] and ref_v[0] == "v":
        # the shared '+' leniency may be given up: failing on such a payload is as good
        return exp[v][0] == "ok" and exp[v][4] == 1
    return obs_v == ref_v


def all_allowed(fam, exp, obs, ref):
    return len(obs) == len(ref) and all(allowed(fam, exp, v, o, r) for v, (o, r) in enumerate(zip(obs, ref)))


def n_variants(fam, exp):
    """Number of observations run_case returns for one case of the family."""
    if fam in ("ptstr", "ptmode", "pttrace", "delta", "deltax", "deltatrace"):
        return 2
    if fam == "cdelta":
        return 3 if exp is not None else 2
    if fam == "blocks":
        return len(CHUNKS)
    return 1


def nontrivial(obs, ref):
    """Rule: not (every variant fails in the implementation and in the reference)."""
    return any(o[0] == "v" for o in obs) or any(o[0] == "v" for o in ref)


# --------------------------------------------------------------------------- classification
def mode_class(m: bytes) -> str:
    """Class of the first thing in a mode text that is not a plain octal digit."""
    if not m:
        return "empty"
    for i, c in enumerate(m):
        if 48 <= c <= 55:
            continue
        if c == 43:
            if i == 0:
                continue
            return "inner-plus"
        if c == 45:
            return "minus"
        if c == 95:
            return "underscore"
        if c in (9, 10, 11, 12, 13):
            return "whitespace"
        if c in (111, 79) and i >= 1 and m[i - 1] == 48:
            return "0o-prefix"
        if c in (56, 57):
            return "digit-8-9"
        if c == 0:
            return "nul"
        if c >= 128:
            return "non-ascii"
        return "other-char"
    d = m.lstrip(b"+").lstrip(b"0")
    if len(d) > 11 or (len(d) == 11 and d[0] > 51):
        return "over-32-bit"
    if m[:1] == b"0":
        return "leading-zero"
    return "octal"


def declared_bucket(delta: bytes) -> str:
    """Size class of the target size a delta declares (second LEB128 header)."""
    i, vals = 0, []
    for _ in range(2):
        v, sh = 0, 0
        while True:
            if i >= len(delta):
                return "none"
            c = delta[i]
            i += 1
            v |= (c & 0x7F) << sh
            sh += 7
            if not c & 0x80:
                break
        vals.append(v)
    d = vals[1]
    for name, lim in (("<2^30", 1 << 30), ("[2^30,2^63)", 1 << 63), ("[2^63,2^64)", 1 << 64)):
        if d < lim:
            return name
    return ">=2^64"


def describe_obs(o):
    if o[0] == "f":
        return "fail"
    s = json.dumps(o[1], separators=(",", ":"))
    return "value " + (s if len(s) <= 120 else s[:100] + f"...({len(s)} chars)")


def bucket(fam, inp, exp, variant, py, rs, ref):
    """-> (site, clause, canonical case class) of one divergent variant of one case.
    The site is the implementation that disagrees with the reference semantics (both, when
    neither agrees); the class is as specific as the reference's reason allows."""
    psite, rsite = SITES[fam]
    if py == ref and rs != ref:
        site = rsite
    elif rs == ref and py != ref:
        site = psite
    else:
        site = psite + "+" + rsite
    kinds = f"py={'value' if py[0] == 'v' else 'fail'},rs={'value' if rs[0] == 'v' else 'fail'},ref={'value' if ref[0] == 'v' else 'fail'}"
    if py[0] == "v" and rs[0] == "v":
        clause = "different-values"
    elif py[0] == "v":
        clause = "python-accepts-rust-fails"
    else:
        clause = "rust-accepts-python-fails"
    cls = ""
    if fam in ("ptstr", "ptmode", "pttrace"):
        r = exp[variant]
        strict = f"strict={variant}"
        if r[0] == "err":
            text = pt_text(inp)[0] if fam != "pttrace" else bytes.fromhex(inp[0])
            pos = r[2]
            sp = text.find(b" ", pos)
            m = text[pos:sp] if sp >= 0 else text[pos:]
            cls = f"{r[1]}:{mode_class(m)}" if r[1].startswith("mode") else r[1]
        else:
            cls = "reference-accepts"
        cls = f"{cls},{strict}" if variant == 1 and "leading-zero" in cls else cls
    elif fam in ("delta", "deltax", "deltatrace"):
        delta = bytes(inp[1]) if not isinstance(inp[1], str) else bytes.fromhex(inp[1])
        cls = f"ref={exp[1]},declared={declared_bucket(delta)}"
    elif fam == "cdelta":
        cls = ("create_delta", "create_delta(chunk lists)", "decode(reference delta)")[variant]
    elif fam == "bisect":
        table, lo, hi, key, offc, id_len = inp
        if offc == 0:
            cls = "start>end" if lo > hi else f"small-indices,ref={exp[0]}"
        else:
            o = OFFS[offc]
            if lo > hi:
                cls = "start>end,large-indices"
            elif o + hi >= 1 << 31:
                cls = "end>=2^31"
            elif 2 * (o + hi) >= 1 << 31:
                cls = "start+end-may-reach-2^31"
            else:
                cls = f"large-indices,ref={exp[0]}"
    elif fam == "merge":
        cls = f"prefix={PREFIX[inp[0]].decode()!r}"
    elif fam == "istree":
        cls = f"{inp[0]}"
    elif fam == "blocks":
        cls = f"chunk-size={CHUNKS[variant]}"
    elif fam == "items":
        cls = f"name_order={bool(inp[1])}"
    return site, f"{clause}({kinds})", cls


def case_size(inp):
    return len(json.dumps(inp, separators=(",", ":")))

"""C06 helpers: real pushes into real repositories, observed at ref-operation grain.

A *case* is `{"refs0": [v..], "store0": [o..], "push": [descriptor, ...], "layout": "loose"|"packed"}`
with the descriptor fields of specs/RecvPack.tla (kind, cmds [{r, old, new}], caps, pack, packok,
decl, predecl).  Values are small integers: 0 = ref absent / ZERO id, i > 0 = fixture commit i.

`run_case(case, sched_prefix)` builds a real bare repository on disk, runs every push through the
real code

  wire   a ReceivePackHandler (dulwich/server.py) reading a pkt-line request with real pack bytes
         from an in-memory pipe; the answer is decoded by the real client code
         (read_pkt_refs_v1, GitClient._handle_receive_pack_tail, ReportStatusParser);
  local  LocalGitClient.send_pack (dulwich/client.py);

and returns the trace of what happened: one event per unpack, per ref operation (value of the ref
immediately before and after, read independently of the container under test), and per finished
push (statuses as the client understood them, refs and object membership read back from disk).
With more than one push the pushes run as greenlets under harness/sched.py; scheduling points are
the start of a push, the client callbacks and every ref operation.
"""
from __future__ import annotations

import os
import shutil
from io import BytesIO

import greenlet

from . import sched

NREFS = 5
REFNAMES = [b"refs/heads/r1", b"refs/heads/r2", b"refs/heads/r3", b"refs/tags/t4", b"refs/heads/r5"]
ZERO = b"0" * 40
UNKNOWN = 99
SERVER_SITE = "dulwich/server.py:ReceivePackHandler._apply_pack"
LOCAL_SITE = "dulwich/client.py:LocalGitClient.send_pack"


# --------------------------------------------------------------------------- fixture objects
class Fixture:
    """Commits 1..K, each with its own tree and blob.  parents: i -> list of parent indices."""

    PARENTS = {5: [1], 6: [3], 7: [2, 1]}
    K = 7

    def __init__(self):
        from dulwich.objects import Blob, Commit, Tree
        self.objs = {}
        self.sha = {0: ZERO}
        for i in range(1, self.K + 1):
            b = Blob.from_string(b"content of %d\n" % i)
            t = Tree()
            t.add(b"f%d" % i, 0o100644, b.id)
            c = Commit()
            c.tree = t.id
            c.parents = [self.sha[j] for j in self.PARENTS.get(i, [])]
            c.author = c.committer = b"C06 <c06@example.com>"
            c.author_time = c.commit_time = 1000 + i
            c.author_timezone = c.commit_timezone = 0
            c.message = b"commit %d\n" % i
            self.objs[i] = [b, t, c]
            self.sha[i] = c.id
        self.val = {s: i for i, s in self.sha.items()}
        self._packs = {}

    def v(self, sha):
        if sha is None:
            return 0
        return self.val.get(bytes(sha), UNKNOWN)

    def pack(self, objset, ok=True):
        """Real pack bytes holding the objects of the commits in objset."""
        key = (tuple(sorted(objset)), ok)
        if key not in self._packs:
            from dulwich.object_format import DEFAULT_OBJECT_FORMAT
            from dulwich.pack import write_pack_objects
            f = BytesIO()
            objs = [(o, None) for i in sorted(objset) for o in self.objs[i]]
            write_pack_objects(f.write, objs, DEFAULT_OBJECT_FORMAT)
            data = f.getvalue()
            if not ok:
                # damage one byte of the trailer: the pack checksum no longer matches
                data = data[:-1] + bytes([data[-1] ^ 0x5A])
            self._packs[key] = data
        return self._packs[key]


_FX = None


def fixture():
    global _FX
    if _FX is None:
        _FX = Fixture()
    return _FX


# --------------------------------------------------------------------------- server repository
class Templates:
    def __init__(self, base):
        self.base = base
        self.made = {}
        self.n = 0

    def template(self, store):
        key = tuple(sorted(store))
        if key not in self.made:
            from dulwich.repo import Repo
            d = os.path.join(self.base, "tpl-" + "_".join(map(str, key)))
            shutil.rmtree(d, ignore_errors=True)
            os.makedirs(d)
            r = Repo.init_bare(d)
            fx = fixture()
            for i in key:
                for o in fx.objs[i]:
                    r.object_store.add_object(o)
            r.close()
            self.made[key] = d
        return self.made[key]

    def fresh(self, refs0, store0, layout="loose", keep=False):
        """A new bare repository holding the commits of store0 (hard links to the template's loose
        objects) and the refs of refs0, laid out loose or packed."""
        self.n += 1
        d = os.path.join(self.base, f"srv-{os.getpid()}-{self.n}")
        t = self.template(store0)
        os.mkdir(d)
        for sub in ("objects", "objects/pack", "objects/info", "refs", "refs/heads", "refs/tags", "hooks", "info"):
            os.mkdir(os.path.join(d, sub))
        for f in ("HEAD", "config", "description"):
            shutil.copyfile(os.path.join(t, f), os.path.join(d, f))
        tobj = os.path.join(t, "objects")
        for sub in os.listdir(tobj):
            if len(sub) == 2:
                os.mkdir(os.path.join(d, "objects", sub))
                for f in os.listdir(os.path.join(tobj, sub)):
                    os.link(os.path.join(tobj, sub, f), os.path.join(d, "objects", sub, f))
        fx = fixture()
        packed = []
        if layout == "reftable":
            # the other ref backend a server repository can be configured with (extensions.refStorage):
            # the initial refs are written through the backend itself, before observation starts
            from dulwich.repo import Repo
            r = Repo(d)
            cfg = r.get_config()
            cfg.set((b"core",), b"repositoryformatversion", b"1")
            cfg.set((b"extensions",), b"refStorage", b"reftable")
            cfg.write_to_path()
            r.close()
            r = Repo(d)
            try:
                if type(r.refs).__name__ != "ReftableRefsContainer":
                    raise RuntimeError("repository did not open with the reftable backend")
                for idx, v in enumerate(refs0):
                    if v:
                        r.refs.set_if_equals(REFNAMES[idx], None, fx.sha[v])
                if keep and store0:
                    r.refs.set_if_equals(b"refs/heads/zz-keep", None, fx.sha[sorted(store0)[0]])
            finally:
                r.close()
            return d
        for idx, v in enumerate(refs0):
            if not v:
                continue
            name = REFNAMES[idx]
            if layout == "packed":
                packed.append(fx.sha[v] + b" " + name + b"\n")
                continue
            if layout == "both":
                # loose + packed: packed-refs still carries an older value of the ref
                older = next((o for o in sorted(store0) if o != v), v)
                packed.append(fx.sha[older] + b" " + name + b"\n")
            p = os.path.join(d, os.fsdecode(name))
            os.makedirs(os.path.dirname(p), exist_ok=True)
            with open(p, "wb") as f:
                f.write(fx.sha[v] + b"\n")
        if keep and store0:
            # a loose ref nobody pushes to: refs/heads never becomes empty, so a delete's clean-up of
            # empty directories cannot pull the directory from under a concurrent create (that race is
            # about the ref files, C08/C16, not about what a push reports)
            with open(os.path.join(d, "refs", "heads", "zz-keep"), "wb") as f:
                f.write(fx.sha[sorted(store0)[0]] + b"\n")
        if packed:
            with open(os.path.join(d, "packed-refs"), "wb") as f:
                f.write(b"# pack-refs with: peeled fully-peeled sorted \n" + b"".join(sorted(packed, key=lambda l: l.split(b" ")[1])))
        return d


# --------------------------------------------------------------------------- observation
def read_ref_file(root, name):
    """Value of a ref read straight from the files (loose first, then packed-refs).  A repository
    with the reftable backend is read through a fresh container (its read path shares nothing with
    the compare-and-swap operations under observation)."""
    if os.path.isfile(os.path.join(root, "reftable", "tables.list")):
        from dulwich.reftable import ReftableRefsContainer
        c = ReftableRefsContainer(root)
        try:
            v = c.read_ref(name)
        finally:
            close = getattr(c, "close", None)
            if close:
                close()
        if v is None or v.startswith(b"ref: "):
            return None
        return v
    try:
        with sched._real.get("builtins.open", open)(os.path.join(root, os.fsdecode(name)), "rb") as f:
            data = f.read().strip()
        if data.startswith(b"ref: "):
            return None
        return data or None
    except (FileNotFoundError, IsADirectoryError, NotADirectoryError):
        pass
    try:
        with sched._real.get("builtins.open", open)(os.path.join(root, "packed-refs"), "rb") as f:
            for line in f:
                if line.startswith(b"#") or line.startswith(b"^"):
                    continue
                sha, _, nm = line.rstrip(b"\n").partition(b" ")
                if nm == name:
                    return sha
    except FileNotFoundError:
        pass
    return None


class Rec:
    """Event log + independent view of one server repository."""

    def __init__(self, root, nrefs):
        self.root = os.path.realpath(root)
        self.nrefs = nrefs
        self.fx = fixture()
        self.ev = []
        self.seq = 0
        self.cur = None          # pusher id when no scheduler runs
        self.sched = None
        self.descs = {}          # p -> descriptor
        self.present = set()
        self._in = set()         # pushers inside a wrapped ref operation
        self._inpack = set()
        self._refop = {}         # p -> record of the ref operation in progress

    def who(self):
        a = getattr(greenlet.getcurrent(), "actor_id", None)
        return a if a is not None else self.cur

    def yp(self, desc):
        a = getattr(greenlet.getcurrent(), "actor_id", None)
        if self.sched is not None and a is not None:
            self.sched.yield_point(a, desc)

    def refs_now(self):
        return [self.fx.v(read_ref_file(self.root, REFNAMES[i])) for i in range(self.nrefs)]

    def store_now(self):
        """Which fixture commits the object store holds, read from the directory: a loose file
        objects/xx/yyyy, or an entry in the name table of a pack index (v2)."""
        objdir = os.path.join(self.root, "objects")
        idx = []
        try:
            for f in os.listdir(os.path.join(objdir, "pack")):
                if f.endswith(".idx") and os.path.exists(os.path.join(objdir, "pack", f[:-4] + ".pack")):
                    with open(os.path.join(objdir, "pack", f), "rb") as fh:
                        idx.append(fh.read())
        except FileNotFoundError:
            pass
        out = []
        for i in range(1, self.fx.K + 1):
            hx = self.fx.sha[i].decode()
            if os.path.exists(os.path.join(objdir, hx[:2], hx[2:])):
                out.append(i)
                continue
            raw = bytes.fromhex(hx)
            for data in idx:
                if data[:4] == b"\xfftOc":
                    n = int.from_bytes(data[8 + 255 * 4:8 + 256 * 4], "big")
                    pos = data.find(raw, 8 + 1024, 8 + 1024 + 20 * n)
                    while pos != -1 and (pos - 8 - 1024) % 20:
                        pos = data.find(raw, pos + 1, 8 + 1024 + 20 * n)
                    if pos != -1:
                        out.append(i)
                        break
                else:       # v1 index: 24-byte entries (offset, name) after the fan-out table
                    n = int.from_bytes(data[255 * 4:256 * 4], "big")
                    if any(data[1024 + 24 * j + 4:1024 + 24 * j + 24] == raw for j in range(n)):
                        out.append(i)
                        break
        return out

    def log(self, e):
        self.seq += 1
        e["seq"] = self.seq
        self.ev.append(e)

    def cmd_index(self, p, name):
        d = self.descs.get(p)
        if d is None:
            return 0
        for i, c in enumerate(d["cmds"]):
            if REFNAMES[c["r"] - 1] == name:
                return i + 1
        return 0


_ACTIVE = {}      # realpath of repository -> Rec


def _rec_for(path):
    if not _ACTIVE:
        return None
    try:
        p = os.path.realpath(os.fsdecode(path))
    except Exception:
        return None
    r = _ACTIVE.get(p)
    if r is None and p.endswith("/objects"):
        r = _ACTIVE.get(p[:-8])
    return r


_patched = []


def install():
    """Wrap the ref operations and pack ingestion of the on-disk backends (harness process only)."""
    if _patched:
        return
    from dulwich.object_store import DiskObjectStore
    from dulwich.refs import DiskRefsContainer
    try:
        from dulwich.reftable import ReftableRefsContainer
    except Exception:      # a tree without the reftable backend
        ReftableRefsContainer = None

    def wrap_refop(kind, DiskRefsContainer=DiskRefsContainer):
        orig = getattr(DiskRefsContainer, kind)

        def w(self, name, *a, **kw):
            rec = _rec_for(self.path)
            if rec is None or rec.who() in rec._in:
                return orig(self, name, *a, **kw)
            p = rec.who()
            rec.yp(("refop", name))
            fx = rec.fx
            if kind == "set_if_equals":
                cold, cnew = a[0], a[1]
            elif kind == "add_if_new":
                cold, cnew = ZERO, a[0]
            else:
                cold, cnew = a[0], ZERO
            # value before the operation: read now, and -- when the run has a scheduling point at the
            # acquisition of the ref's lock file -- read again by lock_observer() the moment this push
            # holds <ref>.lock (everything from there to the return is one atomic step of the schedule)
            cur = {"name": name, "pre": fx.v(read_ref_file(rec.root, name)), "locked": False}
            res, exc = None, None
            rec._in.add(p)
            rec._refop[p] = cur
            try:
                res = orig(self, name, *a, **kw)
            except BaseException as e:
                exc = e
            finally:
                rec._in.discard(p)
                rec._refop.pop(p, None)
            pre = cur["pre"]
            post = fx.v(read_ref_file(rec.root, name))
            rec.log({"p": p, "op": "refop", "i": rec.cmd_index(p, name), "kind": kind, "ref": os.fsdecode(name),
                     "cold": -1 if cold is None else fx.v(cold), "cnew": fx.v(cnew), "pre": pre, "post": post,
                     "res": -1 if exc is not None else int(bool(res)), "exc": type(exc).__name__ if exc else "",
                     "refs": rec.refs_now()})
            if exc is not None:
                raise exc
            return res
        w.__name__ = kind
        _patched.append((DiskRefsContainer, kind, orig))
        setattr(DiskRefsContainer, kind, w)

    for kind in ("set_if_equals", "remove_if_equals", "add_if_new"):
        wrap_refop(kind)
        if ReftableRefsContainer is not None:
            wrap_refop(kind, ReftableRefsContainer)

    def wrap_unpack(name):
        orig = getattr(DiskObjectStore, name)

        def w(self, *a, **kw):
            rec = _rec_for(self.path)
            if rec is None or rec.who() in rec._inpack:
                return orig(self, *a, **kw)
            p = rec.who()
            rec._inpack.add(p)
            exc = None
            try:
                return orig(self, *a, **kw)
            except BaseException as e:
                exc = e
                raise
            finally:
                rec._inpack.discard(p)
                rec.log({"p": p, "op": "unpack", "ok": exc is None, "exc": type(exc).__name__ if exc else "",
                         "store": rec.store_now()})
        w.__name__ = name
        _patched.append((DiskObjectStore, name, orig))
        setattr(DiskObjectStore, name, w)

    wrap_unpack("add_thin_pack")
    wrap_unpack("add_pack_data")

    # the update hook is asked about every command before anything else is decided about it: the first
    # call marks the start of receive-pack's validation of the commands (used to tell a ref that went
    # stale before validation from one that went stale between validation and application)
    from dulwich.server import ReceivePackHandler
    orig_on_update = ReceivePackHandler._on_update

    def on_update(self, ref_name, old_sha, new_sha):
        try:
            rec = _rec_for(self.repo.controldir())
        except Exception:
            rec = None
        if rec is not None:
            rec.log({"p": rec.who(), "op": "validate", "ref": os.fsdecode(ref_name)})
        return orig_on_update(self, ref_name, old_sha, new_sha)
    _patched.append((ReceivePackHandler, "_on_update", orig_on_update))
    ReceivePackHandler._on_update = on_update


def uninstall():
    while _patched:
        cls, name, orig = _patched.pop()
        setattr(cls, name, orig)


# --------------------------------------------------------------------------- hooks
class DeclineUpdate:
    def __init__(self, names):
        self.names = set(names)

    def execute(self, ref, old, new):
        from dulwich.errors import HookError
        if ref in self.names:
            raise HookError("declined by update hook")
        return (b"", b"")


class DeclinePreReceive:
    def execute(self, client_refs):
        from dulwich.errors import HookError
        raise HookError("declined by pre-receive hook")


# --------------------------------------------------------------------------- one push
def build_request(desc, olds=None):
    """pkt-line request of a receive-pack client: command lines, flush, pack."""
    from dulwich.protocol import pkt_line
    fx = fixture()
    out = []
    first = True
    for c in desc["cmds"]:
        line = fx.sha[c["old"]] + b" " + fx.sha[c["new"]] + b" " + REFNAMES[c["r"] - 1]
        if first:
            if desc["caps"]:
                line += b"\0" + b" ".join(os.fsencode(x) for x in sorted(desc["caps"]))
            first = False
        out.append(pkt_line(line + b"\n"))
    out.append(pkt_line(None))
    if any(c["new"] for c in desc["cmds"]):
        out.append(fx.pack(desc["pack"], desc["packok"]))
    return b"".join(out)


def decode_answer(desc, data, stateless):
    """What a real client concludes from the server's answer."""
    from dulwich.client import LocalGitClient, ReportStatusParser, read_pkt_refs_v1
    from dulwich.errors import GitProtocolError, SendPackError
    from dulwich.protocol import Protocol
    f = BytesIO(data)
    proto = Protocol(f.read, lambda b: None)
    adv = None
    if not stateless:
        adv, _caps = read_pkt_refs_v1(proto.read_pkt_seq())
    caps = {os.fsencode(c) for c in desc["caps"]}
    n = len(desc["cmds"])
    if b"report-status" not in caps:
        if b"side-band-64k" in caps:
            # a client that asked for the side-band still reads it (progress / fatal messages)
            from dulwich.errors import HangupException
            cli = LocalGitClient()
            cli.protocol_version = 0
            cli._report_status_parser = None
            try:
                cli._handle_receive_pack_tail(proto, caps)
            except HangupException:
                pass                    # the server said nothing and closed
            except GitProtocolError as e:
                return {"unp": "fail", "st": ["-"] * n, "rest": 0, "err": type(e).__name__ + ":" + str(e)[:80]}
        return {"unp": "none", "st": ["-"] * n, "rest": len(f.read()), "err": ""}
    cli = LocalGitClient()
    cli.protocol_version = 0
    cli._report_status_parser = ReportStatusParser()
    try:
        status = cli._handle_receive_pack_tail(proto, caps)
    except SendPackError as e:
        return {"unp": "fail", "st": ["-"] * n, "rest": 0, "err": str(e)[:80]}
    except GitProtocolError as e:      # e.g. the server's message on the fatal side-band channel
        return {"unp": "fail", "st": ["-"] * n, "rest": 0, "err": type(e).__name__ + ":" + str(e)[:80]}
    st = []
    for c in desc["cmds"]:
        name = REFNAMES[c["r"] - 1]
        if status is None or name not in status:
            st.append("-")
        else:
            st.append("ok" if status[name] is None else "ng")
    return {"unp": "ok", "st": st, "rest": len(f.read()), "err": ""}


def wire_push(rec, p, desc, stateless=False):
    from dulwich.protocol import ReceivableProtocol
    from dulwich.repo import Repo
    from dulwich.server import DictBackend, ReceivePackHandler
    rec.yp(("start", p))
    repo = Repo(rec.root)
    exc = ""
    out = BytesIO()
    try:
        if desc["predecl"]:
            repo.hooks["pre-receive"] = DeclinePreReceive()
        if desc["decl"]:
            repo.hooks["update"] = DeclineUpdate(REFNAMES[r - 1] for r in desc["decl"])
        inp = BytesIO(build_request(desc))
        waiting = [not stateless and p == 1]        # (explored for the first pusher; the others are the racers)

        def recv(n):
            # connection-oriented receive-pack: the advertisement has been written, the client's
            # command list has not been read yet -- another push may complete right here
            if waiting[0]:
                waiting[0] = False
                rec.yp(("commands", p))
            return inp.read(n)
        proto = ReceivableProtocol(recv, out.write)
        h = ReceivePackHandler(DictBackend({"/": repo}), ["/"], proto, stateless_rpc=stateless)
        try:
            h.handle()
        except Exception as e:      # a crash of the handler: the client sees a hang-up
            exc = type(e).__name__
    finally:
        repo.close()
    if exc:
        ans = {"unp": "error", "st": ["-"] * len(desc["cmds"]), "rest": 0, "err": exc}
    else:
        try:
            ans = decode_answer(desc, out.getvalue(), stateless)
        except Exception as e:
            ans = {"unp": "error", "st": ["-"] * len(desc["cmds"]), "rest": 0, "err": "decode:" + type(e).__name__}
    rec.log({"p": p, "op": "done", "unp": ans["unp"], "st": ans["st"], "err": ans["err"], "rest": ans["rest"],
             "refs": rec.refs_now(), "store": rec.store_now()})


def local_push(rec, p, desc):
    from dulwich.client import LocalGitClient
    from dulwich.pack import pack_objects_to_data
    fx = fixture()
    rec.yp(("start", p))
    new_refs = {REFNAMES[c["r"] - 1]: fx.sha[c["new"]] for c in desc["cmds"]}

    def update_refs(old):
        rec.log({"p": p, "op": "lstart", "olds": [fx.v(old.get(REFNAMES[c["r"] - 1])) for c in desc["cmds"]]})
        rec.yp(("update_refs", p))
        return dict(new_refs)

    def gen(have, want, ofs_delta=False, progress=None):
        rec.yp(("generate_pack_data", p))
        objs = [(o, None) for i in sorted(desc["pack"]) for o in fx.objs[i]]
        return pack_objects_to_data(objs)

    exc = ""
    st = ["-"] * len(desc["cmds"])
    try:
        res = LocalGitClient().send_pack(rec.root, update_refs, gen, atomic="atomic" in desc["caps"])
        status = res.ref_status or {}
        st = ["ok" if status.get(REFNAMES[c["r"] - 1]) is None else "ng" for c in desc["cmds"]]
    except Exception as e:
        exc = type(e).__name__
    rec.log({"p": p, "op": "done", "unp": "error" if exc else "ok", "st": st, "err": exc, "rest": 0,
             "refs": rec.refs_now(), "store": rec.store_now()})


def is_ref_lock(op, path):
    return path is not None and path.startswith("refs/") and path.endswith(".lock")


def lock_observer(rec):
    def observe(world, ev):
        if ev.get("op") != "open_excl":
            return
        # (a failed acquisition is the instant the operation gives up: same reading)
        cur = rec._refop.get(ev.get("a"))
        if cur is None or cur["locked"] or ev.get("p") != os.fsdecode(cur["name"]) + ".lock":
            return
        cur["locked"] = True
        cur["pre"] = rec.fx.v(read_ref_file(rec.root, cur["name"]))
    return observe


# --------------------------------------------------------------------------- one case
def run_case(tpl: Templates, case, prefix=(), stateless=False, explore_info=None):
    """Execute the pushes of `case` on a fresh real repository.  Returns the trace dict.
    One pusher: plain call.  Several: greenlets under the scheduler with schedule `prefix`."""
    install()
    root = tpl.fresh(case["refs0"], case["store0"], case.get("layout", "loose"), keep=bool(case.get("lockyield")))
    nrefs = len(case["refs0"])
    rec = Rec(root, nrefs)
    _ACTIVE[rec.root] = rec
    descs = case["push"]
    for p, d in enumerate(descs, 1):
        rec.descs[p] = d
    s = None
    try:
        if len(descs) == 1:
            rec.cur = 1
            (local_push if descs[0]["kind"] == "local" else wire_push)(rec, 1, descs[0], *(() if descs[0]["kind"] == "local" else (stateless,)))
        else:
            lockyield = bool(case.get("lockyield"))
            if lockyield:
                # additional scheduling point inside every ref operation: the acquisition of the ref's
                # own lock file, i.e. between whatever the operation read beforehand (packed-refs, symref
                # chain) and its compare-and-write under the lock
                world = sched.World(root, observe=lock_observer(rec), yield_ops={"open_excl"}, yield_pred=is_ref_lock,
                                    wrap_files=False)
            else:
                world = sched.World(root, yield_ops=set())
            actors = {}
            for p, d in enumerate(descs, 1):
                if d["kind"] == "local":
                    actors[p] = (lambda p=p, d=d: local_push(rec, p, d))
                else:
                    actors[p] = (lambda p=p, d=d: wire_push(rec, p, d, stateless))
            s = sched.Scheduler(world, actors, prefix, collect="never")
            rec.sched = s
            if lockyield:
                with sched.Interposer(world):
                    s.run()
                world.events.clear()
            else:
                s.run()
            rec.sched = None
    finally:
        _ACTIVE.pop(rec.root, None)
        shutil.rmtree(root, ignore_errors=True)
    tr = {"refs0": list(case["refs0"]), "store0": sorted(case["store0"]), "push": descs, "ev": rec.ev,
          "layout": case.get("layout", "loose"), "stateless": stateless}
    if case.get("lockyield"):
        tr["lockyield"] = True
    if s is not None:
        tr["choices"] = s.choices()
        tr["sched_trace"] = [(list(en), ch, cur) for (en, ch, cur) in s.trace]
        for p, r in s.results.items():
            if r.exc:
                tr.setdefault("actor_exc", {})[str(p)] = f"{r.exc}: {r.exc_msg}"
    return tr


# --------------------------------------------------------------------------- projections
def project_real(tr):
    """What is compared with a behaviour of the specification: executed ref operations in global
    order, and per push what the client was told, plus the final repository."""
    ops = tuple((e["p"], e["i"], e["pre"], e["post"]) for e in tr["ev"] if e["op"] == "refop")
    done = {e["p"]: e for e in tr["ev"] if e["op"] == "done"}
    told = tuple((done[p]["unp"] if (_reported(d) or done[p]["unp"] == "error") else "none", tuple(done[p]["st"]))
                 if p in done else ("missing", ()) for p, d in enumerate(tr["push"], 1))
    last = tr["ev"][-1] if tr["ev"] else None
    final = max((e for e in tr["ev"] if e["op"] == "done"), key=lambda e: e["seq"], default=None)
    refs = tuple(final["refs"]) if final else tuple(tr["refs0"])
    store = tuple(final["store"]) if final else tuple(tr["store0"])
    return (ops, told, refs, store)


def _reported(d):
    return d["kind"] == "local" or "report-status" in d["caps"]


def project_model(beh):
    """Same projection of a behaviour emitted by TLC (Summary record of RecvPack.tla)."""
    push = beh["push"]
    ops = []
    stepwise = {h["p"] for h in beh["hist"] if h["a"] == "update"}
    for h in beh["hist"]:
        if h["a"] == "update" and h["x"]:
            ops.append((h["p"], h["i"], h["pre"], h["post"]))
        elif h["a"] in ("txn", "lcheck") and h["p"] not in stepwise and any(beh["exe"][h["p"] - 1]):
            # validation and application as one step: the ref operations in command order
            p = h["p"]
            for i in range(len(push[p - 1]["cmds"])):
                ops.append((p, i + 1, beh["pre"][p - 1][i], beh["post"][p - 1][i]))
    told = []
    for p, d in enumerate(push, 1):
        if d["kind"] == "local":
            told.append(("ok", tuple(beh["st"][p - 1])))
        elif "report-status" in d["caps"]:
            told.append((beh["unp"][p - 1], tuple(beh["st"][p - 1])))
        else:
            told.append(("none", tuple("-" for _ in d["cmds"])))
    return (tuple(ops), tuple(told), tuple(beh["refs"]), tuple(sorted(beh["store"])))


def case_of_behaviour(beh):
    """The case (initial repository + pushes) of an emitted behaviour, as run_case expects it."""
    push = []
    for d in beh["push"]:
        push.append({"kind": d["kind"], "cmds": [dict(c) for c in d["cmds"]], "caps": sorted(d["caps"]),
                     "pack": sorted(d["pack"]), "packok": bool(d["packok"]), "decl": sorted(d["decl"]),
                     "predecl": bool(d["predecl"])})
    return {"refs0": list(beh["ini"]["refs"]), "store0": sorted(beh["ini"]["store"]), "push": push}

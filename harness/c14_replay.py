"""C14 replay engine: one model transition = one step on a real repository, observed by three readers.

  W  the long-lived Repo object (opened and warmed on the source state, so it carries the caches of
     a process that was running before the step; it performs the step itself when who == 'w')
  F  a fresh Repo object on the same directory (acceleration files present)
  N  a fresh Repo object on a copy with every acceleration file removed (commit-graph, midx,
     bitmaps deleted; packed-refs exploded into loose refs; pack indexes regenerated as v2 by C git)

Property clauses (-> VIOLATION): F != N, W != N on any query; an answer changed across a step that
does not change primary data; a bitmap sitting next to a pack it was not built for is accepted.
Shape clauses (-> drift): the projected directory differs from the model's successor state.
"""
from __future__ import annotations

import json
import os
import shutil
import tarfile
import zlib

from . import c14_exec as X
from . import tlaval

QKINDS = ("has", "get", "par", "walk", "depth", "anc", "mb", "rc", "ro", "miss", "cut", "miss_s", "fshallow", "depth_m", "refs", "ref", "all")
# steps that leave primary data (objects that stay reachable, ref values) untouched
TRANSPARENT_ACTS = {"PackRefs", "PackLoose", "RepackD", "BuildCg", "BuildMidx", "BuildBmp", "Remove",
                    "CopyMidx", "CopyCg", "CopyBmp", "Reindex"}
# steps that write primary data through dulwich or git (the variant without acceleration data performs them too)
PRIMARY_ACTS = {"Commit", "SetRef", "DeleteRef", "PackLoose", "RepackD", "Gc"}
SITE = {
    "has": "dulwich/object_store.py:DiskObjectStore.contains_packed",
    "get": "dulwich/object_store.py:DiskObjectStore.get_raw",
    "all": "dulwich/object_store.py:PackBasedObjectStore.__iter__",
    "par": "dulwich/repo.py:ParentsProvider.get_parents",
    "walk": "dulwich/walk.py:Walker (Repo.get_walker)",
    "depth": "dulwich/object_store.py:get_depth",
    "anc": "dulwich/object_store.py:_collect_ancestors",
    "mb": "dulwich/graph.py:find_merge_base",
    "rc": "dulwich/object_store.py:get_reachability_provider.get_reachable_commits",
    "ro": "dulwich/object_store.py:get_reachability_provider.get_reachable_objects",
    "miss": "dulwich/object_store.py:MissingObjectFinder",
    "cut": "dulwich/object_store.py:_collect_ancestors(shallow)",
    "miss_s": "dulwich/object_store.py:MissingObjectFinder(shallow)",
    "fshallow": "dulwich/object_store.py:find_shallow",
    "depth_m": "dulwich/object_store.py:get_depth(max_depth)",
    "refs": "dulwich/refs.py:DiskRefsContainer.as_dict",
    "ref": "dulwich/refs.py:DiskRefsContainer.__getitem__",
}


def parse_label(lab):
    lab = lab.replace('\\"', '"')
    if "(" not in lab:
        return lab, ()
    name, rest = lab.split("(", 1)
    vals = tlaval.parse("<<" + rest[:-1] + ">>")
    return name, tuple(tlaval.to_py(v) for v in vals)


def norm_model(st):
    """TLC state (parsed) -> the comparable projection."""
    m = tlaval.to_py(st)
    par = m["par"]
    if isinstance(par, dict):
        par = [par[str(i + 1)] for i in range(len(par))]
    return {"n": m["n"], "par": [sorted(p) for p in par], "loose": sorted(m["loose"]),
            "packs": sorted([sorted(p[0]), p[1]] for p in m["packs"]),
            "tref": m["tref"], "lref": m["lref"], "pref": m["pref"],
            "graft": [({"has": False, "p": []} if sorted(x) == [len(par) + 1] else {"has": True, "p": sorted(x)})
                      for x in (m["graft"] if not isinstance(m["graft"], dict) else [m["graft"][str(i + 1)] for i in range(len(m["graft"]))])],
            "shal": sorted(m["shal"]),
            "cg": {"on": m["cg"]["on"], "commits": sorted(m["cg"]["commits"]), "closed": m["cg"]["closed"]},
            "midx": {"on": m["midx"]["on"], "packs": sorted([sorted(p[0]), p[1]] for p in m["midx"]["packs"])},
            "bmp": sorted(({"at": [sorted(b["at"][0]), b["at"][1]], "for": [sorted(b["for"][0]), b["for"][1]],
                            "sel": sorted(b["sel"])} for b in m["bmp"]),
                          key=lambda x: (x["at"], x["for"])),
            "idxv": m["idxv"]}


def shape_diff(model, real):
    d = []
    if model["graft"][:model["n"]] != real["graft"]:
        d.append(f"graft: model {model['graft']} real {real['graft']}")
    for k in ("n", "loose", "packs", "lref", "pref", "midx", "shal"):
        if model[k] != real[k]:
            d.append(f"{k}: model {model[k]} real {real[k]}")
    if [p for p in model["par"][:model["n"]]] != [real["par"][i + 1] for i in range(real["n"])]:
        d.append(f"par: model {model['par']} real {real['par']}")
    mb = [{"at": b["at"], "for": b["for"]} for b in model["bmp"]]
    if mb != real["bmp"]:
        d.append(f"bmp: model {mb} real {real['bmp']}")
    mc, rc = model["cg"], real["cg"]
    if mc["on"] != rc["on"] or (mc["on"] and (mc["commits"] != rc["commits"] or mc["closed"] != rc["closed"])):
        d.append(f"cg: model {mc} real {rc}")
    return d


def stale_class(m):
    """How each accelerator of model state m relates to the primary data (for signatures)."""
    present = set(m["loose"])
    for p in m["packs"]:
        present |= set(p[0])
    out = {}
    if m["midx"]["on"]:
        listed = {i for p in m["midx"]["packs"] for i in p[0]}
        out["midx"] = ("fresh" if m["midx"]["packs"] == m["packs"] else
                       "lists-pruned" if not listed <= present else "stale-packs")
    if m["cg"]["on"]:
        out["cg"] = ("lists-pruned" if not set(m["cg"]["commits"]) <= present else
                     "open" if not m["cg"]["closed"] else "fresh")
    live = [b for b in m["bmp"] if b["at"] in m["packs"]]
    if live:
        def closed(b):
            anc = set()
            todo = list(b["sel"])
            while todo:
                c = todo.pop()
                if c not in anc:
                    anc.add(c)
                    todo += m["par"][c - 1]
            return anc <= set(b["for"][0])
        out["bmp"] = ("mismatched" if any(b["at"] != b["for"] for b in live) else
                      "partial-pack" if not all(closed(b) for b in live) else "fresh")
    if any(m["pref"].values()):
        out["pref"] = "shadowed" if any(m["lref"][r] and m["pref"][r] and m["lref"][r] != m["pref"][r] for r in m["pref"]) else "fresh"
    if m.get("idxv") == 1:
        out["idx"] = "v1"
    return out


def diff_answers(a, b):
    """Query kinds (and one example key each) on which two batteries disagree."""
    out = {}
    for k in QKINDS:
        va, vb = a.get(k), b.get(k)
        if va == vb:
            continue
        if isinstance(va, dict) and isinstance(vb, dict):
            keys = sorted(x for x in set(va) | set(vb) if va.get(x) != vb.get(x))
            out[k] = (keys[0], va.get(keys[0]), vb.get(keys[0]))
        else:
            out[k] = ("", va, vb)
    return out


def restrict(ans, keep_groups):
    """Answers about the groups in keep_groups only (for steps that prune unreachable objects)."""
    keep = set(keep_groups)

    def gk(key):       # groups mentioned in a query key
        return {int(x) for part in key.replace("|", ",").split(",") if part for x in [part.rstrip("ctb")]}
    out = {}
    for k, v in ans.items():
        if isinstance(v, dict) and k in ("has", "get", "par", "walk", "depth", "anc", "mb", "rc", "ro", "miss", "cut", "miss_s", "depth_m"):
            out[k] = {q: r for q, r in v.items() if gk(q) <= keep}
        elif k == "fshallow" and isinstance(v, dict):
            out[k] = {q: r for q, r in v.items() if int(q.split("|")[0]) in keep}
        elif False:
            out[k] = {q: r for q, r in v.items() if gk(q) <= keep}
        elif k == "all":
            out[k] = [o for o in v if int(o[:-1]) in keep] if isinstance(v, list) else v
        else:
            out[k] = v
    return out


def snapshot(root, path):
    with tarfile.open(path, "w") as tf:
        tf.add(root, arcname=".")


def restore(path, root):
    shutil.rmtree(root, ignore_errors=True)
    os.makedirs(root)
    with tarfile.open(path) as tf:
        tf.extractall(root)


def h32(*parts):
    return zlib.crc32(repr(parts).encode())


def _during_packed_refs_read(w, action):
    """Run action() at the moment the reader w has consumed packed-refs inside get_packed_refs() and has not
    returned yet (its in-flight answer may be the old one and is not judged).  If w never gets there (no
    packed-refs file), the action runs afterwards.  Returns True if the action ran inside the read."""
    import dulwich.refs as R_
    fired, err = [], []

    def wrap(orig):
        def gen(f):
            yield from orig(f)
            if not fired:
                fired.append(True)
                try:
                    action()
                except BaseException as e:      # re-raised outside the reader
                    err.append(e)
        return gen
    saved = (R_.read_packed_refs, R_.read_packed_refs_with_peeled)
    R_.read_packed_refs, R_.read_packed_refs_with_peeled = wrap(saved[0]), wrap(saved[1])
    try:
        try:
            w.refs.as_dict()
        except Exception:
            pass
    finally:
        R_.read_packed_refs, R_.read_packed_refs_with_peeled = saved
    if err:
        raise err[0]
    if not fired:
        action()
        return False
    return True


def step(root, scratch, src_model, lab, dst_model, src_ans, seed=0, who=None, opts=None, light=True, want_n=True, n_cache=None, force=None):
    """Execute one transition on the repository at root (in place) and observe it.

    Returns a dict: who, opts, shape (list of str), viol (list of (site, clause, qkind, cause, detail)),
    ans (the F answers), ans_n, real (projection)."""
    from dulwich.repo import Repo
    act, args = parse_label(lab)
    side = X.Side(root)
    hv = h32(seed, json.dumps(src_model, sort_keys=True), lab)
    if who is None:
        who = "wx"[hv & 1]
    if opts is None:
        opts = (hv >> 1) & 7
    if force and act in force:             # a history family that needs a particular way of doing a step
        who, opts = force[act]
    # somebody else replaces packed-refs WHILE the long-lived reader is inside get_packed_refs (it has read the
    # old file and not yet recorded which file its cache belongs to)
    race = who == "x" and act in ("PackRefs", "DeleteRef")
    res = {"lab": lab, "who": who, "opts": opts, "shape": [], "viol": [], "ans": None, "ans_n": None}
    pre = None
    if act in PRIMARY_ACTS:
        pre = os.path.join(scratch, "pre")
        shutil.rmtree(pre, ignore_errors=True)
        shutil.copytree(root, pre)
        X.strip(pre)
    w = Repo(X.R(root))
    try:
        X.warm(w, side, refs=not race)
        try:
            if race:
                res["race"] = _during_packed_refs_read(w, lambda: X.apply(root, side, act, args, who, w, opts, src_model["tref"]))
            else:
                X.apply(root, side, act, args, who, w, opts, src_model["tref"])
        except X.GitRefused as e:         # not dulwich's behaviour: the history ends here, counted
            res["skip"] = str(e)[:300]
            return res
        except Exception as e:            # the step itself failed: the model says it is enabled
            res["shape"].append(f"action raised {type(e).__name__}: {str(e)[:200]}")
            return res
        try:
            real = X.project(root, side)
        except Exception as e:
            # the harness' own parsers cannot make sense of the directory (e.g. a malformed accelerator file):
            # that is a shape finding; what the readers answer is still observed and compared below
            real = None
            res["shape"].append(f"unprojectable: {type(e).__name__}: {e}")
        if real is not None:
            res["real"] = {k: real[k] for k in ("n", "par", "loose", "packs", "lref", "pref", "graft", "shal", "cg", "midx", "bmp")}
            res["shape"] = shape_diff(dst_model, real)
        aw = X.battery(w, side, light=light)
    finally:
        w.close()
    f = Repo(X.R(root))
    try:
        af = X.battery(f, side, light=light)
        low = X.lowlevel(f, side, dst_model, root)
    finally:
        f.close()
    res["ans"] = af
    res["ans_w"] = aw
    # the variant without acceleration data
    an = None
    nkey = json.dumps([dst_model[k] for k in ("n", "par", "loose", "packs", "tref", "graft", "shal")], sort_keys=True)
    if pre is None and not want_n and n_cache is not None:
        an = n_cache.get(nkey)
    if an is None:
        nroot = os.path.join(scratch, "n")
        shutil.rmtree(nroot, ignore_errors=True)
        if pre is not None:
            # the step changes primary data: the variant "without" never had the acceleration data -- it is the
            # source state stripped, then the same step performed the same way, then stripped again
            os.rename(pre, nroot)
            nside = X.Side(nroot)
            nw = Repo(X.R(nroot))
            try:
                X.apply(nroot, nside, act, args, who, nw, opts, src_model["tref"])
            except Exception as e:
                res["shape"].append(f"variant without acceleration data: action raised {type(e).__name__}: {str(e)[:200]}")
            finally:
                nw.close()
        else:
            shutil.copytree(root, nroot)
        X.strip(nroot)
        nr = Repo(X.R(nroot))
        try:
            an = X.battery(nr, side, light=light)
        finally:
            nr.close()
        if n_cache is not None and pre is None:
            n_cache[nkey] = an
    res["ans_n"] = an
    cls = stale_class(dst_model)

    def cause_for(q, bad):
        """Which accelerator kinds, removed alone, make the answer agree with N."""
        resp = []
        for k in ("cg", "midx", "bmp", "pref", "idx"):
            if k not in cls:
                continue
            kr = os.path.join(scratch, "k")
            shutil.rmtree(kr, ignore_errors=True)
            shutil.copytree(root, kr)
            X.strip(kr, kinds=(k,))
            r = Repo(X.R(kr))
            try:
                ak = X.battery(r, side, light=light)
            finally:
                r.close()
            if ak.get(q) == an.get(q):
                resp.append(f"{k}:{cls[k]}")
        rel = {k: v for k, v in cls.items() if k == "pref"} if q in ("ref", "refs") else cls    # refs only depend on packed-refs
        return "+".join(resp) or "acc=" + ",".join(f"{k}:{v}" for k, v in sorted(rel.items()))

    def is_exc(v):
        return isinstance(v, str) and v.startswith("exc:")

    fresh_bad = diff_answers(af, an)
    for q, (key, va, vb) in fresh_bad.items():
        clause = f"raises:{va[4:]}" if is_exc(va) and not is_exc(vb) else "with!=without"
        res["viol"].append((SITE[q], clause, q, cause_for(q, af), f"query {q}[{key}]: with {va!r} without {vb!r}"))
    # the long-lived reader may keep serving objects of a pack it still holds open after somebody pruned them
    # (that is its pack cache, not acceleration data): compare it on the objects that are still there
    present = set(dst_model["loose"]) | {i for p in dst_model["packs"] for i in p[0]}
    awr, anr = restrict(aw, present), restrict(an, present)
    for q, (key, va, vb) in diff_answers(awr, anr).items():
        if act in ("SetGraft", "SetShallow"):
            break                         # graft points / shallow file are primary data a process reads when it opens
        if q in fresh_bad:
            continue                      # already reported for the fresh reader
        doer = "self" if who == "w" else "other"
        clause = f"warm-raises:{va[4:]}" if is_exc(va) and not is_exc(vb) else "warm!=without"
        res["viol"].append((SITE[q], clause, q, f"{doer}-did:{act}",
                            f"query {q}[{key}]: long-lived reader {va!r} without {vb!r} (provider {aw.get('provider')})"))
    # a step that only touches acceleration data / the layout must not change any accelerator-free answer
    if src_ans is not None and src_ans.get("n") is not None and act in TRANSPARENT_ACTS:
        for q, (key, va, vb) in diff_answers(src_ans["n"], an).items():
            res["viol"].append((SITE[q], f"changed-by:{act}", q, "args=" + ",".join(map(str, args[:1])),
                                f"query {q}[{key}]: before {va!r} after {vb!r} (both without acceleration data)"))
    for site, clause, detail in low:
        if clause in ("BitmapDecode", "BitmapDead"):
            # latent: no query consults a bitmap read from disk today (BitmapReachability looks entries up by hex
            # id, read_bitmap_file keys them by binary id), so no answer changes; recorded, not a violation
            res.setdefault("info", []).append(f"{site}: {detail}")
        else:
            res["viol"].append((site, clause, "bitmap", "bmp:" + cls.get("bmp", "?"), detail))
    return res

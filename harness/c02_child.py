"""C02 worker: runs the real dulwich pack code on a batch of cases in a child interpreter.

    /venv/bin/python harness/c02_child.py <job.json>

job = {"mode": "py" | "rs", "out": path, "dir": scratch, "kind": "writer" | "varint" | "idx" | "gitpack", ...}
mode "rs": dulwich._pack is the extension freshly built from the working tree; "py": the extensions are
blocked (pure Python).  Two halves, kept apart on purpose:

  observe_*   call dulwich and record what it did (files written, what it read back, what it raised)
  analyse_*   never touches dulwich: parses the written bytes with the independent parser of c02_lib,
              asks C git, and builds the trace record that TLC judges (PackFmtTrace)

Verdicts are the parent's (TLC's) business; the child reports observations and the python-side
comparisons that are byte comparisons (git's idx identical, cat-file contents, expected tables of
PackFmtIdx / PackFmtVarint states).
"""
from __future__ import annotations

import hashlib
import io
import json
import os
import random
import shutil
import subprocess
import sys
import time
import traceback
import warnings

HERE = os.path.dirname(os.path.abspath(__file__))
sys.path.insert(0, os.path.dirname(HERE))

from harness import c02_lib as L  # noqa: E402

KIND = {0: "full", 1: "ofs", 2: "ref"}


def setup(mode):
    from harness import rustext
    from harness.core import REPO
    sys.path.insert(0, REPO)
    rustext.install(mode)
    warnings.simplefilter("ignore")
    import dulwich
    import dulwich.pack as P
    where = os.path.realpath(os.path.dirname(os.path.dirname(dulwich.__file__)))
    if where != os.path.realpath(REPO):
        raise SystemExit(f"worker imported dulwich from {where}, expected {REPO}")
    ext = getattr(P.apply_delta, "__module__", "") == "dulwich._pack"
    if ext != (mode == "rs"):
        raise SystemExit(f"mode {mode}: apply_delta comes from {getattr(P.apply_delta, '__module__', '?')}")
    return P


def exc_info(e, where=""):
    return {"cls": type(e).__name__, "msg": str(e)[:200], "where": where}


def chash(data: bytes) -> str:
    return hashlib.sha1(data).hexdigest()


# =========================================================================== objects of a case
def case_objects(case):
    """-> (oid, [(id, type, data)] for objs, [(id, type, data)] for have)"""
    oid = case["row"][8]
    u = L.universe(oid)
    cust = {int(k): v for k, v in (case.get("custom") or {}).items()}

    def get(i):
        if i in cust:
            t, recipe = cust[i][:2]
            return (i, t, L.blob(recipe))
        t, d = u[i]
        return (i, t, d)
    return oid, [get(i) for i in case["objs"]], [get(i) for i in case.get("have", [])]


# =========================================================================== dulwich half
def fmt_of(oid):
    from dulwich.object_format import SHA1, SHA256
    return SHA1 if oid == 20 else SHA256


def mk(t, data, fmt):
    from dulwich.objects import ShaFile
    return ShaFile.from_raw_string(t, data, object_format=fmt)


def hexid(o, fmt):
    return o.get_id(fmt) if fmt.oid_length != 20 else o.id


def write_idx(P, path, entries, data_sum, version):
    lst = sorted([(k, v[0], v[1]) for (k, v) in entries.items()])
    with open(path, "wb") as f:
        P.write_pack_index(f, lst, data_sum, version=version)


def observe_write(P, case, d):
    """Run the writer api of the case.  -> dict(pack, idx, src_pack, raised, store, ext_store)"""
    from dulwich.object_store import DiskObjectStore
    api, deltify, window, reuse, thin, ofs, level, idxv, oid = case["row"]
    fmt = fmt_of(oid)
    oidn, objs, have = case_objects(case)
    sha_objs = [mk(t, data, fmt) for (_i, t, data) in objs]
    out = {"pack": None, "idx": None, "src_pack": None, "raised": None, "thin": bool(thin), "src_dir": None}
    base = os.path.join(d, "p")
    win = None if window == 10 else window
    try:
        if api == 1:
            P.write_pack(base, sha_objs, fmt, deltify=bool(deltify), delta_window_size=win, compression_level=level)
            out["pack"], out["idx"] = base + ".pack", base + ".idx"
        elif api == 2:
            with open(base + ".pack", "wb") as f:
                entries, data_sum = P.write_pack_objects(f.write, sha_objs, fmt, delta_window_size=win,
                                                         deltify=bool(deltify), compression_level=level)
            out["pack"] = base + ".pack"
            write_idx(P, base + ".idx", entries, data_sum, idxv)
            out["idx"] = base + ".idx"
        elif api == 3:
            count, recs = P.pack_objects_to_data(sha_objs, deltify=bool(deltify), delta_window_size=win,
                                                 ofs_delta=bool(ofs), object_format=fmt)
            with open(base + ".pack", "wb") as f:
                entries, data_sum = P.write_pack_data(f.write, recs, fmt, num_records=count, compression_level=level)
            out["pack"] = base + ".pack"
            write_idx(P, base + ".idx", entries, data_sum, idxv)
            out["idx"] = base + ".idx"
        elif api in (4, 5):
            sd = os.path.join(d, "store")
            os.makedirs(os.path.join(sd, "pack"))
            store = DiskObjectStore(sd, pack_compression_level=level, pack_index_version=idxv, object_format=fmt)
            try:
                if api == 4:
                    pk = store.add_objects([(o, None) for o in sha_objs])
                else:
                    half = len(sha_objs) // 2
                    for o in sha_objs[:half]:
                        store.add_object(o)
                    if sha_objs[half:]:
                        store.add_objects([(o, None) for o in sha_objs[half:]])
                    store.repack()
                    packs = store.packs
                    if len(packs) > 1:
                        raise AssertionError(f"repack left {len(packs)} packs")
                    pk = packs[0] if packs else None
                if pk is not None:
                    # copy out: the store is closed below
                    shutil.copy(pk._data_path, base + ".pack")
                    shutil.copy(pk._idx_path, base + ".idx")
                    out["pack"], out["idx"] = base + ".pack", base + ".idx"
                else:
                    out["nopack"] = True
            finally:
                store.close()
        elif api in (6, 8, 9):
            sd = os.path.join(d, "src")
            os.makedirs(os.path.join(sd, "pack"))
            src_objs = sha_objs + [mk(t, data, fmt) for (_i, t, data) in have]
            uniq, seen = [], set()
            for o in src_objs:
                if o.id not in seen:
                    seen.add(o.id)
                    uniq.append(o)
            spath = os.path.join(sd, "pack", "pack-src")
            if uniq:
                P.write_pack(spath, uniq, fmt, deltify=True)
                out["src_pack"] = spath + ".pack"
            out["src_dir"] = sd
            store = DiskObjectStore(sd, object_format=fmt)
            try:
                ids = [(hexid(o, fmt), (o.type_num, None)) for o in sha_objs]
                hv = {hexid(mk(t, data, fmt), fmt) for (_i, t, data) in have}
                target = base + ".pack" if api == 6 else os.path.join(d, "stream.pack")
                with open(target, "wb") as f:
                    entries, data_sum = P.write_pack_from_container(
                        f.write, store, ids, fmt, delta_window_size=win, deltify=bool(deltify),
                        reuse_deltas=bool(reuse), compression_level=level, other_haves=hv)
                if api == 6:
                    out["pack"] = base + ".pack"
                    write_idx(P, base + ".idx", entries, data_sum, idxv)
                    out["idx"] = base + ".idx"
            finally:
                store.close()
            if api in (8, 9):
                # the stream is handed to a receiving store that holds the receiver's objects; the pack and the index
                # judged are the ones the store installs
                with open(target, "rb") as f:
                    sdata = f.read()
                if not ofs:
                    # a peer without ofs-delta: REF_DELTA also after the base
                    sdata = L.ofs_to_ref(sdata, oid, {L.obj_name(oid, t, data): (t, data) for (_i, t, data) in have})
                rd = os.path.join(d, "recv")
                os.makedirs(os.path.join(rd, "pack"))
                rs = DiskObjectStore(rd, pack_compression_level=level, pack_index_version=idxv, object_format=fmt)
                try:
                    for (_i, t, data) in have:
                        rs.add_object(mk(t, data, fmt))
                    if api == 8:
                        bio = io.BytesIO(sdata)
                        pk = rs.add_thin_pack(bio.read, None)
                    else:
                        f, commit, abort = rs.add_pack()
                        try:
                            f.write(sdata)
                        except BaseException:
                            abort()
                            raise
                        pk = commit()
                    if pk is not None:
                        shutil.copy(pk._data_path, base + ".pack")
                        shutil.copy(pk._idx_path, base + ".idx")
                        out["pack"], out["idx"] = base + ".pack", base + ".idx"
                    else:
                        out["nopack"] = True
                finally:
                    rs.close()
                out["thin"] = False          # completed by the store
                out["ingested"] = True
        elif api == 10:
            sd = os.path.join(d, "store")
            os.makedirs(os.path.join(sd, "pack"))
            store = DiskObjectStore(sd, pack_compression_level=level, pack_index_version=idxv, object_format=fmt)
            try:
                count, recs = P.pack_objects_to_data(sha_objs, deltify=bool(deltify), delta_window_size=win,
                                                     object_format=fmt)
                pk = store.add_pack_data(count, recs)
                if pk is not None:
                    shutil.copy(pk._data_path, base + ".pack")
                    shutil.copy(pk._idx_path, base + ".idx")
                    out["pack"], out["idx"] = base + ".pack", base + ".idx"
                else:
                    out["nopack"] = True
            finally:
                store.close()
        elif api == 7:
            # copy a pack record by record with the compressed chunks kept (reuse_compressed, the default)
            P.write_pack(os.path.join(d, "orig"), sha_objs, fmt, deltify=bool(deltify))
            with P.Pack(os.path.join(d, "orig"), object_format=fmt) as op:
                names = [hexid(o, fmt) for o in sha_objs]
                recs = list(op.iter_unpacked_subset(names, include_comp=True))
                with open(base + ".pack", "wb") as f:
                    entries, data_sum = P.write_pack_data(f.write, iter(recs), fmt, num_records=len(recs),
                                                          compression_level=level)
            out["pack"] = base + ".pack"
            write_idx(P, base + ".idx", entries, data_sum, idxv)
            out["idx"] = base + ".idx"
        else:
            raise ValueError(api)
    except BaseException as e:  # noqa: BLE001 - observed, judged by the parent
        if isinstance(e, (KeyboardInterrupt, SystemExit, MemoryError)):
            raise
        out["raised"] = exc_info(e, "write")
        out["tb"] = traceback.format_exc()[-600:]
    return out


def read_item(o, fmt):
    return [hexid(o, fmt).decode(), o.type_num, chash(o.as_raw_string())]


def observe_read(P, case, w, d, rng):
    """Read the written pack back through every reader the property names."""
    from dulwich.object_store import DiskObjectStore
    oid = case["row"][8]
    fmt = fmt_of(oid)
    _o, objs, have = case_objects(case)
    names = []
    for (_i, t, data) in objs:
        n = L.obj_name(oid, t, data).hex().encode()
        if n not in names:
            names.append(n)
    reads, listings = [], []
    base = w["pack"][:-5]
    if w.get("ingested"):
        # the outside bases the store appended belong to the pack now
        with P.Pack(base, object_format=fmt) as p0:
            for (_i, t, data) in have:
                n = L.obj_name(oid, t, data).hex().encode()
                if n in p0 and n not in names:
                    names.append(n)
    ext = None
    ext_store = None
    if w.get("thin") and w.get("src_dir"):
        ext_store = DiskObjectStore(w["src_dir"], object_format=fmt)
        ext = ext_store.get_raw

    def attempt(name, fn, dest):
        try:
            dest.append({"name": name, "ok": True, "items": fn()})
        except BaseException as e:  # noqa: BLE001
            if isinstance(e, (KeyboardInterrupt, SystemExit, MemoryError)):
                raise
            dest.append({"name": name, "ok": False, "items": [], "exc": exc_info(e, name)})

    def with_pack(limit, fn):
        kw = {"delta_base_cache_limit": limit} if limit else {}
        p = P.Pack(base, object_format=fmt, resolve_ext_ref=ext, **kw)
        try:
            return fn(p)
        finally:
            p.close()

    try:
        attempt("getitem", lambda: with_pack(None, lambda p: [read_item(p[n], fmt) for n in sorted(names)]), reads)
        attempt("getitem-rev-cache1",
                lambda: with_pack(1, lambda p: [read_item(p[n], fmt) for n in sorted(names, reverse=True)]), reads)
        order = [rng.choice(names) for _ in range(2 * len(names))] + list(names) if names else []
        rng.shuffle(order)

        def raw_items(p):
            out = []
            for n in order:
                t, data = p.get_raw(n)
                out.append([n.decode(), t, chash(data)])
            return out
        attempt("get_raw-shuffled-cache300", lambda: with_pack(300, raw_items), reads)
        attempt("get_raw-shuffled-cache70000", lambda: with_pack(70000, raw_items), reads)
        attempt("iterobjects", lambda: with_pack(None, lambda p: [read_item(o, fmt) for o in p.iterobjects()]), reads)
        attempt("iterobjects_subset",
                lambda: with_pack(None, lambda p: [read_item(o, fmt) for o in p.iterobjects_subset(list(names))]), reads)

        def inflater(p):
            return [read_item(o, fmt) for o in P.PackInflater.for_pack_data(p.data, resolve_ext_ref=ext)]
        attempt("PackInflater", lambda: with_pack(None, inflater), reads)

        def ent(it):
            return [[bytes(s).hex(), off, crc if crc is not None else -1] for (s, off, crc) in it]
        attempt("Pack.sorted_entries", lambda: with_pack(None, lambda p: ent(p.sorted_entries())), listings)
        attempt("index.iterentries", lambda: with_pack(None, lambda p: ent(p.index.iterentries())), listings)

        def by_offset(p):
            out = []
            for n in names:
                out.append([n.decode(), p.index.object_offset(n), -1])
            return out
        attempt("index.object_offset", lambda: with_pack(None, by_offset), listings)
        chk = []
        attempt("check", lambda: with_pack(None, lambda p: (p.check(), [])[1]), chk)
        absent = hashlib.sha1(b"absent").hexdigest().encode() if oid == 20 else hashlib.sha256(b"absent").hexdigest().encode()

        def contains(p):
            bad = [n.decode() for n in names if n not in p]
            if absent in p:
                bad.append("absent-present")
            if bad:
                raise AssertionError("membership wrong: " + ",".join(bad[:3]))
            return []
        attempt("contains", lambda: with_pack(None, contains), chk)
        idxv = case["row"][7]
        if not w.get("thin") and not (oid == 32 and idxv != 2):
            # the other index producer (scan of the pack) must write the very same file
            def rescan(p):
                pth = os.path.join(d, "rescan.idx")
                p.data.create_index(pth, version=idxv)
                with open(pth, "rb") as f1, open(w["idx"], "rb") as f2:
                    if f1.read() != f2.read():
                        raise AssertionError(f"PackData.create_index(version={idxv}) differs from the index the writer produced")
                return []
            attempt("create_index", lambda: with_pack(None, rescan), chk)
        if w.get("thin") and ext_store is not None:
            # a thin pack is completed by the receiving store, then read from there
            def completed():
                rd = os.path.join(d, "recv")
                os.makedirs(os.path.join(rd, "pack"))
                rs = DiskObjectStore(rd, object_format=fmt)
                try:
                    for (_i, t, data) in have:
                        rs.add_object(mk(t, data, fmt))
                    with open(w["pack"], "rb") as f:
                        rs.add_thin_pack(f.read, None)
                    return [read_item(rs[n], fmt) for n in sorted(names)]
                finally:
                    rs.close()
            attempt("add_thin_pack+getitem", completed, reads)
    finally:
        if ext_store is not None:
            ext_store.close()
    return reads, listings, chk


# =========================================================================== independent half
class GitBox:
    """per worker: ambient repos (hold the universe so that --strict finds every link) and empty repos."""

    def __init__(self, root):
        self.root = root
        self.amb, self.empty = {}, {}

    def ambient(self, oid):
        if oid not in self.amb:
            r = L.git_init(os.path.join(self.root, f"amb{oid}.git"), oid)
            for t, data in L.ambient_objects(oid):
                L.write_loose(r, oid, t, data)
            self.amb[oid] = r
        return self.amb[oid]

    def blank(self, oid):
        if oid not in self.empty:
            self.empty[oid] = L.git_init(os.path.join(self.root, f"blank{oid}.git"), oid)
        return self.empty[oid]


def git_opinion(box, case, w, pk_names, written_by_name, d, do_cat):
    """C git on a pack dulwich wrote.  -> {clause: message} for the clauses that fail, plus facts."""
    api, deltify, window, reuse, thin, ofs, level, idxv, oid = case["row"]
    thin = bool(w.get("thin"))
    fails, facts = {}, {}
    amb = box.ambient(oid)
    gidx = os.path.join(d, "git.idx")
    if thin:
        # thin: git completes it from the ambient repo (which holds the receiver's objects)
        with open(w["pack"], "rb") as f:
            p = subprocess.run(["git", f"--git-dir={amb}", "index-pack", "--fix-thin", "--stdin", "--strict"], stdin=f,
                               capture_output=True, env=L.git_env())
        if p.returncode != 0:
            fails["GitIndexPack"] = p.stderr.decode("utf-8", "replace")[-200:]
            return fails, facts
        name = p.stdout.decode().split()[-1]
        pb = os.path.join(amb, "objects", "pack", f"pack-{name}")
        rows, err = L.show_index(pb + ".idx", oid)
        for ext in (".pack", ".idx", ".keep", ".rev"):
            if os.path.exists(pb + ext):
                os.chmod(pb + ext, 0o644)
                os.remove(pb + ext)
        got = {r[1] for r in rows} if rows is not None else set()
        if not set(written_by_name) <= got:
            fails["GitObjectSet"] = f"completed thin pack lacks {sorted(set(written_by_name) - got)[:2]}"
        return fails, facts
    args = ["git", f"--git-dir={amb}", "index-pack", "--strict", f"--index-version={1 if idxv == 1 else 2}", "-o", gidx, w["pack"]]
    p = subprocess.run(args, capture_output=True, env=L.git_env())
    if p.returncode != 0:
        fails["GitIndexPack"] = p.stderr.decode("utf-8", "replace")[-200:]
        # without --strict: is it the duplicate / fsck rule or the format?
        p2 = subprocess.run([a for a in args if a != "--strict"], capture_output=True, env=L.git_env())
        facts["git_nonstrict_ok"] = p2.returncode == 0
    if os.path.exists(gidx) and w.get("idx") and idxv in (1, 2):
        with open(gidx, "rb") as f1, open(w["idx"], "rb") as f2:
            same = f1.read() == f2.read()
        facts["idx_identical"] = same
        if not same:
            fails["GitIdxIdentical"] = "git index-pack writes a different index for this pack"
    if w.get("idx") and idxv in (1, 2):
        p = subprocess.run(["git", f"--git-dir={amb}", "verify-pack", "-v", w["idx"]], capture_output=True, env=L.git_env())
        if p.returncode != 0:
            fails["GitVerifyPack"] = (p.stderr.decode("utf-8", "replace") + p.stdout.decode("utf-8", "replace")[-80:])[-200:]
        else:
            # "<name> <type> <size> <size-in-pack> <offset>" (+ "<depth> <base>" for deltas, whose size is the delta's)
            listed = {}
            for line in p.stdout.decode().splitlines():
                parts = line.split()
                if len(parts) >= 5 and len(parts[0]) == 2 * oid:
                    listed[parts[0]] = (parts[1], int(parts[2]) if len(parts) == 5 else None)
            want = {n: (L.TYPE_NAMES[t].decode(), size) for n, (t, size, _c) in written_by_name.items()}
            if set(listed) != set(want) or any(listed[n][0] != want[n][0] or listed[n][1] not in (None, want[n][1]) for n in want):
                fails["GitVerifyPackListing"] = f"verify-pack lists {len(listed)} objects, written {len(want)}"
    if do_cat:
        blank = box.blank(oid)
        pd = os.path.join(blank, "objects", "pack")
        os.makedirs(pd, exist_ok=True)
        use_idx = w["idx"] if (w.get("idx") and idxv in (1, 2)) else (gidx if os.path.exists(gidx) else None)
        if use_idx is not None:
            tp = os.path.join(pd, "pack-c02case")
            shutil.copy(w["pack"], tp + ".pack")
            shutil.copy(use_idx, tp + ".idx")
            try:
                got = L.cat_file_batch(blank, list(written_by_name))
                for n, (t, size, ch) in written_by_name.items():
                    g = got.get(n)
                    if g is None or g[0] != L.TYPE_NAMES[t] or chash(g[1]) != ch:
                        fails["GitCatFile"] = f"cat-file disagrees on {n[:12]}"
                        break
                facts["cat_file"] = len(got)
            except RuntimeError as e:
                fails["GitCatFile"] = str(e)[-200:]
            finally:
                os.remove(tp + ".pack")
                os.remove(tp + ".idx")
    return fails, facts


def analyse_writer(box, case, w, reads, listings, chk, d, do_cat):
    """-> result dict for the parent (trace record for TLC + python-side clauses + model comparison)."""
    api, deltify, window, reuse, thin, ofs, level, idxv, oid = case["row"]
    _o, objs, have = case_objects(case)
    res = {"cid": case["cid"], "trace": None, "py": {}, "facts": {}, "drift": [], "raised": w["raised"], "seq": None}
    ids, written, written_by_name, content_id = {}, [], {}, {}

    def cid_of(ch):
        if ch not in content_id:
            content_id[ch] = len(content_id) + 1
        return content_id[ch]
    for (i, t, data) in objs:
        n = L.obj_name(oid, t, data)
        ids[n] = i
        row = [i, t, cid_of(chash(data))]
        if row not in written:
            written.append(row)
        written_by_name[n.hex()] = (t, len(data), chash(data))
    ext_objs = {}
    for (i, t, data) in have:
        n = L.obj_name(oid, t, data)
        ids[n] = i
        ext_objs[n] = (t, data)
    if w["raised"] is not None or w.get("nopack"):
        return res
    with open(w["pack"], "rb") as f:
        pdata = f.read()
    try:
        pp = L.resolve_pack(L.parse_pack(pdata, oid), oid, ext_objs)
    except L.ParseError as e:
        res["py"]["Unparseable"] = f"pack: {e}"
        return res
    ix = None
    if w.get("idx"):
        with open(w["idx"], "rb") as f:
            idata = f.read()
        try:
            ix = L.parse_idx(idata, oid)
        except L.ParseError as e:
            res["py"]["Unparseable"] = f"idx: {e}"
    ingested = bool(w.get("ingested"))
    if ingested:
        present = {e["name"] for e in pp["entries"] if e["name"] is not None}
        for (i, t, data) in have:
            n = L.obj_name(oid, t, data)
            if n in present:
                row = [i, t, cid_of(chash(data))]
                if row not in written:
                    written.append(row)
                written_by_name[n.hex()] = (t, len(data), chash(data))
    pk, ixr = L.project(pp, ix, ids, oid, ext_ids=[] if ingested else [i for (i, _t, _d) in have],
                        pack_trailer=pp["trailer"])
    if pp["parsed_to"] != pp["dlen"]:
        res["py"]["Unparseable"] = "entries do not fill the pack up to the trailer"
    name_to_id = {n.hex(): i for n, i in ids.items()}

    def conv_items(items):
        out = []
        for (hexname, t, ch) in items:
            out.append([name_to_id.get(hexname, 2000 + len(out)), t, cid_of(ch)])
        return out

    def conv_list(items):
        out = []
        for (hexname, off, crc) in items:
            out.append([name_to_id.get(hexname, 2000 + len(out)), L.limb(off), L.crc_pair(crc) if crc >= 0 else [-1, -1]])
        return out
    res["trace"] = {
        "tid": case["cid"], "kind": "dw", "pk": pk, "hasix": ixr is not None, "ix": ixr if ixr is not None else {},
        "written": written, "depthcap": -1, "wr": not ingested,
        "reads": [{"name": r["name"], "ok": r["ok"], "items": conv_items(r["items"])} for r in reads],
        "entries": [{"name": r["name"], "ok": r["ok"], "full": r["name"] != "index.object_offset",
                     "items": conv_list(r["items"])} for r in listings],
    }
    res["excs"] = {r["name"]: r["exc"] for r in reads + listings + chk if not r["ok"]}
    for r in chk:
        if not r["ok"]:
            res["py"]["Check:" + r["name"]] = f"{r['exc']['cls']}: {r['exc']['msg']}"
    # the real decisions, for the comparison with the writer machine's behaviours
    seq = [[e["id"], {"full": 0, "ofs": 1, "ref": 2}[e["kind"]], e["base"]] for e in pk["es"]]
    res["seq"] = seq
    res["hdrs"] = [e["hdr"] if e["kind"] == "full" else [] for e in pk["es"]]
    res["count"] = pp["count"]
    if w.get("src_pack"):
        with open(w["src_pack"], "rb") as f:
            sp = L.resolve_pack(L.parse_pack(f.read(), oid), oid)
        sids = dict(ids)
        spk, _ = L.project(sp, None, sids, oid)
        res["src_seq"] = [[e["id"], e["base"]] for e in spk["es"]]
    fails, facts = git_opinion(box, case, w, None, written_by_name, d, do_cat)
    res["py"].update(fails)
    res["facts"].update(facts)
    res["facts"]["kinds"] = sorted({e["kind"] for e in pk["es"]})
    res["facts"]["ofs_bytes"] = sorted({len(e["ofsb"]) for e in pk["es"] if e["kind"] == "ofs"})
    res["facts"]["hdr_bytes"] = sorted({len(e["hdr"]) for e in pk["es"]})
    return res


def job_writer(job, P):
    box = GitBox(os.path.join(job["dir"], "git"))
    os.makedirs(box.root, exist_ok=True)
    out = []
    rng = random.Random(job.get("seed", 0))
    for n, case in enumerate(job["cases"]):
        if job.get("deadline") and time.time() > job["deadline"]:
            out.append({"cid": case["cid"], "skipped": True})
            continue
        d = os.path.join(job["dir"], f"c{n}")
        os.makedirs(d)
        t0 = time.time()
        try:
            w = observe_write(P, case, d)
            t1 = time.time()
            reads, listings, chk = [], [], []
            if w["raised"] is None and w["pack"] is not None and w["idx"] is not None:
                reads, listings, chk = observe_read(P, case, w, d, rng)
            res = analyse_writer(box, case, w, reads, listings, chk, d, do_cat=case.get("cat", False))
            res["tb"] = w.get("tb")
            res["ms"] = [int((t1 - t0) * 1000), int((time.time() - t0) * 1000)]
            if case.get("keep") and w.get("pack"):
                res["files"] = {"pack": w["pack"], "idx": w.get("idx")}
            out.append(res)
        except (KeyboardInterrupt, SystemExit):
            raise
        except BaseException as e:  # noqa: BLE001 - a failure of the worker itself
            out.append({"cid": case["cid"], "worker_error": traceback.format_exc()[-1500:], "cls": type(e).__name__})
        finally:
            if not case.get("keep"):
                shutil.rmtree(d, ignore_errors=True)
        if n % 20 == 0:
            with open(job["progress"], "w") as f:
                f.write(str(n))
    return out


# =========================================================================== varints
def job_varint(job, P):
    """states of PackFmtVarint: [t, x(int), hdr, ofs, leb] -> disagreements of the real encoders / decoders."""
    from dulwich.object_format import SHA1
    bad = []
    n = 0
    import zlib
    for (t, x, hdr, ofs, leb) in job["states"]:
        n += 1
        nb = len(bad)
        # encoders
        try:
            base = x if t == 6 else (b"\x11" * 20 if t == 7 else None)
            got = list(P.pack_object_header(t, base, x, SHA1))
            want = list(hdr) + (list(ofs) if t == 6 else [0x11] * 20 if t == 7 else [])
            if got != want:
                bad.append({"fn": "pack_object_header", "t": t, "x": x, "got": got[:12], "want": want[:12]})
        except Exception as e:  # noqa: BLE001
            bad.append({"fn": "pack_object_header", "t": t, "x": x, "exc": exc_info(e)})
        try:
            got = list(P._delta_encode_size(x))
            if got != list(leb):
                bad.append({"fn": "_delta_encode_size", "x": x, "got": got, "want": list(leb)})
        except Exception as e:  # noqa: BLE001
            bad.append({"fn": "_delta_encode_size", "x": x, "exc": exc_info(e)})
        # decoders
        try:
            got = P._decode_object_header(list(hdr))
            if tuple(got) != (t, x):
                bad.append({"fn": "_decode_object_header", "t": t, "x": x, "got": list(got)})
        except Exception as e:  # noqa: BLE001
            bad.append({"fn": "_decode_object_header", "t": t, "x": x, "exc": exc_info(e)})
        if x > 0:
            try:
                got = P._decode_delta_base_offset(list(ofs))
                if got != x:
                    bad.append({"fn": "_decode_delta_base_offset", "x": x, "got": got})
            except Exception as e:  # noqa: BLE001
                bad.append({"fn": "_decode_delta_base_offset", "x": x, "exc": exc_info(e)})
        # a whole entry through unpack_object_at, for sizes that can be materialised
        if x <= 70000 and t in (1, 2, 3, 4) and (x < 300 or x % 97 == 0 or x in job.get("always", ())):
            payload = bytes([x & 0xFF]) * x
            buf = bytes(hdr) + zlib.compress(payload, 1) + b"\0" * 20
            try:
                un, end = P.unpack_object_at(buf, 0, SHA1.hash_func, compute_crc32=True)
                if un.pack_type_num != t or b"".join(un.decomp_chunks) != payload or end != len(buf) - 20:
                    bad.append({"fn": "unpack_object_at", "t": t, "x": x, "got": [un.pack_type_num, un.decomp_len, end]})
            except Exception as e:  # noqa: BLE001
                bad.append({"fn": "unpack_object_at", "t": t, "x": x, "exc": exc_info(e)})
        for b in bad[nb:]:
            b["state"] = [t, x, list(hdr), list(ofs), list(leb)]
    return {"n": n, "bad": bad[:200], "nbad": len(bad)}


# =========================================================================== synthetic indexes
def synth_names(firsts, oid):
    out = []
    for i, b in enumerate(firsts):
        out.append(bytes([b]) + hashlib.sha256(b"c02-%d" % i).digest()[:oid - 2] + bytes([i]))
    return sorted(out)


def job_idx(job, P):
    """states of PackFmtIdx -> disagreements between write_pack_index_v*/PackIndex* and the expected tables."""
    from dulwich.object_format import SHA1, SHA256
    bad, n, refused = [], 0, 0
    tmp = os.path.join(job["dir"], "i.idx")
    for st in job["states"]:
        n += 1
        firsts, offs, v, oid = st["firsts"], st["offs"], st["v"], st["oid"]
        names = synth_names(firsts, oid)
        entries = [(names[i], offs[i], (0x9E3779B1 * (i + 1)) & 0xFFFFFFFF) for i in range(len(names))]
        csum = (hashlib.sha1 if oid == 20 else hashlib.sha256)(b"pack").digest()
        f = io.BytesIO()
        key = {"firsts": firsts, "offs": offs, "v": v, "oid": oid, "state": {k: st[k] for k in st if k != "git"}}
        try:
            if v == 1:
                P.write_pack_index_v1(f, entries, csum)
            elif v == 2:
                P.write_pack_index_v2(f, entries, csum)
            else:
                P.write_pack_index_v3(f, entries, csum, hash_format=1 if oid == 20 else 2)
            wrote = True
        except (TypeError, ValueError, NotImplementedError, AssertionError, OverflowError) as e:
            wrote = False
            exc = exc_info(e)
        except Exception as e:  # noqa: BLE001 - e.g. struct.error: not a refusal, an accident
            wrote = False
            exc = exc_info(e)
            bad.append(dict(key, clause="IdxWriteCrashes", exc=exc))
            continue
        if st["refuse"]:
            refused += 1
            if wrote:
                # writing where the specification says "must refuse": is what was written at least readable?
                bad.append(dict(key, clause="IdxWritesUnrepresentable", got=len(f.getvalue())))
            continue
        if not wrote:
            bad.append(dict(key, clause="IdxRefusesValid", exc=exc))
            continue
        data = f.getvalue()
        try:
            ix = L.parse_idx(data, oid)
        except L.ParseError as e:
            bad.append(dict(key, clause="IdxUnparseable", msg=str(e)))
            continue
        fan = [0] * 256
        steps = st["fansteps"]
        cur, pos = 0, 0
        stepmap = {steps[i]: steps[i + 1] for i in range(0, len(steps), 2)}
        for b in range(256):
            if b in stepmap:
                cur = stepmap[b]
            fan[b] = cur
        exp_o32 = [(st["o32"][i] << 31) | st["o32"][i + 1] for i in range(0, len(st["o32"]), 2)]
        clauses = []
        if ix["fan"] != fan:
            clauses.append("Fanout")
        if ix["names"] != names:
            clauses.append("NamesSorted")
        if ix["o32"] != exp_o32 or ix["o64"] != st["o64"]:
            clauses.append("OffsetTables")
        if ix["len"] != st["len"]:
            clauses.append("IdxLength")
        if v != 1 and ix["crcs"] != [e[2] for e in entries]:
            clauses.append("IdxCrc")
        if ix["packsum"] != csum:
            clauses.append("IdxPackChecksum")
        if not ix["idxsum_ok"]:
            clauses.append("IdxTrailer")
        if v == 3 and ix["hdr"] != [1 if oid == 20 else 2, oid]:
            clauses.append("IdxV3Header")
        # read back through the real readers
        with open(tmp, "wb") as fh:
            fh.write(data)
        try:
            pi = P.load_pack_index(tmp, SHA1 if oid == 20 else SHA256)
            try:
                got = [(bytes(s), o, c) for (s, o, c) in pi.iterentries()]
                want = [(e[0], e[1], e[2] if v != 1 else None) for e in entries]
                if got != want:
                    clauses.append("Read:iterentries")
                for (nm, off, _c) in entries:
                    if pi.object_offset(nm) != off:
                        clauses.append("Read:object_offset")
                        break
                if len(pi) != len(entries):
                    clauses.append("Read:len")
                pi.check()
                if pi.get_pack_checksum() != csum:
                    clauses.append("Read:get_pack_checksum")
            finally:
                pi.close()
        except Exception as e:  # noqa: BLE001
            clauses.append("Read:raises:" + type(e).__name__)
        # C git reads the same file (v1, v2)
        if v in (1, 2) and st.get("git"):
            rows, err = L.show_index(tmp, oid)
            if rows is None:
                clauses.append("GitShowIndex")
            elif [(r[0], r[1]) for r in rows] != [(e[1], e[0].hex()) for e in entries]:
                clauses.append("GitShowIndex")
        for c in clauses:
            bad.append(dict(key, clause=c))
    return {"n": n, "refused": refused, "bad": bad[:200], "nbad": len(bad)}


# =========================================================================== packs written by C git
def job_gitpack(job, P):
    """C git writes packs over generated histories; dulwich reads them by random access and by iteration;
    the bytes are projected for TLC (the specification is validated against git on them first)."""
    from dulwich.object_store import DiskObjectStore
    out = []
    rng = random.Random(job.get("seed", 0))
    for n, sc in enumerate(job["scenarios"]):
        if job.get("deadline") and time.time() > job["deadline"]:
            out.append({"cid": sc["cid"], "skipped": True})
            continue
        d = os.path.join(job["dir"], f"g{n}")
        os.makedirs(d)
        try:
            out.append(git_scenario(P, sc, d, rng))
        except (KeyboardInterrupt, SystemExit):
            raise
        except BaseException as e:  # noqa: BLE001
            out.append({"cid": sc["cid"], "worker_error": traceback.format_exc()[-1500:], "cls": type(e).__name__})
        finally:
            shutil.rmtree(d, ignore_errors=True)
    return out


def git_scenario(P, sc, d, rng):
    """sc = {cid, oid, nver, nfiles, size, depth, window, ofs, thin, edit}"""
    from dulwich.object_store import DiskObjectStore
    oid = sc["oid"]
    fmt = fmt_of(oid)
    repo = L.git_init(os.path.join(d, "r.git"), oid)
    r = random.Random(sc["cid"])
    # history: nver versions of nfiles files, each version edits one line of each file; fast-import builds it
    files = []
    for k in range(sc["nfiles"]):
        lines = [b"%04d %s\n" % (i, b" ".join(r.choice(L._TEXT_WORDS) for _ in range(6))) for i in range(max(3, sc["size"] // 40))]
        files.append(lines)
    fi = []
    for v in range(sc["nver"]):
        fi.append(b"commit refs/heads/main\nmark :%d\ncommitter C <c@example.com> %d +0000\ndata 6\nver%02d\n"
                  % (v + 1, 1000000000 + v, v % 100))
        if v:
            fi.append(b"from :%d\n" % v)
        for k, lines in enumerate(files):
            if sc["edit"] == "line":
                lines[r.randrange(len(lines))] = b"%04d edited in version %d\n" % (r.randrange(10000), v)
            elif sc["edit"] == "append":
                lines.append(b"appended in version %d\n" % v)
            else:
                lines.insert(r.randrange(len(lines) + 1), b"inserted in version %d\n" % v)
            body = b"".join(lines)
            fi.append(b"M 100644 inline f%d\ndata %d\n" % (k, len(body)) + body + b"\n")
        fi.append(b"\n")
    p = subprocess.run(["git", f"--git-dir={repo}", "fast-import", "--quiet"], input=b"".join(fi), capture_output=True, env=L.git_env())
    if p.returncode != 0:
        raise RuntimeError("fast-import: " + p.stderr.decode("utf-8", "replace")[-300:])
    # pack-objects
    # --no-reuse-delta: fast-import has already written deltas of its own; the scenario's depth / window are to decide
    args = ["git", f"--git-dir={repo}", "pack-objects", "--stdout", "--revs", "--no-reuse-delta", f"--depth={sc['depth']}",
            f"--window={sc['window']}"]
    if sc["ofs"]:
        args.append("--delta-base-offset")
    revs = b"refs/heads/main\n"
    thin_base = None
    if sc["thin"] and sc["nver"] >= 2:
        args.append("--thin")
        half = sc["nver"] // 2
        thin_base = subprocess.run(["git", f"--git-dir={repo}", "rev-parse", f"refs/heads/main~{sc['nver'] - half}"],
                                   capture_output=True, env=L.git_env()).stdout.strip()
        revs += b"^" + thin_base + b"\n"
    p = subprocess.run(args, input=revs, capture_output=True, env=L.git_env())
    if p.returncode != 0:
        raise RuntimeError("pack-objects: " + p.stderr.decode("utf-8", "replace")[-300:])
    pdata = p.stdout
    ppath = os.path.join(d, "g.pack")
    with open(ppath, "wb") as f:
        f.write(pdata)
    res = {"cid": sc["cid"], "trace": None, "py": {}, "facts": {}, "raised": None}
    # git's own view of the objects (all objects of the repo: the thin bases are among them)
    allnames = subprocess.run(["git", f"--git-dir={repo}", "cat-file", "--batch-all-objects", "--batch-check=%(objectname)"],
                              capture_output=True, env=L.git_env()).stdout.decode().split()
    truth = L.cat_file_batch(repo, allnames)
    tnum = {v: k for k, v in L.TYPE_NAMES.items()}
    ext_objs = {bytes.fromhex(n): (tnum[t], data) for n, (t, data) in truth.items()} if thin_base else {}
    pp = L.resolve_pack(L.parse_pack(pdata, oid), oid, ext_objs)
    ids, content_id = {}, {}

    def cid_of(ch):
        if ch not in content_id:
            content_id[ch] = len(content_id) + 1
        return content_id[ch]
    in_pack = []
    for e in pp["entries"]:
        if e["name"] is not None and e["name"] not in ids:
            ids[e["name"]] = len(ids) + 1
            in_pack.append(e["name"])
    ext_ids = []
    for e in pp["entries"]:
        if e["t"] == L.REF and e["refname"] not in ids:
            ids[e["refname"]] = len(ids) + 1
            ext_ids.append(ids[e["refname"]])
    # index written by git (non-thin) -- thin packs are completed by dulwich below
    ix = None
    gidx = os.path.join(d, "g.idx")
    if not thin_base:
        p = subprocess.run(["git", f"--git-dir={repo}", "index-pack", "-o", gidx, ppath], capture_output=True, env=L.git_env())
        if p.returncode != 0:
            raise RuntimeError("index-pack: " + p.stderr.decode("utf-8", "replace")[-300:])
        with open(gidx, "rb") as f:
            ix = L.parse_idx(f.read(), oid)
    pk, ixr = L.project(pp, ix, ids, oid, ext_ids=ext_ids, pack_trailer=pp["trailer"])
    written = []
    for nme in in_pack:
        t, data = truth[nme.hex()]
        written.append([ids[nme], tnum[t], cid_of(chash(data))])
    name_to_id = {n.hex(): i for n, i in ids.items()}
    reads, listings = [], []

    def attempt(name, fn, dest):
        try:
            dest.append({"name": name, "ok": True, "items": fn()})
        except BaseException as e:  # noqa: BLE001
            if isinstance(e, (KeyboardInterrupt, SystemExit, MemoryError)):
                raise
            dest.append({"name": name, "ok": False, "items": [], "exc": exc_info(e, name)})

    def conv(items):
        return [[name_to_id.get(h, 2000 + k), t, cid_of(ch)] for k, (h, t, ch) in enumerate(items)]
    hexnames = sorted(n.hex().encode() for n in in_pack)
    if not thin_base:
        base = ppath[:-5]

        def with_pack(limit, fn):
            kw = {"delta_base_cache_limit": limit} if limit else {}
            pk_ = P.Pack(base, object_format=fmt, **kw)
            try:
                return fn(pk_)
            finally:
                pk_.close()
        attempt("getitem", lambda: with_pack(None, lambda q: conv([read_item(q[n], fmt) for n in hexnames])), reads)
        attempt("getitem-rev-cache1", lambda: with_pack(1, lambda q: conv([read_item(q[n], fmt) for n in reversed(hexnames)])), reads)
        order = list(hexnames) * 2
        rng.shuffle(order)
        attempt("get_raw-shuffled-cache3000",
                lambda: with_pack(3000, lambda q: conv([[n.decode(), *(lambda td: (td[0], chash(td[1])))(q.get_raw(n))] for n in order])), reads)
        attempt("iterobjects", lambda: with_pack(None, lambda q: conv([read_item(o, fmt) for o in q.iterobjects()])), reads)
        attempt("check", lambda: with_pack(None, lambda q: (q.check(), conv([read_item(o, fmt) for o in q.iterobjects()]))[1]), reads)

        def ent(it):
            return [[name_to_id.get(bytes(s).hex(), 2000), L.limb(off), L.crc_pair(crc) if crc is not None else [-1, -1]] for (s, off, crc) in it]
        attempt("Pack.sorted_entries", lambda: with_pack(None, lambda q: ent(q.sorted_entries())), listings)
        attempt("index.iterentries", lambda: with_pack(None, lambda q: ent(q.index.iterentries())), listings)

        def own_index(q):
            # dulwich indexes git's pack itself: must be byte-identical to git's index
            pth = os.path.join(d, "dul.idx")
            q.data.create_index_v2(pth)
            with open(pth, "rb") as f1, open(gidx, "rb") as f2:
                if f1.read() != f2.read():
                    raise AssertionError("create_index_v2 differs from git index-pack")
            return ent(q.data.sorted_entries())
        attempt("create_index_v2", lambda: with_pack(None, own_index), listings)
    else:
        # thin: the receiving store holds the older half of the history; dulwich completes the pack
        def completed():
            rd = os.path.join(d, "recv")
            os.makedirs(os.path.join(rd, "pack"))
            rs = DiskObjectStore(rd, object_format=fmt)
            try:
                need = subprocess.run(["git", f"--git-dir={repo}", "rev-list", "--objects", thin_base.decode()],
                                      capture_output=True, env=L.git_env()).stdout.decode().split("\n")
                for line in need:
                    if line:
                        nm = line.split()[0]
                        t, data = truth[nm]
                        rs.add_object(mk(tnum[t], data, fmt))
                with open(ppath, "rb") as f:
                    rs.add_thin_pack(f.read, None)
                return conv([read_item(rs[n], fmt) for n in hexnames])
            finally:
                rs.close()
        attempt("add_thin_pack+getitem", completed, reads)
    res["trace"] = {"tid": sc["cid"], "kind": "git", "pk": pk, "hasix": ixr is not None, "ix": ixr if ixr is not None else {},
                    "written": written, "depthcap": sc["depth"], "wr": False, "reads": [{"name": x["name"], "ok": x["ok"], "items": x["items"]} for x in reads],
                    "entries": [{"name": x["name"], "ok": x["ok"], "full": True, "items": x["items"]} for x in listings]}
    res["excs"] = {x["name"]: x["exc"] for x in reads + listings if not x["ok"]}
    res["facts"] = {"entries": len(pk["es"]), "kinds": sorted({e["kind"] for e in pk["es"]}), "thin": bool(thin_base),
                    "ext": len(ext_ids)}
    return res


# =========================================================================== main
# =========================================================================== multi-pack-index
def job_midx(job, P):
    """states of PackFmtMidx -> disagreements between write_midx / MultiPackIndex and the expected layout."""
    import struct
    from dulwich import midx as M
    bad, n = [], 0
    for st in job["states"]:
        n += 1
        firsts, offs, pids, oid = st["firsts"], st["offs"], st["pids"], st["oid"]
        np_ = job["np"]
        names = synth_names(firsts, oid)
        packs = [("pack-%d.idx" % k, [(names[i], offs[i], (0x9E3779B1 * (i + 1)) & 0xFFFFFFFF)
                                      for i in range(len(names)) if pids[i] == k]) for k in range(np_)]
        key = {"firsts": firsts, "offs": offs, "pids": pids, "oid": oid, "state": dict(st)}
        f = io.BytesIO()

        def fail(clause, **kw):
            bad.append(dict(key, clause=clause, **kw))
        try:
            M.write_midx(f, list(reversed(packs)), hash_algorithm=1 if oid == 20 else 2)
        except Exception as e:
            fail("MidxWriteRaises", exc=f"{type(e).__name__}: {e}"[:200])
            continue
        data = f.getvalue()
        # ---- independent parse
        try:
            if data[:4] != b"MIDX" or data[4] != 1:
                raise ValueError("signature/version")
            nch, npk = data[6], struct.unpack(">L", data[8:12])[0]
            table = []
            for k in range(nch + 1):
                cid, off = data[12 + 12 * k:16 + 12 * k], struct.unpack(">Q", data[16 + 12 * k:24 + 12 * k])[0]
                table.append((cid, off))
            if table[-1][0] != b"\x00\x00\x00\x00":
                raise ValueError("chunk table has no terminator")
            end = table[-1][1]
            chunks = {}
            for k in range(nch):
                if not (12 + 12 * (nch + 1) <= table[k][1] <= table[k + 1][1] <= len(data)):
                    raise ValueError(f"chunk {table[k][0]!r} at {table[k][1]} is out of order / out of the file")
                chunks[table[k][0]] = data[table[k][1]:table[k + 1][1]]
            nobj = len(names)
            ooff = chunks[b"OOFF"]
            if len(ooff) != 8 * nobj or len(chunks[b"OIDL"]) != oid * nobj:
                raise ValueError(f"OOFF/OIDL size {len(ooff)}/{len(chunks[b'OIDL'])} for {nobj} objects")
            got_names = [chunks[b"OIDL"][oid * i:oid * (i + 1)] for i in range(nobj)]
            words = [struct.unpack(">LL", ooff[8 * i:8 * i + 8]) for i in range(nobj)]
            loff = chunks.get(b"LOFF")
            o64 = [struct.unpack(">Q", loff[8 * i:8 * i + 8])[0] for i in range(len(loff) // 8)] if loff is not None else []
            fan = list(struct.unpack(">256L", chunks[b"OIDF"]))
        except Exception as e:
            fail("MidxUnparseable", exc=f"{type(e).__name__}: {e}"[:200])
            continue
        o32 = [x for (_pid, w) in words for x in (w >> 31, w & 0x7FFFFFFF)]
        if npk != np_ or got_names != names or [pid for (pid, _w) in words] != pids:
            fail("MidxNames", exc=f"packs {npk}, pack ids {[pid for (pid, _w) in words]}")
        if fan != [sum(1 for nm in names if nm[0] <= b) for b in range(256)]:
            fail("MidxFanout")
        if o32 != st["o32"] or o64 != st["o64"] or (loff is not None) != (st["nchunks"] == 5) or nch != st["nchunks"]:
            fail("MidxOffsetTables", exc=f"chunks {nch} OOFF (msb, low) {o32} LOFF {o64 if loff is not None else None}; expected "
                                         f"chunks {st['nchunks']} OOFF {st['o32']} LOFF {st['o64']}")
        if len(data) != st["len"] and len(data) != st["len"] - 20 + oid:
            fail("MidxLength", exc=f"{len(data)} bytes, expected {st['len']}")
        tail = data[end:]
        if end > len(data) or tail not in (hashlib.sha1(data[:end]).digest(), hashlib.sha256(data[:end]).digest()):
            fail("MidxTrailer", exc=f"terminator points at {end} of {len(data)}")
        # ---- the implementation's reader
        for ctor in ("contents", "file"):
            try:
                if ctor == "contents":
                    mx = M.MultiPackIndex("multi-pack-index", contents=data, size=len(data))
                else:
                    pth = os.path.join(job["dir"], "multi-pack-index")
                    with open(pth, "wb") as fh:
                        fh.write(data)
                    mx = M.load_midx(pth)
                got = [mx.object_offset(nm) for nm in names]
                want = [("pack-%d.idx" % pids[i], offs[i]) for i in range(len(names))]
                if got != want:
                    fail("Read:midx.object_offset", exc=f"{got} expected {want}")
                ents = sorted(mx.iterentries())
                if ents != sorted((names[i], "pack-%d.idx" % pids[i], offs[i]) for i in range(len(names))):
                    fail("Entries:midx.iterentries", exc=f"{[(e[1], e[2]) for e in ents]}")
                if len(mx) != len(names) or not all(nm in mx for nm in names):
                    fail("Read:midx.contains")
                mx.close()
            except Exception as e:
                fail("Read:midx.object_offset", exc=f"{ctor}: {type(e).__name__}: {e}"[:200])
            if n % 16:
                break       # the file-backed constructor on every 16th state
    return {"n": n, "bad": bad, "nbad": len(bad)}


# layouts of one pack (same objects, same name): (order, compression level, deltify)
MIDX_LAYOUTS = {1: ("fwd", 0, False), 2: ("rev", 9, False), 3: ("fwd", -1, True), 4: ("mix", 1, False)}
MIDX_READERS = ("get_raw", "get_raw-hex", "getitem", "contains", "contains_packed", "iter", "iterobjects_subset")


def midx_store_blobs():
    from dulwich.objects import Blob
    return [Blob.from_string((b"line %d\n" % (i % 3)) * (50 + 37 * i) + b"tail %d" % i) for i in range(9)]


def job_midxstore(job, P):
    """histories of PackFmtMidxStore replayed on a real object directory; a fresh DiskObjectStore reads after the last step."""
    from dulwich.object_store import DiskObjectStore
    from dulwich.objects import Blob
    out = []
    blobs = midx_store_blobs()
    expected = {b.id: b.as_raw_string() for b in blobs}

    def ordered(kind):
        if kind == "fwd":
            return list(blobs)
        if kind == "rev":
            return list(reversed(blobs))
        return blobs[1::2] + blobs[0::2]

    for k, st in enumerate(job["states"]):
        d = os.path.join(job["dir"], "s%d" % k)
        objdir = os.path.join(d, "objects")
        os.makedirs(os.path.join(objdir, "pack"))
        os.makedirs(os.path.join(objdir, "info"))
        base = None
        res = {"hist": st["hist"], "layout": st["layout"], "midx": st["midx"], "failed": {}, "steps": 0}
        try:
            for op, arg in st["hist"]:
                if op in ("pack", "repack"):
                    order, level, deltify = MIDX_LAYOUTS[arg]
                    if op == "pack":
                        s = DiskObjectStore(objdir, pack_compression_level=level)
                        pk = s.add_objects([(b, None) for b in ordered(order)])
                        base = pk._basename
                        s.close()
                    if op == "repack" or deltify or order != "fwd":
                        # another process writes the same objects under the same name with other options
                        for ext in (".pack", ".idx"):
                            os.chmod(base + ext, 0o644)
                        with open(base + ".pack", "wb") as pf:
                            entries, checksum = P.write_pack_objects(pf.write, [(b, None) for b in ordered(order)],
                                                                     compression_level=level, deltify=deltify,
                                                                     object_format=s.object_format)
                        with open(base + ".idx", "wb") as xf:
                            P.write_pack_index(xf, sorted((a, v[0], v[1]) for a, v in entries.items()), checksum)
                elif op == "midx":
                    s = DiskObjectStore(objdir)
                    s.write_midx()
                    s.close()
                elif op == "dropmidx":
                    os.remove(os.path.join(objdir, "pack", "multi-pack-index"))
                res["steps"] += 1
            res["midx_on_disk"] = os.path.exists(os.path.join(objdir, "pack", "multi-pack-index"))
            if st["layout"]:
                for reader in MIDX_READERS:
                    rd = DiskObjectStore(objdir)
                    try:
                        for oid_, content in expected.items():
                            try:
                                if reader == "get_raw":
                                    got = rd.get_raw(oid_)
                                elif reader == "get_raw-hex":
                                    from dulwich.objects import hex_to_sha
                                    got = rd.get_raw(hex_to_sha(oid_))
                                elif reader == "getitem":
                                    o = rd[oid_]
                                    got = (o.type_num, o.as_raw_string())
                                elif reader == "contains":
                                    got = (3, content) if oid_ in rd else "absent"
                                elif reader == "contains_packed":
                                    got = (3, content) if rd.contains_packed(oid_) else "absent"
                                elif reader == "iter":
                                    got = (3, content) if oid_ in set(rd) else "absent"
                                else:
                                    o = list(rd.iterobjects_subset([oid_]))
                                    got = (o[0].type_num, o[0].as_raw_string()) if len(o) == 1 else f"{len(o)} objects"
                                if got != (Blob.type_num, content):
                                    res["failed"].setdefault(reader, f"{oid_.decode()[:8]}: " + (got if isinstance(got, str) else
                                                             f"type {got[0]}, {len(got[1])} bytes, expected {len(content)}"))
                            except Exception as e:
                                res["failed"].setdefault(reader, f"{oid_.decode()[:8]}: {type(e).__name__}: {e}"[:160])
                    finally:
                        rd.close()
        except Exception as e:
            res["worker_error"] = "".join(traceback.format_exception(type(e), e, e.__traceback__))[-1200:]
        out.append(res)
        shutil.rmtree(d, ignore_errors=True)
    return {"n": len(out), "results": out}


def main():
    with open(sys.argv[1]) as f:
        job = json.load(f)
    P = setup(job["mode"])
    kind = job["kind"]
    if kind == "writer":
        res = job_writer(job, P)
    elif kind == "varint":
        res = job_varint(job, P)
    elif kind == "idx":
        res = job_idx(job, P)
    elif kind == "gitpack":
        res = job_gitpack(job, P)
    elif kind == "midx":
        res = job_midx(job, P)
    elif kind == "midxstore":
        res = job_midxstore(job, P)
    else:
        raise SystemExit(f"unknown job kind {kind}")
    tmp = job["out"] + ".tmp"
    with open(tmp, "w") as f:
        json.dump(res, f)
    os.replace(tmp, job["out"])


if __name__ == "__main__":
    main()

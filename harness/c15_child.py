"""C15 worker: runs the real functions of ONE implementation in a sandboxed child interpreter.

    /venv/bin/python harness/c15_child.py <job.json>

job = {"mode": "py" | "rs", "kind": "dump" | "cases" | "repo", "out": path, ...}
  mode "rs": dulwich._pack/_objects/_diff_tree are the release extensions freshly built from the
             working tree; "py": the extensions are blocked (pure Python).
  kind "dump":  states [start, end) of a TLC dump of EquivCases (family job["fam"]); the reference
                answer is part of the state.
  kind "cases": ndjson file, one {"fam", "inp", "exp"?} per line.
  kind "repo":  the repository-level scenario (c15_repo.py).

The child only observes.  Output `out`: one line per case, in input order,
        <flags> <observations as JSON>
flags[0]: '=' all variants equal the reference answer, '!' some differ, '?' no reference given;
flags[1]: 't' trivial (everything fails everywhere), 'n' non-trivial.
`out`.det: "<index>\t<json>" with failure details (exception classes, aborts, produced deltas),
never compared.  Cases run in blocks inside forked grandchildren; when a block kills the
grandchild (abort, signal), it is re-run one forked grandchild per case and the death becomes the
observation ["f"] of that case (detail "killed by SIG...").
"""
from __future__ import annotations

import json
import os
import resource
import signal
import sys

HERE = os.path.dirname(os.path.abspath(__file__))
sys.path.insert(0, os.path.dirname(HERE))

BLOCK = 4000
AS_LIMIT = 8 << 30


def setup(mode):
    from harness import rustext
    from harness.core import REPO
    sys.path.insert(0, REPO)
    rustext.install(mode)
    import dulwich
    from harness import c15_lib as L
    where = os.path.realpath(os.path.dirname(os.path.dirname(dulwich.__file__)))
    if where != os.path.realpath(REPO):
        raise SystemExit(f"worker imported dulwich from {where}, expected {REPO}")
    impl = L.Impl()
    org = impl.origin()
    ext = {k: v for k, v in org.items() if str(v).startswith("dulwich._")}
    if mode == "py" and (ext or org["create_delta"] != "_create_delta_py"):
        raise SystemExit(f"mode py: extension functions in use: {org}")
    if mode == "rs":
        want = {"parse_tree", "sorted_tree_items", "apply_delta", "bisect_find_sha", "_merge_entries", "_is_tree", "_count_blocks"}
        if set(ext) != want or org["create_delta"] != "_create_delta_rs_wrapper":
            raise SystemExit(f"mode rs: not all functions come from the extensions: {org}")
    return L, impl, org


def iter_cases(L, job):
    if job["kind"] == "dump":
        fam = job["fam"]
        for st in L.read_dump(job["path"], job["start"], job["end"]):
            yield fam, st["inp"], st["exp"]
    else:
        with open(job["path"]) as f:
            for line in f:
                c = json.loads(line)
                yield c["fam"], c["inp"], c.get("exp")


def do_case(L, impl, fam, inp, exp):
    details = {}
    obs = L.run_case(impl, fam, inp, exp, details)
    if exp is None and fam != "cdelta":
        flag = "?" + ("n" if any(o[0] == "v" for o in obs) else "t")
    else:
        ref = L.expected(fam, inp, exp)
        flag = ("=" if L.all_allowed(fam, exp, obs, ref) else "!") + ("n" if L.nontrivial(obs, ref) else "t")
        if flag[0] == "!":
            details["case"] = [inp, exp]        # saves the parent a second pass over the dump
    return flag + " " + json.dumps(obs, separators=(",", ":")), details


def run_block(L, impl, block, base_idx, out_path, det_path):
    """Run a block in a forked grandchild appending to out/det; -> True when it survived."""
    sys.stdout.flush()
    pid = os.fork()
    if pid == 0:
        code = 1
        try:
            with open(out_path, "a") as out, open(det_path, "a") as det:
                for k, (fam, inp, exp) in enumerate(block):
                    line, details = do_case(L, impl, fam, inp, exp)
                    out.write(line + "\n")
                    if details:
                        det.write(f"{base_idx + k}\t{json.dumps(details, separators=(',', ':'))}\n")
            code = 0
        except BaseException:  # noqa: BLE001
            import traceback
            traceback.print_exc()
            code = 3
        finally:
            os._exit(code)
    _, status = os.waitpid(pid, 0)
    if os.WIFSIGNALED(status):
        return False, os.WTERMSIG(status)
    if os.WEXITSTATUS(status) != 0:
        raise SystemExit(f"C15 grandchild failed with exit status {os.WEXITSTATUS(status)}")
    return True, 0


def main(argv):
    with open(argv[0]) as f:
        job = json.load(f)
    resource.setrlimit(resource.RLIMIT_AS, (AS_LIMIT, AS_LIMIT))
    resource.setrlimit(resource.RLIMIT_CORE, (0, 0))
    L, impl, org = setup(job["mode"])
    if job["kind"] == "repo":
        from harness import c15_repo
        res = c15_repo.scenario(job)
        with open(job["out"], "w") as f:
            json.dump({"origin": org, "result": res}, f)
        return 0
    out_path, det_path = job["out"], job["out"] + ".det"
    open(out_path, "w").close()
    open(det_path, "w").close()
    n = 0
    killed = 0
    block = []

    def flush(block, n0):
        nonlocal killed
        size0, dsize0 = os.path.getsize(out_path), os.path.getsize(det_path)
        alive, _ = run_block(L, impl, block, n0, out_path, det_path)
        if alive:
            return
        # somebody died: undo the partial block, one grandchild per case
        os.truncate(out_path, size0)
        os.truncate(det_path, dsize0)
        for k, case in enumerate(block):
            s1, d1 = os.path.getsize(out_path), os.path.getsize(det_path)
            alive, sig = run_block(L, impl, [case], n0 + k, out_path, det_path)
            if not alive:
                os.truncate(out_path, s1)
                os.truncate(det_path, d1)
                killed += 1
                fam, inp, exp = case
                try:
                    name = signal.Signals(sig).name
                except ValueError:
                    name = f"SIG{sig}"
                # the whole case is one failure observation per variant
                obs = [["f"]] * L.n_variants(fam, exp)
                if exp is not None or fam == "cdelta":
                    ref = L.expected(fam, inp, exp)
                    flag = ("=" if L.all_allowed(fam, exp, obs, ref) else "!") + ("n" if L.nontrivial(obs, ref) else "t")
                else:
                    flag = "?t"
                with open(out_path, "a") as out, open(det_path, "a") as det:
                    out.write(flag + " " + json.dumps(obs, separators=(",", ":")) + "\n")
                    det.write(f"{n0 + k}\t{json.dumps({'killed': name})}\n")

    for case in iter_cases(L, job):
        block.append(case)
        if len(block) >= BLOCK:
            flush(block, n)
            n += len(block)
            block = []
    if block:
        flush(block, n)
        n += len(block)
    with open(job["out"] + ".sum", "w") as f:
        json.dump({"n": n, "killed": killed, "origin": org}, f)
    return 0


if __name__ == "__main__":
    sys.exit(main(sys.argv[1:]))

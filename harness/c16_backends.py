"""C16 adapters: model call -> real dulwich call, real container/directory -> abstract state.

Three backends (DiskRefsContainer, DictRefsContainer, ReftableRefsContainer), one vocabulary:
a name is a tuple of path components (as in RefMap.tla), a value is a model id ("v1", ...),
an entry is ("absent",) | ("direct", value) | ("sym", name).

The directory reader used for the files backend (loose files, packed-refs, directories, lock files)
is independent of dulwich; C git's view of the same directory is taken from a verbatim copy of
HEAD / packed-refs / refs/** (a placeholder HEAD is substituted when git would not recognise the
directory as a repository, and HEAD is then left out of the comparison).
"""
from __future__ import annotations

import os
import shutil
import subprocess

ABSENT = ("absent",)
HEAD = ("HEAD",)
ZERO40 = b"0" * 40


def nm(n) -> bytes:
    return "/".join(n).encode()


def base_bytes(base, mode) -> bytes:
    raw = nm(base)
    return raw + b"/" if mode == "slash" else (raw[:-1] if mode == "partial" else raw)


def unnm(b: bytes):
    return tuple(b.decode("utf-8", "replace").split("/"))


class Objects:
    """Real objects behind the model values: odd values are commits, even values annotated tags
    of the previous commit (so that peeling matters).  Built with git plumbing when git exists."""

    def __init__(self, root: str, nvalues: int, use_git: bool):
        self.root = root
        self.git = use_git
        self.ids = {}     # "v1" -> b"<40 hex>"
        self.peel = {}    # "v2" -> "v1" (model level)
        self.objdir = os.path.join(root, "objects")
        if use_git:
            env = self.env(root)
            os.makedirs(root, exist_ok=True)
            subprocess.run(["git", "init", "-q", "--bare", root], env=env, check=True, capture_output=True)
            tree = subprocess.run(["git", "mktree"], input=b"", env=env, check=True, capture_output=True).stdout.strip()
            last_commit = None
            for i in range(1, nvalues + 1):
                v = f"v{i}"
                if i % 2 == 1:
                    c = subprocess.run(["git", "commit-tree", "-m", v, tree.decode()], env=env, check=True,
                                       capture_output=True).stdout.strip()
                    self.ids[v] = c
                    self.peel[v] = v
                    last_commit = (v, c)
                else:
                    body = b"object %s\ntype commit\ntag %s\ntagger a <a@b> 1 +0000\n\nm\n" % (last_commit[1], v.encode())
                    t = subprocess.run(["git", "mktag"], input=body, env=env, check=True, capture_output=True).stdout.strip()
                    self.ids[v] = t
                    self.peel[v] = last_commit[0]
        else:
            for i in range(1, nvalues + 1):
                self.ids[f"v{i}"] = (b"%02x" % i) * 20
                self.peel[f"v{i}"] = f"v{i}"
        self.rev = {h: v for v, h in self.ids.items()}

    @staticmethod
    def env(gitdir):
        e = {k: v for k, v in os.environ.items() if not k.startswith("GIT_")}
        e.update(GIT_DIR=gitdir, GIT_CONFIG_NOSYSTEM="1", HOME="/nonexistent", GIT_CONFIG_GLOBAL="/dev/null",
                 GIT_AUTHOR_NAME="a", GIT_AUTHOR_EMAIL="a@b", GIT_COMMITTER_NAME="a", GIT_COMMITTER_EMAIL="a@b",
                 GIT_AUTHOR_DATE="@1 +0000", GIT_COMMITTER_DATE="@1 +0000", LC_ALL="C")
        return e

    def val(self, h: bytes) -> str:
        return self.rev.get(h, "?" + h.decode("latin1")[:12])


class WideValues:
    """Object ids chosen for their bytes, not for what they name (no objects exist: no git, no peeling).
    Model values whose name starts with "mk" contain the byte pattern 00 00 1c (at every offset), or
    start with 00 1c (which follows the zero byte of an update-index delta)."""

    def __init__(self):
        import hashlib
        self.git = False
        self.ids = {}
        for off in range(18):
            raw = bytearray(b"\xab" * 20)
            raw[off:off + 3] = b"\x00\x00\x1c"
            self.ids["mk%02d" % off] = bytes(raw).hex().encode()
        self.ids["mklead001c"] = (b"\x00\x1c" + b"\xcd" * 18).hex().encode()
        self.ids["mkzeros1c"] = (b"\x00" * 19 + b"\x1c").hex().encode()
        self.ids["lead1c"] = (b"\x1c" + b"\xcd" * 19).hex().encode()
        self.ids["tail0000"] = (b"\xcd" * 18 + b"\x00\x00").hex().encode()
        self.ids["zeros01"] = (b"\x00" * 19 + b"\x01").hex().encode()
        self.ids["ff"] = (b"\xff" * 20).hex().encode()
        k = 0
        while len(self.ids) < 18 + 6 + 1200:          # plain ids without the pattern
            h = hashlib.sha1(b"c16-%d" % k).digest()
            k += 1
            if b"\x00\x00\x1c" in h or h.startswith(b"\x00\x1c"):
                continue
            self.ids["p%04d" % (len(self.ids) - 24)] = h.hex().encode()
        self.peel = {v: v for v in self.ids}
        self.rev = {h: v for v, h in self.ids.items()}
        self.objdir = None

    def val(self, h: bytes) -> str:
        return self.rev.get(h, "?" + h.decode("latin1")[:12])


# ------------------------------------------------------------------------------- result of a call
def run_call(fn):
    """-> (result string, is_oserror).  Results: 'True' 'False' 'None' 'exc:<Class>'."""
    try:
        r = fn()
    except OSError as e:
        return "exc:" + type(e).__name__, True
    except Exception as e:  # noqa: BLE001 - every exception class is an observable result
        return "exc:" + type(e).__name__, False
    return ("None" if r is None else str(bool(r))), False


def result_matches(want: str, got: str, is_oserr: bool, form: str) -> bool:
    """want: the specification's result class; form 'item' = called through refs[n]=v / del refs[n],
    which cannot show the boolean."""
    if want == "NoEffect":
        return True
    if want == "True":
        return got == "True" or (form == "item" and got == "None")
    if want in ("False", "None"):
        return got == want
    if want == "Refused":
        return got == "False" or is_oserr
    if want == "SymrefLoop":
        return got == "exc:SymrefLoop"
    return False


# ------------------------------------------------------------------------------- backends
class Backend:
    kind = "?"
    site = "?"

    def __init__(self, objs: Objects, names):
        self.objs = objs
        self.names = list(names)
        self.probe = None
        self.nstep = 0
        # base-restricted listings: every directory of the universe, as given, with a trailing slash, and cut
        # inside its last component ("refs/head": nothing lies under that)
        dirs = sorted({n[:k] for n in self.names for k in range(1, len(n))})
        cut = [d for d in dirs if len(d) >= 2 and len(d[-1]) >= 2]
        self.bases = [(d, mode) for d in dirs for mode in ("plain", "slash")] + [(d, "partial") for d in cut[:1]]

    # -- calls
    def call(self, op, n, old, v, t, items=None):
        """Execute one model call; -> (got, is_oserr, form)."""
        c = self.c
        ids = self.objs.ids
        self.nstep += 1
        alt = self.nstep % 2 == 0
        if op == "Set":
            if alt:
                return (*run_call(lambda: c.__setitem__(nm(n), ids[v])), "item")
            return (*run_call(lambda: c.set_if_equals(nm(n), None, ids[v])), "call")
        if op == "SetIfEquals":
            o = ZERO40 if old == "ZERO" else ids[old]
            return (*run_call(lambda: c.set_if_equals(nm(n), o, ids[v])), "call")
        if op == "AddIfNew":
            return (*run_call(lambda: c.add_if_new(nm(n), ids[v])), "call")
        if op == "Remove":
            if alt:
                return (*run_call(lambda: c.__delitem__(nm(n))), "item")
            return (*run_call(lambda: c.remove_if_equals(nm(n), None)), "call")
        if op == "RemoveIfEquals":
            o = ZERO40 if old == "ZERO" else ids[old]
            return (*run_call(lambda: c.remove_if_equals(nm(n), o)), "call")
        if op == "SetSymbolic":
            return (*run_call(lambda: c.set_symbolic_ref(nm(n), nm(t))), "call")
        if op == "PackRefs":
            return (*run_call(lambda: c.pack_refs(all=(v == "all"))), "call")
        if op == "BatchSet":
            return (*run_call(lambda: self.batch_set([(nm(x), ids[y]) for (x, y) in items])), "call")
        if op == "GitPack":
            return (*run_call(self.git_pack), "call")
        if op == "Reopen":
            return (*run_call(self.reopen), "call")
        raise ValueError(op)

    def reopen(self):
        return None

    def batch_set(self, pairs):
        """refs[n] = v for every pair, as one unit where the backend has such a thing."""
        for n, v in pairs:
            self.c[n] = v

    # -- observables through the public API
    def api(self):
        """-> dict: get[n] ('v1' | 'KeyError' | 'SymrefLoop' | 'exc:X'), as_dict, symrefs, contains, peeled."""
        c = self.c
        out = {"get": {}, "contains": {}, "peeled": {}}
        for n in (self.probe or self.names):          # per-name reads: every name, or a sample of a large universe
            b = nm(n)
            try:
                out["get"][n] = self.objs.val(c[b])
            except KeyError:
                out["get"][n] = "KeyError"
            except Exception as e:  # noqa: BLE001
                out["get"][n] = type(e).__name__ if type(e).__name__ == "SymrefLoop" else "exc:" + type(e).__name__
            try:
                out["contains"][n] = bool(b in c)
            except Exception as e:  # noqa: BLE001
                out["contains"][n] = "exc:" + type(e).__name__
            try:
                p = c.get_peeled(b)
                out["peeled"][n] = None if p is None else self.objs.val(p)
            except Exception as e:  # noqa: BLE001
                out["peeled"][n] = "exc:" + type(e).__name__
        try:
            out["as_dict"] = {unnm(k): self.objs.val(v) for k, v in c.as_dict().items()}
        except Exception as e:  # noqa: BLE001
            out["as_dict"] = "exc:" + type(e).__name__
        try:
            out["symrefs"] = {unnm(k): unnm(v) for k, v in c.get_symrefs().items()}
        except Exception as e:  # noqa: BLE001
            out["symrefs"] = "exc:" + type(e).__name__
        out["sub"] = []
        for base, mode in self.bases:
            raw = base_bytes(base, mode)
            try:
                keys = sorted(unnm(k) for k in c.subkeys(raw))
            except Exception as e:  # noqa: BLE001
                keys = "exc:" + type(e).__name__
            try:
                asd = {unnm(k): self.objs.val(v) for k, v in c.as_dict(raw).items()}
            except Exception as e:  # noqa: BLE001
                asd = "exc:" + type(e).__name__
            out["sub"].append({"base": base, "mode": mode, "keys": keys, "asd": asd})
        return out

    def close(self):
        pass


def _entry_from_raw(objs, raw: bytes):
    if raw.startswith(b"ref: "):
        return ("sym", unnm(raw[5:].rstrip(b"\r\n")))
    return ("direct", objs.val(raw.strip()))


class DictBackend(Backend):
    kind = "dict"
    site = "dulwich/refs.py:DictRefsContainer"

    def __init__(self, objs, names, root=None):
        super().__init__(objs, names)
        from dulwich.refs import DictRefsContainer
        self.store = {}
        self.c = DictRefsContainer(self.store)

    def state(self):
        """-> (loose, packed) with the raw content of the backing dict as 'loose'."""
        loose = {n: ABSENT for n in self.names}
        for k, raw in self.store.items():
            loose[unnm(k)] = _entry_from_raw(self.objs, raw)
        return loose, {n: ABSENT for n in self.names}, {}


class ReftableBackend(Backend):
    kind = "reftable"
    site = "dulwich/reftable.py:ReftableRefsContainer"

    def __init__(self, objs, names, root):
        super().__init__(objs, names)
        self.root = root
        shutil.rmtree(root, ignore_errors=True)
        os.makedirs(root)
        self.reopen()

    def reopen(self):
        from dulwich.reftable import ReftableRefsContainer
        self.c = ReftableRefsContainer(self.root)

    def batch_set(self, pairs):
        with self.c.batch_update():
            for n, v in pairs:
                self.c[n] = v

    def state(self):
        """Through the public API, in a number of table reads that does not grow with the universe:
        allkeys() says what exists, get_packed_refs() holds every direct ref, the rest is read singly."""
        loose = {n: ABSENT for n in self.names}
        direct = self.c.get_packed_refs()
        for k in self.c.allkeys():
            n = unnm(k)
            if k in direct:
                loose[n] = ("direct", self.objs.val(direct[k]))
                continue
            try:
                raw = self.c.read_loose_ref(k)
            except KeyError:
                continue
            if raw:
                loose[n] = _entry_from_raw(self.objs, raw)
        return loose, {n: ABSENT for n in self.names}, {}

    def close(self):
        shutil.rmtree(self.root, ignore_errors=True)


class DiskBackend(Backend):
    kind = "disk"
    site = "dulwich/refs.py:DiskRefsContainer"

    def __init__(self, objs, names, root):
        super().__init__(objs, names)
        self.root = root
        shutil.rmtree(root, ignore_errors=True)
        os.makedirs(os.path.join(root, "refs", "heads"))
        os.makedirs(os.path.join(root, "refs", "tags"))
        from dulwich.refs import DiskRefsContainer
        self._cls = DiskRefsContainer
        self.c = DiskRefsContainer(root)
        self.observer = DiskRefsContainer(root)     # long-lived second handle, only ever reads

    def reopen(self):
        self.c = self._cls(self.root)

    def close(self):
        shutil.rmtree(self.root, ignore_errors=True)

    # -- independent reader of the directory
    def scan(self):
        """-> dict(files={relpath: bytes}, dirs=set(relpath), locks=[relpath])"""
        files, dirs, locks = {}, set(), []
        root = self.root
        for fn in ("HEAD", "packed-refs"):
            p = os.path.join(root, fn)
            try:
                with open(p, "rb") as f:
                    files[fn] = f.read()
            except FileNotFoundError:
                pass
        for fn in ("HEAD.lock", "packed-refs.lock"):
            if os.path.lexists(os.path.join(root, fn)):
                locks.append(fn)
        base = os.path.join(root, "refs")
        stack = ["refs"] if os.path.isdir(base) else []
        while stack:
            rel = stack.pop()
            dirs.add(rel)
            with os.scandir(os.path.join(root, rel)) as it:
                for e in it:
                    r = rel + "/" + e.name
                    if e.is_dir(follow_symlinks=False):
                        stack.append(r)
                    elif e.name.endswith(".lock"):
                        locks.append(r)
                    else:
                        with open(e.path, "rb") as f:
                            files[r] = f.read()
        return {"files": files, "dirs": dirs, "locks": sorted(locks)}

    def state(self, scan=None):
        """-> (loose, packed, peeled) read from the directory without dulwich."""
        sc = scan or self.scan()
        loose = {n: ABSENT for n in self.names}
        packed = {n: ABSENT for n in self.names}
        peeled = {}
        for rel, data in sc["files"].items():
            if rel == "packed-refs":
                lastn = None
                for line in data.split(b"\n"):
                    if not line or line.startswith(b"#"):
                        continue
                    if line.startswith(b"^"):
                        if lastn is not None:
                            peeled[lastn] = self.objs.val(line[1:].strip())
                        continue
                    h, _, name = line.partition(b" ")
                    lastn = unnm(name.strip())
                    packed[lastn] = ("direct", self.objs.val(h))
                continue
            line = data.split(b"\n", 1)[0]
            loose[unnm(rel.encode())] = _entry_from_raw(self.objs, line) if line else ("direct", "?empty")
        return loose, packed, peeled

    def dirs(self, sc):
        return {tuple(d.split("/")) for d in sc["dirs"] if d != "refs"}

    def git_pack(self):
        env = Objects.env(self.root)
        env["GIT_OBJECT_DIRECTORY"] = self.objs.objdir
        p = subprocess.run(["git", "pack-refs", "--all", "--prune"], env=env, capture_output=True)
        if p.returncode != 0:
            raise RuntimeError("git pack-refs rc=%d %s" % (p.returncode, p.stderr.decode("utf-8", "replace")[:300]))

    def fingerprint(self, sc):
        return (tuple(sorted(sc["files"].items())), tuple(sorted(sc["dirs"])))

    def fs_diagnosis(self, sc, target):
        """Why could a write of `target` have failed?  Features of the real directory."""
        out = []
        if sc["locks"]:
            out.append("stale-lock")
        rel = "/".join(target)
        if rel in sc["dirs"]:
            below = [f for f in sc["files"] if f.startswith(rel + "/")]
            out.append("dir-at-name" if below else "empty-dir-at-name")
        parent = "/".join(target[:-1])
        if parent and parent not in sc["dirs"] and parent not in sc["files"]:
            out.append("missing-parent-dir")
        return ",".join(out) or "-"


# ------------------------------------------------------------------------------- C git's view
class GitView:
    """What C git lists for a directory state (memoised on the directory content)."""

    def __init__(self, objs: Objects, scratch: str):
        self.objs = objs
        self.dir = os.path.join(scratch, "gitview")
        self.memo = {}
        self.calls = 0
        self.env = Objects.env(self.dir)
        self.env["GIT_OBJECT_DIRECTORY"] = objs.objdir

    def view(self, sc, fp):
        v = self.memo.get(fp)
        if v is None:
            v = self.memo[fp] = self._run(sc)
        return v

    def _run(self, sc):
        d = self.dir
        shutil.rmtree(d, ignore_errors=True)
        os.makedirs(os.path.join(d, "refs"))
        for rel in sc["dirs"]:
            os.makedirs(os.path.join(d, rel), exist_ok=True)
        head_ok = False
        for rel, data in sc["files"].items():
            if rel == "HEAD":
                line = data.split(b"\n", 1)[0]
                head_ok = (line.startswith(b"ref: refs/") or (len(line) == 40 and line != b""))
                if not head_ok:
                    continue
            with open(os.path.join(d, rel), "wb") as f:
                f.write(data)
        if not head_ok:
            with open(os.path.join(d, "HEAD"), "wb") as f:
                f.write(b"ref: refs/heads/.placeholder-c16\n")
        self.calls += 1
        out = {"head_ok": head_ok, "refs": {}, "symref": {}, "head_sym": None, "err": ""}
        p = subprocess.run(["git", "show-ref", "--head", "-d"], env=self.env, capture_output=True)
        if p.returncode not in (0, 1):
            out["err"] += "show-ref rc=%d %s" % (p.returncode, p.stderr.decode("utf-8", "replace")[:200])
        for line in p.stdout.splitlines():
            h, _, name = line.partition(b" ")
            out["refs"][name.decode()] = self.objs.val(h)
        p = subprocess.run(["git", "for-each-ref", "--format=%(refname) %(objectname) %(symref)"], env=self.env,
                           capture_output=True)
        if p.returncode != 0:
            out["err"] += "for-each-ref rc=%d %s" % (p.returncode, p.stderr.decode("utf-8", "replace")[:200])
        fer = {}
        for line in p.stdout.splitlines():
            parts = line.split(b" ")
            fer[parts[0].decode()] = self.objs.val(parts[1])
            out["symref"][parts[0].decode()] = parts[2].decode() if len(parts) > 2 else ""
        out["for_each_ref"] = fer
        if head_ok:
            p = subprocess.run(["git", "symbolic-ref", "-q", "--no-recurse", "HEAD"], env=self.env, capture_output=True)
            out["head_sym"] = p.stdout.strip().decode() if p.returncode == 0 else None
        else:
            out["refs"].pop("HEAD", None)
        return out

"""C01 helpers that do not import dulwich: atom pools (the only place where concrete bytes of
opaque field values live), the dumb token renderer, the TLC dump reader, hashing (hashlib is the
only trusted computation) and the concretisation of abstract cases (pool indices -> field values).
"""
from __future__ import annotations

import hashlib
import json
import re

ALGOS = ("sha1", "sha256")
TYPE_NUM = {"commit": 1, "tree": 2, "blob": 3, "tag": 4}


def H(algo: str, kind: str, body: bytes) -> bytes:
    """Object name = hash of "<type> <len>\\0<body>" (the trusted computation)."""
    h = hashlib.new(algo)
    h.update(kind.encode() + b" " + str(len(body)).encode() + b"\0" + body)
    return h.hexdigest().encode()


# ----------------------------------------------------------------------------- atoms
IDS = [None,
       b"A U Thor <author@example.com>",
       b"J\xc3\xb6rg \xff\xfe O'Neil\t(x) <j+x@\xe9.example>",
       b" <>"]
LINES = [b"",
         b"Subject line",
         b"body \xc3\xa9\xff\x01 text  with  spaces ",
         b" leading space",
         b"-----BEGIN PGP SIGNATURE-----",
         b"iQEzBAABCAAdFiEEc01c01c01c01c01c01c01c01c01c0FAmV",
         b"=AbCd",
         b"-----END PGP SIGNATURE-----",
         b"-----BEGIN SSH SIGNATURE-----",
         b"U1NIU0lHAAAAAQAAADMAAAALc3NoLWVkMjU1MTkAAAAg",
         b"-----END SSH SIGNATURE-----",
         b"value one",
         b"tree 1234 looks like a header",
         b"key: with colon"]
KEYS = [None, b"HG:extra", b"x-custom", b"x-sig"]
ENCS = [None, b"ISO-8859-1"]
NAMES = [None, b"v1.0", b"rel/\xc3\xa9-x\xff"]
CHUNKS = [b"", b"hello\n", b"\x00\xff binary \n\n", b"x" * 70000, b"tree 0\x00"]


def _fixed_objects(algo):
    """Seven real objects whose names form the hex pool: 1,2 trees; 3,4,5 commits; 6 blob; 7 tag.
    Their bytes are literals; git gets the same bytes written into its scratch repository."""
    objs = {}
    blob = b"hello\n"
    objs[6] = ("blob", blob)
    bid = H(algo, "blob", blob)
    objs[1] = ("tree", b"")
    objs[2] = ("tree", b"100644 f\0" + bytes.fromhex(bid.decode()))
    t1 = H(algo, "tree", objs[1][1])
    for i, msg in ((3, b"one\n"), (4, b"two\n"), (5, b"three\n")):
        objs[i] = ("commit", b"tree " + t1 + b"\nauthor A <a@b> %d +0000\ncommitter A <a@b> %d +0000\n\n" % (i, i) + msg)
    c3 = H(algo, "commit", objs[3][1])
    objs[7] = ("tag", b"object " + c3 + b"\ntype commit\ntag base\ntagger A <a@b> 7 +0000\n\nbase tag\n")
    return objs


FIXED = {a: _fixed_objects(a) for a in ALGOS}
HEX = {a: [None] + [H(a, *FIXED[a][i]) for i in range(1, 8)] for a in ALGOS}
POOLS = {"id": IDS, "ln": LINES, "key": KEYS, "enc": ENCS, "name": NAMES, "chunk": CHUNKS}


def atom(pool: str, i: int, algo: str) -> bytes:
    if pool == "hex":
        return HEX[algo][i]
    if pool == "raw":
        return bytes.fromhex(HEX[algo][i].decode())
    return POOLS[pool][i]


# ----------------------------------------------------------------------------- dumb renderer
_SIMPLE = {"S": b" ", "L": b"\n", "N": b"\0"}


def render(toks, algo: str) -> bytes:
    """Token strings (as ObjGrammar!TokStr prints them) -> bytes.  No grammar knowledge."""
    out = []
    for t in toks:
        c = t[0]
        if t in _SIMPLE:
            out.append(_SIMPLE[t])
        elif c == "K":
            out.append(t[1:].encode())
        elif c == "D":
            out.append(t[1:].encode())
        elif c == "C":
            out.append(t[1:].encode())
        elif c == "V":
            pool, i = t[1:].split(":")
            out.append(atom(pool, int(i), algo))
        elif c == "B":
            out.append(bytes(int(x) for x in t[1:].split(".")) if len(t) > 1 else b"")
        else:
            raise ValueError(f"unknown token {t!r}")
    return b"".join(out)


# ----------------------------------------------------------------------------- TLC dump reader
STRICT = {}       # (kind, key) -> GitStrictOK, filled by read_dump
_RE_VAR = re.compile(r"^/\\ (\w+) = (.*)$")
_RE_STR = re.compile(r'"([^"]*)"')


def read_dump(path: str):
    """Yield (kind, key, toks list) per state of an ObjGrammar dump (only these three variables are
    read; the case itself is reconstructed from the pools by index)."""
    cur = {}
    var = None
    buf = []

    def flush():
        if var in ("toks", "kind", "key", "strict"):
            cur[var] = "".join(buf)
    with open(path, encoding="utf-8") as f:
        for line in f:
            if line.startswith("State "):
                flush()
                if cur:
                    yield _mk(cur)
                cur, var, buf = {}, None, []
                continue
            m = _RE_VAR.match(line)
            if m:
                flush()
                var, buf = m.group(1), [m.group(2)]
            else:
                buf.append(line)
        flush()
        if cur:
            yield _mk(cur)


def _mk(cur):
    kind = _RE_STR.search(cur["kind"]).group(1)
    key = _RE_STR.search(cur["key"]).group(1)
    toks = _RE_STR.findall(cur["toks"])
    if "strict" in cur:
        STRICT[(kind, key)] = "TRUE" in cur["strict"]
    return kind, key, toks


def load_pools(path: str):
    with open(path) as f:
        return json.load(f)


# ----------------------------------------------------------------------------- abstract -> concrete
def time_of(t) -> int:
    n = 0
    for l in t["limbs"]:
        n = n * 10 ** 9 + l
    return -n if t["neg"] else n


def limbs_of(n: int):
    neg = n < 0
    n = abs(n)
    limbs = []
    while True:
        limbs.append(n % 10 ** 9)
        n //= 10 ** 9
        if not n:
            break
    return {"neg": neg, "limbs": limbs[::-1]}


def lines_of(ls):
    """Seq(line atom index) -> bytes (None for the empty sequence = absent)."""
    if not ls:
        return None
    return b"\n".join(LINES[i] for i in ls)


def case_of(pools, kind: str, key: str):
    """Index vector (key string) -> abstract case record (JSON form of the TLA+ value)."""
    fields = pools[kind + "Fields"]
    ix = [int(x) for x in key.split(",")]
    return {f: pools[kind][f][i - 1] for f, i in zip(fields, ix)}


def tag_fields(t, algo):
    """Abstract tag record -> concrete values of the dulwich Tag API."""
    d = {"object": (t["target"]["t"], HEX[algo][t["target"]["h"]]),
         "name": NAMES[t["name"]],
         "tagger": IDS[t["tagger"][0]] if t["tagger"] else None,
         "tag_time": time_of(t["ttime"]) if t["tagger"] else None,
         "tag_timezone": t["ttz"]["off"] if t["tagger"] else None,
         "tag_timezone_neg_utc": t["ttz"]["negutc"] if t["tagger"] else False,
         "message": lines_of(t["message"]),
         "signature": lines_of(t["signature"]),
         "blank": t.get("blank", True)}
    if d["message"] is None and d["blank"]:
        d["message"] = b""            # blank line present, nothing after it: the empty message
    return d


def commit_fields(c, algo):
    return {"tree": HEX[algo][c["tree"]],
            "parents": [HEX[algo][p] for p in c["parents"]],
            "author": IDS[c["author"]], "author_time": time_of(c["atime"]),
            "author_timezone": c["atz"]["off"], "author_timezone_neg_utc": c["atz"]["negutc"],
            "committer": IDS[c["committer"]], "commit_time": time_of(c["ctime"]),
            "commit_timezone": c["ctz"]["off"], "commit_timezone_neg_utc": c["ctz"]["negutc"],
            "encoding": ENCS[c["encoding"][0]] if c["encoding"] else None,
            "mergetag": [tag_fields(t, algo) for t in c["mergetags"]],
            "extra": [(KEYS[e["k"]], lines_of(e["v"])) for e in c["extra"]],
            "gpgsig": lines_of(c["gpgsig"]),
            "message": lines_of(c["message"]) if (c["message"] or not c.get("blank", True)) else b"",
            "blank": c.get("blank", True)}


def tree_entries(key: str, algo):
    """Tree key "n.n:mode:sha ..." -> list of (name, mode, hexsha) in the spec's order."""
    out = []
    if not key:
        return out
    for part in key.split(" "):
        name, mode, sha = part.split(":")
        out.append((bytes(int(x) for x in name.split(".")), int(mode), HEX[algo][int(sha)]))
    return out


def blob_chunks(key: str):
    return [CHUNKS[int(x)] for x in key.split(",")] if key else []


# which abstract fields one public dulwich attribute covers (an edit of an abstract field is made
# through these attributes on the real object)
COMMIT_ATTRS = {"tree": ["tree"], "parents": ["parents"], "author": ["author"], "atime": ["author_time"],
                "atz": ["author_timezone", "author_timezone_neg_utc"], "committer": ["committer"],
                "ctime": ["commit_time"], "ctz": ["commit_timezone", "commit_timezone_neg_utc"],
                "encoding": ["encoding"], "mergetags": ["mergetag"], "extra": ["extra"], "gpgsig": ["gpgsig"],
                "message": ["message"], "blank": None}    # blank: no API; such objects only come from parsing
TAG_ATTRS = {"target": ["object"], "name": ["name"], "tagger": ["tagger", "tag_time", "tag_timezone", "tag_timezone_neg_utc"],
             "ttime": ["tag_time"], "ttz": ["tag_timezone", "tag_timezone_neg_utc"], "message": ["message"],
             "signature": ["signature"], "blank": None}


# ----------------------------------------------------------------------------- concrete -> abstract (literal atoms, for ObjGrammarTrace)
def _b(x: bytes):
    return list(x)


def _lines(x):
    """bytes | None -> Seq(line) with literal atoms (None = absent = <<>>)."""
    if x is None:
        return []
    return [_b(l) for l in x.split(b"\n")]


def tz_case(off, negutc):
    return {"off": int(off), "negutc": bool(negutc)}


def tag_case(F):
    has = F.get("tagger") is not None
    return {"target": {"h": _b(F["object"][1]), "t": F["object"][0]}, "name": _b(F["name"]),
            "tagger": [_b(F["tagger"])] if has else [],
            "ttime": limbs_of(F["tag_time"] if has else 0),
            "ttz": tz_case(F["tag_timezone"] if has else 0, F["tag_timezone_neg_utc"] if has else False),
            "message": _lines(F["message"]), "signature": _lines(F["signature"]), "blank": F.get("blank", True)}


def commit_case(F):
    return {"tree": _b(F["tree"]), "parents": [_b(p) for p in F["parents"]],
            "author": _b(F["author"]), "atime": limbs_of(F["author_time"]),
            "atz": tz_case(F["author_timezone"], F["author_timezone_neg_utc"]),
            "committer": _b(F["committer"]), "ctime": limbs_of(F["commit_time"]),
            "ctz": tz_case(F["commit_timezone"], F["commit_timezone_neg_utc"]),
            "encoding": [_b(F["encoding"])] if F["encoding"] is not None else [],
            "mergetags": [tag_case(t) for t in F["mergetag"]],
            "extra": [{"k": _b(k), "v": _lines(v)} for (k, v) in F["extra"]],
            "gpgsig": _lines(F["gpgsig"]), "message": _lines(F["message"]), "blank": F.get("blank", True)}


def tree_case(entries):
    """[(name, mode, hexsha)] -> sequence of entries with raw ids."""
    return [{"name": _b(n), "mode": int(m), "sha": _b(bytes.fromhex(h.decode()))} for (n, m, h) in entries]


def blob_case(chunks):
    return [_b(c) for c in chunks]


def jsonable(F):
    """Concrete field dict -> JSON (bytes as latin-1 strings) for replay files."""
    if isinstance(F, bytes):
        return {"b": F.decode("latin-1")}
    if isinstance(F, dict):
        return {k: jsonable(v) for k, v in F.items()}
    if isinstance(F, (list, tuple)):
        return [jsonable(x) for x in F]
    return F


def unjson(J):
    if isinstance(J, dict):
        if set(J) == {"b"}:
            return J["b"].encode("latin-1")
        return {k: unjson(v) for k, v in J.items()}
    if isinstance(J, list):
        return [unjson(x) for x in J]
    return J

"""C16 mode T: executions of the real ref containers recorded as traces and judged by TLC
(specs/RefMapTrace.tla).  The generator draws longer call sequences over a larger universe than
the state graph covers (siblings below a directory, remote-tracking names whose directories do
not exist yet, chains longer than the symref depth limit, four values)."""
from __future__ import annotations

import json
import os

from . import tlaval, tlc
from .c16_backends import ABSENT, HEAD, DictBackend, DiskBackend, GitView, ReftableBackend
from .c16_replay import (METHOD, Finding, base_str, call_case, call_str, diff_desc, eff, git_diffs, is_prefix, placement,
                         state_features, sub_case, _cls, _got, _ser, _tagns)
from .core import MachineryError

BIG_NAMES = [HEAD, ("refs", "heads", "a"), ("refs", "heads", "a", "b"), ("refs", "heads", "a", "c"),
             ("refs", "heads", "b"), ("refs", "heads", "m"), ("refs", "tags", "t"),
             ("refs", "remotes", "o", "HEAD"), ("refs", "remotes", "o", "m")]
BIG_VALUES = ["v1", "v2", "v3", "v4"]
CALL_OPS = ("Set", "SetIfEquals", "AddIfNew", "Remove", "RemoveIfEquals", "SetSymbolic")


def _h(n):
    return ("refs", "heads", n)


# "wide" universe: name lengths around the sizes at which record encodings change (a name of L bytes is
# refs/heads/ + L-11 characters), names sharing long prefixes (prefix compression; 130 bytes: a two-byte
# prefix length), and object ids chosen for their bytes (WideValues)
WIDE_LENGTHS = (31, 32, 33, 47, 48, 49, 64, 255)
WIDE_NAMES = ([HEAD, _h("m")] + [_h("x" * (L - 11)) for L in WIDE_LENGTHS]
              + [_h("p" * 18 + s) for s in ("0", "1")]                 # 30 bytes, 29 shared
              + [_h("p" * 29 + s) for s in ("0", "1")]                 # 41 bytes, 40 shared
              + [_h("q" * 125 + s) for s in ("a", "b")])               # 137 bytes, 136 shared
WIDE_VALUES = (["mk%02d" % i for i in range(18)] + ["mklead001c", "mkzeros1c", "lead1c", "tail0000", "zeros01", "ff"]
               + ["p%04d" % i for i in range(4)])
BULK_SIZES = (1, 15, 16, 17, 100, 300)


def bulk_names(n):
    return [HEAD] + [_h("b%04d" % i) for i in range(n)]


def namelen(n):
    return len("/".join(n))


def len_class(n):
    L = namelen(n)
    return "" if L < 32 else (" namelen=32-47" if L < 48 else " namelen=48+")


def rows(m):
    out = []
    for n, e in m.items():
        if e == ABSENT:
            continue
        out.append({"n": list(n), "k": e[0], "v": e[1] if e[0] == "direct" else "", "t": list(e[1]) if e[0] == "sym" else []})
    return out


class Recorder:
    """Runs calls on one backend and records one event per call."""

    def __init__(self, be, objs, gitview: GitView | None, git_every=1):
        self.be, self.objs, self.gitview, self.git_every = be, objs, gitview, git_every
        self.ev = []
        self.loose = {n: ABSENT for n in be.names}
        self.packed = {n: ABSENT for n in be.names}
        self.prev_scan = _compact(be.scan()) if be.kind == "disk" else None
        self.pre = []       # per event: (loose, packed, get, fs-scan) before the call

    def git_ok_head(self):
        e = self.loose.get(HEAD, ABSENT)
        return e[0] == "direct" or (e[0] == "sym" and len(e[1]) > 1)

    def do(self, op, n=(), old="ANY", v="", t=(), items=None):
        be = self.be
        self.pre.append((self.loose, self.packed, self.ev[-1]["_get"] if self.ev else {},
                         self.prev_scan))
        got, oserr, form = be.call(op, n, old, v, t, items)
        if be.kind == "disk":
            sc = be.scan()
            loose, packed, _ = be.state(sc)
            dirs = sorted(be.dirs(sc))
            self.prev_scan = _compact(sc)
        else:
            sc = None
            loose, packed, _ = be.state()
            dirs = []
        api = be.api()
        e = {"op": op, "n": list(n), "old": old, "v": v, "t": list(t), "got": got, "oserr": bool(oserr), "form": form,
             "items": [{"n": list(x), "v": y} for (x, y) in (items or ())],
             "loose": rows(loose), "packed": rows(packed), "dirs": [list(d) for d in dirs],
             "get": [{"n": list(x), "r": r} for x, r in api["get"].items()],
             "peeled": [{"n": list(x), "p": p or ""} for x, p in api["peeled"].items()],
             "asd": [], "asdx": "", "sym": [], "symx": "",
             "sub": [{"base": list(s["base"]), "mode": s["mode"],
                      "keysx": s["keys"] if isinstance(s["keys"], str) else "",
                      "keys": [list(k) for k in s["keys"]] if not isinstance(s["keys"], str) else [],
                      "asdx": s["asd"] if isinstance(s["asd"], str) else "",
                      "asd": [{"k": list(k), "v": x} for k, x in s["asd"].items()] if not isinstance(s["asd"], str) else []}
                     for s in api["sub"]],
             "git": {"on": False, "head_ok": False, "refs": [], "peeled": [], "symref": [], "head_sym": []},
             "_get": dict(api["get"]), "_api": api, "_locks": sc["locks"] if sc else []}
        if isinstance(api["as_dict"], dict):
            e["asd"] = [{"n": list(k), "v": x} for k, x in api["as_dict"].items()]
        else:
            e["asdx"] = api["as_dict"]
        if isinstance(api["symrefs"], dict):
            e["sym"] = [{"n": list(k), "t": list(x)} for k, x in api["symrefs"].items()]
        else:
            e["symx"] = api["symrefs"]
        if self.gitview is not None and be.kind == "disk" and len(self.ev) % self.git_every == 0:
            view = self.gitview.view(sc, be.fingerprint(sc))
            g = e["git"]
            g["on"] = True
            g["head_ok"] = view["head_ok"]
            g["err"] = view["err"]
            for k, x in view["refs"].items():
                if k.endswith("^{}"):
                    g["peeled"].append({"n": k[:-3].split("/"), "v": x})
                else:
                    g["refs"].append({"n": k.split("/"), "v": x})
            g["symref"] = [{"n": k.split("/"), "t": x.split("/")} for k, x in view["symref"].items() if x]
            g["head_sym"] = view["head_sym"].split("/") if view["head_sym"] else []
            e["_git"] = view
        self.loose, self.packed = loose, packed
        self.ev.append(e)
        return e


def _compact(sc):
    """What fs_diagnosis needs of a directory scan (no file contents)."""
    return {"files": set(sc["files"]), "dirs": set(sc["dirs"]), "locks": list(sc["locks"])}


def gen_calls(rng, rec: Recorder, length, values):
    """Draw and execute `length` calls; choices look at the state observed so far (only to make
    matching old values and interesting names likely -- never to decide what is correct)."""
    be = rec.be
    names = be.names
    for _ in range(length):
        e = eff(rec.loose, rec.packed)
        present = [n for n in names if e[n] != ABSENT]
        r = rng.random()
        files = be.kind == "disk"

        def pick_name(write):
            if files or rng.random() < 0.1:
                return rng.choice(names)
            # other backends: prefer calls inside the common contract
            for _ in range(8):
                n = rng.choice(names)
                if write and e[n][0] == "sym":
                    continue
                if any(is_prefix(p, n) or is_prefix(n, p) for p in present):
                    continue
                return n
            return rng.choice(names)

        def pick_old(n):
            x = rng.random()
            cur = e[n]
            if x < 0.5 and cur[0] == "direct":
                return cur[1]
            if x < 0.65:
                return "ZERO"
            return rng.choice(values)
        if r < 0.22:
            rec.do("Set", pick_name(True), "ANY", rng.choice(values))
        elif r < 0.37:
            n = pick_name(True)
            rec.do("SetIfEquals", n, pick_old(n), rng.choice(values))
        elif r < 0.47:
            rec.do("AddIfNew", pick_name(True), "ANY", rng.choice(values))
        elif r < 0.57:
            n = rng.choice(present) if present and rng.random() < 0.7 else pick_name(False)
            rec.do("Remove", n)
        elif r < 0.66:
            n = rng.choice(present) if present and rng.random() < 0.7 else pick_name(False)
            rec.do("RemoveIfEquals", n, pick_old(n))
        elif r < 0.82:
            n = pick_name(False)
            rec.do("SetSymbolic", n, "ANY", "", rng.choice(names))
        elif r < 0.89:
            if files:
                rec.do("PackRefs", v=rng.choice(["all", "all", "tags"]))
        elif r < 0.94:
            if files and rec.gitview is not None and rec.git_ok_head():
                rec.do("GitPack")
        else:
            if be.kind != "dict":
                rec.do("Reopen")


def gen_wide(rng, rec: Recorder, length):
    """Calls over the wide universe: mostly creations and overwrites with the special names and ids,
    re-opening often (what was written must be there for a fresh reader), now and then a small batch."""
    be = rec.be
    names, values = be.names, WIDE_VALUES
    for _ in range(length):
        e = eff(rec.loose, rec.packed)
        r = rng.random()
        n = rng.choice(names)
        if e[n][0] == "sym" and rng.random() < 0.8:           # stay inside the common contract
            rec.do("Remove", n)
            continue
        if r < 0.35:
            rec.do("Set", n, "ANY", rng.choice(values))
        elif r < 0.45:
            cur = e[n]
            old = cur[1] if (cur[0] == "direct" and rng.random() < 0.6) else "ZERO"
            rec.do("SetIfEquals", n, old, rng.choice(values))
        elif r < 0.55:
            rec.do("AddIfNew", n, "ANY", rng.choice(values))
        elif r < 0.65:
            rec.do("Remove", n)
        elif r < 0.70:
            cur = e[n]
            rec.do("RemoveIfEquals", n, cur[1] if cur[0] == "direct" else "ZERO")
        elif r < 0.78:
            rec.do("SetSymbolic", n, "ANY", "", rng.choice(names))
        elif r < 0.88 and be.kind != "disk":
            k = rng.randint(2, 5)
            picked = [x for x in rng.sample(names, k) if e[x][0] != "sym"]
            if picked:
                rec.do("BatchSet", v="wide", items=[(x, rng.choice(values)) for x in picked])
        elif be.kind != "dict":
            rec.do("Reopen")


def gen_bulk(rng, rec: Recorder, size):
    """Many refs in one table: a batch creating `size` refs, a fresh reader, single updates and deletes
    in the middle and at the ends, a second batch overwriting every third ref."""
    be = rec.be
    names = [n for n in be.names if n != HEAD][:size]
    vals = ["p%04d" % i for i in range(1200)]
    rec.do("BatchSet", v=f"create-{size}", items=[(n, vals[i]) for i, n in enumerate(names)])
    if be.kind != "dict":
        rec.do("Reopen")
    for n in {names[0], names[len(names) // 2], names[-1]}:
        rec.do("Set", n, "ANY", vals[1100 + rng.randrange(50)])
    rec.do("Remove", names[len(names) // 3])
    rec.do("SetSymbolic", HEAD, "ANY", "", names[-1])
    rec.do("BatchSet", v=f"overwrite-{size}", items=[(n, vals[1000 + (i % 100)]) for i, n in enumerate(names) if i % 3 == 0])
    if be.kind != "dict":
        rec.do("Reopen")


def new_backend(kind, objs, names, scratch):
    root = os.path.join(scratch, "t-" + kind)
    if kind == "disk":
        return DiskBackend(objs, names, root)
    if kind == "dict":
        return DictBackend(objs, names)
    return ReftableBackend(objs, names, root)


def universe(name, objs_by):
    """-> (names, values, objects, use git) of a named universe ('big', 'wide', 'bulk-<n>')."""
    if name == "wide":
        return WIDE_NAMES, WIDE_VALUES, objs_by["wide"], False
    if name.startswith("bulk-"):
        return bulk_names(int(name[5:])), ["p%04d" % i for i in range(1200)], objs_by["wide"], False
    return BIG_NAMES, BIG_VALUES, objs_by["big"], True


def to_json(tid, rec: Recorder, names, values, objs, uni="big"):
    return {"tid": tid, "backend": rec.be.kind, "universe": uni, "names": [list(n) for n in names], "values": list(values),
            "peel": [[v, objs.peel[v]] for v in values],
            "ev": [{k: x for k, x in e.items() if not k.startswith("_")} for e in rec.ev]}


# ------------------------------------------------------------------------------- TLC
def validate(ctx, traces, label, sigs_by_tid=None):
    """traces: list of (json obj, Recorder).  Runs RefMapTrace over all of them; returns
    (findings, drift messages, number of executions without a failed property clause)."""
    if not traces:
        return [], [], 0
    d = ctx.tmpdir("tr")
    path = os.path.join(d, "traces.ndjson")
    with open(path, "w") as f:
        for obj, _ in traces:
            f.write(json.dumps(obj, separators=(",", ":")) + "\n")
    res = tlc.run("RefMapTrace.tla", "RefMapTrace.cfg", workers=1, timeout=3000, env={"TRACE_FILE": path})
    ctx.add_tlc(f"RefMapTrace[{label}]", res, require_ok=False)
    fails, done = {}, {}
    for line in res.output.splitlines():
        if line.startswith('<<"FAIL"'):
            v = tlaval.parse(line.strip())
            fails.setdefault(v[1], []).append((v[2], str(v[3]), str(v[4]), int(v[5])))
        elif line.startswith('<<"DONE"'):
            v = tlaval.parse(line.strip())
            done[v[1]] = v[2]
    if not res.completed or len(done) != len(traces) or "Error:" in res.output:
        raise MachineryError(f"trace validation incomplete ({len(done)}/{len(traces)} verdicts)\n{res.output[-3000:]}")
    by_sig, drift, clean = {}, [], 0
    for obj, rec in traces:
        fl = sorted(set(fails.get(obj["tid"], [])))
        if not any(cl != "placement" for (_, cl, _, _) in fl):
            clean += 1
        for (step, clause, want, nameno) in fl:
            name = tuple(traces[0][0]["names"][nameno - 1]) if nameno else ()
            f = describe(rec, obj, step, clause, want, name)
            if sigs_by_tid is not None:
                sigs_by_tid.setdefault(obj["tid"], set()).add(f.sig)
            if clause == "placement":
                if len(drift) < 50:
                    drift.append(f.what)
            else:       # one finding per signature: the occurrence with the shortest history
                old = by_sig.get(f.sig)
                if old is None or len(f.replay["calls"]) < len(old.replay["calls"]):
                    by_sig[f.sig] = f
    return list(by_sig.values()), drift, clean


def describe(rec: Recorder, obj, step, clause, want, name):
    """Turn a failed clause of event `step` (1-based) into a finding with the same signature
    vocabulary as the graph replay."""
    be = rec.be
    e = rec.ev[step - 1]
    pre_l, pre_p, pre_get, pre_scan = rec.pre[step - 1]
    post_l = {n: ABSENT for n in be.names}
    post_p = dict(post_l)
    for r in e["loose"]:
        post_l[tuple(r["n"])] = ("direct", r["v"]) if r["k"] == "direct" else ("sym", tuple(r["t"]))
    for r in e["packed"]:
        post_p[tuple(r["n"])] = ("direct", r["v"])
    hist = [{"op": x["op"], "n": x["n"], "old": x["old"], "v": x["v"], "t": x["t"], "form": x["form"],
             "call": call_str({"op": x["op"], "n": tuple(x["n"]), "old": x["old"], "v": x["v"], "t": tuple(x["t"])}),
             "want": "", "got": x["got"]} for x in rec.ev[:step]]
    hist[-1]["want"] = want
    lab = {"op": e["op"], "n": tuple(e["n"]), "old": e["old"], "v": e["v"], "t": tuple(e["t"]), "res": want, "tgt": name,
           "count": len(e.get("items", ()))}
    for x in hist:
        if x["op"] == "BatchSet":
            x["call"] = "batch: " + x["v"]
    for x, ev in zip(hist, rec.ev[:step]):
        if ev.get("items"):
            x["items"] = ev["items"]
    robj = {"backend": be.kind, "universe": obj.get("universe", "big"), "calls": hist, "clause": clause}
    if len(obj["names"]) <= 20:
        robj["names"], robj["values"] = obj["names"], obj["values"]
    post_e = eff(post_l, post_p)
    feats = state_features(post_l, post_p, e["_get"])
    site = be.site
    if clause in ("result", "state") and e["op"] == "BatchSet":
        # what became of the batch, from the recorded arguments and the state read back
        last = {tuple(i["n"]): i["v"] for i in e["items"]}
        missing = sum(1 for n in last if post_e.get(n, ABSENT) == ABSENT)
        wrong = sum(1 for n, v in last.items() if post_e.get(n, ABSENT) not in (ABSENT, ("direct", v)))
        others = sum(1 for n in post_e if n not in last and post_e[n] != eff(pre_l, pre_p).get(n, ABSENT))
        some = lambda k, n: "none" if k == 0 else ("all" if k == n else "some")    # noqa: E731
        longest = max(last, key=namelen)
        marked = any(v.startswith("mk") for v in last.values())
        # an earlier write of a long name leaves a record that a consolidating batch reads back as garbage
        earlier = any(namelen(tuple(x["n"])) >= 32 or any(namelen(tuple(i["n"])) >= 32 for i in x.get("items", ()))
                      for x in rec.ev[:step - 1] if x["op"] in ("Set", "SetIfEquals", "AddIfNew", "SetSymbolic", "BatchSet"))
        case = (f"BatchSet count={len(last)}{len_class(longest)}{' value=mk' if marked else ''}"
                f"{' after-long-name-write' if earlier else ''} "
                f"missing={some(missing, len(last))} wrong={some(wrong, len(last))} others-changed={some(others, max(others, 1)) if others else 'none'}")
        sig = f"{site}.{METHOD['BatchSet'] if be.kind == 'reftable' else '__setitem__'}|{clause}|{case} got={e['got']}"
        what = (f"a batch of {len(last)} refs[n] = v returned {e['got']}; afterwards {missing} of them are missing, {wrong} hold "
                f"another value, {others} other refs changed")
    elif clause in ("result", "state"):
        fs = be.fs_diagnosis(pre_scan, name) if (be.kind == "disk" and name) else "-"
        case = call_case(lab, pre_l, pre_p, fs, pre_get)
        # (wide universe) what is special about the name and the id of this call
        case += len_class(tuple(e["n"]))
        if e["v"].startswith("mk"):
            case += " value=" + ("mk-lead" if e["v"] == "mklead001c" else "mk")
        # the state the specification expects is not printed by the monitor; describe the real change
        pre_e = eff(pre_l, pre_p)
        changed = diff_desc(lab, pre_e, post_e)
        if clause == "result":
            sig = f"{site}.{METHOD[e['op']]}|result|{case} want={want} got={e['got']} change={changed}"
            what = f"{call_str(lab)} returned {e['got']}, the contract says {want} (refs changed: {changed})"
        else:
            cl = {"PackRefs": "pack-visible", "GitPack": "pack-visible", "Reopen": "reopen-visible"}.get(e["op"], "state")
            sig = f"{site}.{METHOD[e['op']]}|{cl}|{case} result={e['got']} change={changed}"
            what = f"after {call_str(lab)} -> {e['got']} the refs differ from the contract (real change: {changed})"
    elif clause == "placement":
        sig = "placement"
        what = (f"{be.kind}: placement after {call_str(lab)}: real loose={_ser(post_l)} packed={_ser(post_p)} "
                f"dirs={['/'.join(x) for x in e['dirs']]}")
    elif clause == "get":
        got = e["_get"].get(name)
        sig = f"{site}.__getitem__|read|name={placement(post_l, post_p, name)} want={_cls(want)} got={_cls(got)}"
        what = f"refs[{'/'.join(name)}] gives {got}, the contract says {want}"
    elif clause == "peeled":
        p = e["_api"]["peeled"].get(name)
        if want in rec.objs.peel:
            tag = "tag" if rec.objs.peel[want] != want else "commit"
            sig = (f"{site}.get_peeled|peeled|name={placement(post_l, post_p, name)}{_tagns(name)} value={tag} "
                   f"got={'itself' if p == want else _cls(p)}")
        else:
            sig = f"{site}.get_peeled|peeled|name={placement(post_l, post_p, name)}{_tagns(name)} unresolvable got={_cls(p)}"
        what = f"get_peeled({'/'.join(name)}) gives {p}; refs[...] is {want}"
    elif clause.startswith("subkeys:") or clause.startswith("as_dict-base:"):
        s = e["_api"]["sub"][int(clause.split(":")[1]) - 1]
        keys = clause.startswith("subkeys:")
        sig = f"{site}.{'subkeys' if keys else 'as_dict'}|read|{sub_case(s, post_l, post_p, s['keys'] if keys else s['asd'])}"
        what = (f"{'subkeys' if keys else 'as_dict'}({base_str(s)!r}) gives {_ser(s['keys'] if keys else s['asd'])} "
                f"in state {_ser(post_e)}")
    elif clause == "as_dict":
        a = e["_api"]["as_dict"]
        sig = f"{site}.as_dict|read|state={feats} got={_got(a)}"
        what = f"as_dict() gives {_ser(a)} in state {_ser(post_e)}"
    elif clause == "symrefs":
        a = e["_api"]["symrefs"]
        sig = f"{site}.get_symrefs|read|state={feats} got={_got(a)}"
        what = f"get_symrefs() gives {_ser(a)} in state {_ser(post_e)}"
    else:
        # the monitor decided; for the signature, name the entry with the real reads as reference
        view = e.get("_git") or {}
        ds = [d for d in git_diffs(rec.objs, view, e["_get"], post_l, post_p) if d[0] == clause] if view else []
        if ds:
            sig = f"{site}|git-view|{clause} {ds[0][1]}"
            what = ds[0][2]
        else:
            sig = f"{site}|git-view|{clause} state={feats}"
            what = f"C git's view ({clause}) differs from the contract in state {_ser(post_e)}: git says {view}"
        robj["git"] = view
    robj["case"] = sig.split("|", 2)[2] if "|" in sig else sig
    return Finding(sig, what, robj)

"""C20 adapters: the real dulwich config reader/writer and the real git binary.

Python-side shapes (mirroring specs/Config.tla):
  cfg    = [ {"sec": bytes, "hs": bool, "sub": bytes, "items": [(key bytes, value bytes), ...]}, ... ]
  dulwich read result = (ok, cfg, exception class name or "")
  git read result     = (ok, [(full key bytes, value bytes | None), ...])     full key = sec[.sub].key
"""
from __future__ import annotations

import concurrent.futures as cf
import io
import os
import shutil
import subprocess

GIT_WORKERS = 8


# --------------------------------------------------------------------------- model JSON -> Python
def b(xs) -> bytes:
    return bytes(xs)


def cfg_from_json(c):
    return [{"sec": b(s["sec"]), "hs": bool(s["hs"]), "sub": b(s["sub"]),
             "items": [(b(i["k"]), b(i["v"])) for i in s["items"]]} for s in c]


def dulres_from_json(r):
    """model DulRead result [ok, cfg] -> (ok, cfg)"""
    return bool(r["ok"]), (cfg_from_json(r["cfg"]) if r["ok"] else [])


def fullkey(sec: bytes, hs: bool, sub: bytes, k: bytes) -> bytes:
    return sec.lower() + ((b"." + sub) if hs else b"") + b"." + k.lower()


def gitres_from_json(r):
    """model GitRead result [ok, ents] -> (ok, [(fullkey, value|None)])"""
    ents = [(fullkey(b(e["sec"]), e["hs"], b(e["sub"]), b(e["k"])), b(e["v"]) if e["hv"] else None) for e in r["ents"]]
    return bool(r["ok"]), ents


def cfg_to_json(cfg):
    return [{"sec": list(s["sec"]), "hs": s["hs"], "sub": list(s["sub"]),
             "items": [{"k": list(k), "v": list(v)} for k, v in s["items"]]} for s in cfg]


# --------------------------------------------------------------------------- meaning
def norm(cfg):
    """git's case rules: section and key names case-insensitive, subsection case-sensitive."""
    return [(s["sec"].lower(), s["hs"], s["sub"], [(k.lower(), v) for k, v in s["items"]]) for s in cfg]


def flat(cfg):
    return [(fullkey(s["sec"], s["hs"], s["sub"], k), v) for s in cfg for k, v in s["items"]]


def meaning(ents):
    """variable -> ordered list of values (what git config --get-all answers)"""
    m = {}
    for k, v in ents:
        m.setdefault(k, []).append(v)
    return m


def same_meaning(e1, e2):
    return meaning(e1) == meaning(e2)


# --------------------------------------------------------------------------- real dulwich
def section_tuple(s):
    return (s["sec"], s["sub"]) if s["hs"] else (s["sec"],)


def dul_build(cfg):
    from dulwich.config import ConfigFile
    c = ConfigFile()
    for s in cfg:
        t = section_tuple(s)
        if not s["items"]:
            c.add(t, b"x", b"")
            c.remove(t, b"x")
        for k, v in s["items"]:
            c.add(t, k, v)
    return c


def dul_project(c):
    out = []
    for t in c.sections():
        out.append({"sec": t[0], "hs": len(t) > 1, "sub": t[1] if len(t) > 1 else b"",
                    "items": [(k, v) for k, v in c.items(t)]})
    return out


def dul_write_obj(c) -> bytes:
    f = io.BytesIO()
    c.write_to_file(f)
    return f.getvalue()


def dul_write(cfg) -> bytes:
    return dul_write_obj(dul_build(cfg))


def dul_read(data: bytes):
    from dulwich.config import ConfigFile
    try:
        c = ConfigFile.from_file(io.BytesIO(data), expand_includes=False)
    except Exception as e:       # noqa: BLE001 - any failure to read is an observable outcome
        return False, [], type(e).__name__
    return True, dul_project(c), ""


# --------------------------------------------------------------------------- real git
def git_env(home):
    e = {k: v for k, v in os.environ.items() if not k.startswith("GIT_")}
    e.update(GIT_CONFIG_NOSYSTEM="1", GIT_CONFIG_GLOBAL="/dev/null", HOME=home, LC_ALL="C")
    return e


_READ_SH = 'for f in "$@"; do git config --file "$f" --list -z > "$f.out" 2>/dev/null; echo $? > "$f.rc"; done'
_SEQ = [0]


def _dir(scratch, tag):
    _SEQ[0] += 1
    d = os.path.join(scratch, f"{tag}{os.getpid()}-{_SEQ[0]}")
    os.makedirs(d, exist_ok=True)
    return d


def parse_list_z(out: bytes):
    ents = []
    for rec in out.split(b"\0")[:-1]:
        k, sep, v = rec.partition(b"\n")
        ents.append((k, v if sep else None))
    return ents


def _spans(n, size):
    return [(lo, min(n, lo + size)) for lo in range(0, n, size)]


def git_read_many(scratch: str, files: list[bytes]):
    """One `git config --file F --list -z` per file, in parallel.  -> list of (ok, ents)."""
    if not files:
        return []
    d = _dir(scratch, "gr")
    env = git_env(d)
    for i, data in enumerate(files):
        with open(os.path.join(d, f"f{i}"), "wb") as f:
            f.write(data)

    def work(r):
        subprocess.run(["sh", "-c", _READ_SH, "sh"] + [os.path.join(d, f"f{i}") for i in range(*r)], env=env, check=True)
    with cf.ThreadPoolExecutor(GIT_WORKERS) as ex:
        list(ex.map(work, _spans(len(files), max(1, min(400, -(-len(files) // GIT_WORKERS))))))
    res = []
    for i in range(len(files)):
        p = os.path.join(d, f"f{i}")
        with open(p + ".rc") as f:
            rc = int(f.read().strip() or "1")
        with open(p + ".out", "rb") as f:
            out = f.read()
        res.append((rc == 0, parse_list_z(out) if rc == 0 else []))
    shutil.rmtree(d, ignore_errors=True)
    return res


MARK = b"zzsep.m"


def _batch_file(files, idxs):
    return b"".join(b"[zzsep]\n\tm = %d\n" % n + files[i] + b"\n" for n, i in enumerate(idxs))


def _split_batch(res, k):
    """(ok, ents) of a batch of k marked files -> list of k entry lists, or None if the markers are not intact."""
    ok, ents = res
    if not ok:
        return None
    groups, cur = [], None
    for key, val in ents:
        if key == MARK and val == b"%d" % len(groups):
            cur = []
            groups.append(cur)
        elif cur is None:
            return None
        else:
            cur.append((key, val))
    return groups if len(groups) == k else None


def git_read_smart(scratch: str, files: list[bytes], batchable: list[bool], stats: dict | None = None, size: int = 400):
    """Like git_read_many, with far fewer processes: files flagged batchable (the model expects git to
    parse them) are concatenated, each preceded by a marker entry; a batch whose markers do not come
    back intact (a file ended inside a value / quote / was rejected) is split in halves and retried,
    down to single files, which are then read on their own exactly as given."""
    n = len(files)
    out: list = [None] * n
    singles = [i for i in range(n) if not batchable[i]]
    groups = [[i for i in range(n) if batchable[i]][lo:hi] for lo, hi in _spans(sum(batchable), size)]
    nproc = 0
    while groups:
        rs = git_read_many(scratch, [_batch_file(files, g) for g in groups])
        nproc += len(groups)
        nxt = []
        for g, r in zip(groups, rs):
            parts = _split_batch(r, len(g))
            if parts is not None:
                for i, ents in zip(g, parts):
                    out[i] = (True, ents)
            elif len(g) == 1:
                singles.append(g[0])
            else:
                nxt += [g[:len(g) // 2], g[len(g) // 2:]]
        groups = nxt
    rs = git_read_many(scratch, [files[i] for i in singles])
    nproc += len(singles)
    for i, r in zip(singles, rs):
        out[i] = r
    if stats is not None:
        stats["git_read_processes"] = stats.get("git_read_processes", 0) + nproc
    return out


_WRITE1_SH = ('i=$1; shift; while [ $# -ge 2 ]; do git config --file "$D/w$i" --add -- "$1" "$2" 2>/dev/null || echo $? > "$D/w$i.rc"; '
              'i=$((i+1)); shift 2; done')


def git_write_single_many(scratch: str, pairs):
    """pairs: [(full key, value)].  For each a fresh file and one `git config --file F --add -- key value`.
    -> list of bytes | None (None: git refused)."""
    if not pairs:
        return []
    d = _dir(scratch, "gw")
    env = dict(git_env(d), D=d)

    def work(r):
        args = []
        for i in range(*r):
            args += [pairs[i][0], pairs[i][1]]
        subprocess.run([b"sh", b"-c", _WRITE1_SH.encode(), b"sh", str(r[0]).encode()] + args, env=env, check=True)
    with cf.ThreadPoolExecutor(GIT_WORKERS) as ex:
        list(ex.map(work, _spans(len(pairs), max(1, min(400, -(-len(pairs) // GIT_WORKERS))))))
    res = []
    for i in range(len(pairs)):
        p = os.path.join(d, f"w{i}")
        if os.path.exists(p + ".rc") or not os.path.exists(p):
            res.append(None)
        else:
            with open(p, "rb") as f:
                res.append(f.read())
    shutil.rmtree(d, ignore_errors=True)
    return res


def git_key(s, k: bytes) -> bytes:
    return s["sec"] + ((b"." + s["sub"]) if s["hs"] else b"") + b"." + k


def git_ops(scratch: str, histories, initial=None):
    """histories: list of lists of argv tails (after `git config --file F`), bytes.  Every history runs on
    its own file (fresh, or starting with initial[i]); -> list of file contents (b"" if never created)."""
    if not histories:
        return []
    d = _dir(scratch, "go")
    env = git_env(d)
    if initial is not None:
        for i, data in enumerate(initial):
            if data:
                with open(os.path.join(d, f"h{i}"), "wb") as f:
                    f.write(data)

    def work(r):
        for i in range(*r):
            p = os.path.join(d, f"h{i}").encode()
            for argv in histories[i]:
                subprocess.run([b"git", b"config", b"--file", p] + list(argv), env=env,
                               stdout=subprocess.DEVNULL, stderr=subprocess.DEVNULL)
    with cf.ThreadPoolExecutor(GIT_WORKERS) as ex:
        list(ex.map(work, _spans(len(histories), max(1, -(-len(histories) // (GIT_WORKERS * 4))))))
    res = []
    for i in range(len(histories)):
        try:
            with open(os.path.join(d, f"h{i}"), "rb") as f:
                res.append(f.read())
        except FileNotFoundError:
            res.append(b"")
    shutil.rmtree(d, ignore_errors=True)
    return res


def git_add_history(cfg):
    """the `git config --add` commands that store cfg item by item on a fresh file"""
    return [[b"--add", b"--", git_key(s, k), v] for s in cfg for k, v in s["items"]]

"""C11 helpers: TLC dump -> JSON, abstract <-> concrete index values, the dumb renderer for the
field layouts IndexFmt.tla emits, an independent minimal index reader used ONLY as a projection
(order of keys, extension list, trailer status), and the drivers for dulwich and C git.

Abstract values are exactly the ones of specs/IndexFmt.tla:
  byte string = list of runs [byte, count]; wide integer = big-endian list of 16-bit limbs;
  entry = dict(name, stage, ct, mt, dev, ino, mode, uid, gid, size, sha, valid, skip, ita, xbit);
  time = dict(k="int"|"pair"|"float", s=limbs, ns=limbs, q=0..3).
"""
from __future__ import annotations

import hashlib
import itertools
import json
import os
import re
import struct
import subprocess

# --------------------------------------------------------------------------- TLC dump -> JSON
_TOK = re.compile(r'<<|>>|\|->|[\[\]{}]|"[^"]*"|[A-Za-z_]\w*')
_MAP = {"<<": "[", ">>": "]", "{": "[", "}": "]", "[": "{", "]": "}", "|->": ":", "TRUE": "true", "FALSE": "false"}


def _tok(m):
    t = m.group(0)
    r = _MAP.get(t)
    if r is not None:
        return r
    if t[0] == '"':
        return t
    return '"' + t + '"'


def tla_to_py(text: str):
    """A TLC-printed value built from tuples, sets, records, ints, booleans and plain strings."""
    return json.loads(_TOK.sub(_tok, text))


def laid_out(block: str) -> bool:
    return "\n/\\ ph = 1\n" in block or block.rstrip().endswith("/\\ ph = 1")


def _parse_block(block: str):
    i = block.find("/\\ out = ")
    j = block.find("\n/\\ ph = ", i)
    if i < 0 or j < 0 or not laid_out(block):
        return None
    return tla_to_py(block[i + 9:j])


def _parse_chunk(blocks):
    out = []
    for b in blocks:
        r = _parse_block(b)
        if r is not None:
            out.append(r)
    return out


def load_cases(dump_path: str, procs: int = 8):
    """The `out` record of every laid-out state (ph = 1) of a TLC state dump of IndexFmt."""
    if not dump_path.endswith(".dump") and os.path.exists(dump_path + ".dump"):
        dump_path += ".dump"
    with open(dump_path, encoding="utf-8") as f:
        text = f.read()
    blocks = re.split(r"^State \d+:\n", text, flags=re.M)[1:]
    if len(blocks) < 4000 or procs <= 1:
        return _parse_chunk(blocks)
    import multiprocessing as mp
    n = (len(blocks) + procs * 4 - 1) // (procs * 4)
    chunks = [blocks[i:i + n] for i in range(0, len(blocks), n)]
    with mp.get_context("fork").Pool(procs) as pool:
        res = pool.map(_parse_chunk, chunks)
    return [x for r in res for x in r]


# --------------------------------------------------------------------------- abstract <-> concrete
def runs_to_bytes(r) -> bytes:
    return b"".join(bytes([b]) * n for b, n in r)


def bytes_to_runs(b: bytes):
    return [[k, sum(1 for _ in g)] for k, g in itertools.groupby(b)]


def limbs_to_int(l) -> int:
    v = 0
    for x in l:
        v = v * 65536 + x
    return v


def int_to_limbs(n: int):
    out = [n & 0xFFFF, (n >> 16) & 0xFFFF]
    n >>= 32
    while n:
        out.append(n & 0xFFFF)
        n >>= 16
    return out[::-1]


def u32_limbs(n: int):
    return [(n >> 16) & 0xFFFF, n & 0xFFFF]


def time_to_py(t):
    s = limbs_to_int(t["s"])
    if t["k"] == "int":
        return s
    if t["k"] == "pair":
        return (s, limbs_to_int(t["ns"]))
    return float(s) + t["q"] / 4.0


def pair_time(s: int, ns: int):
    return {"k": "pair", "s": u32_limbs(s), "ns": u32_limbs(ns), "q": 0}


def entry_key(e):
    return (runs_to_bytes(e["name"]), e["stage"])


def canon(e):
    """Hashable canonical form of an abstract entry (for set comparison)."""
    return json.dumps(e, sort_keys=True, separators=(",", ":"))


def describe(e) -> str:
    n = runs_to_bytes(e["name"])
    nm = repr(n) if len(n) <= 24 else f"{n[:8]!r}..({len(n)} bytes)"
    bits = "".join(c for c, k in (("V", "valid"), ("S", "skip"), ("I", "ita"), ("X", "xbit")) if e.get(k))
    return (f"{nm} stage={e['stage']} mode={limbs_to_int(e['mode']):o} size={limbs_to_int(e['size'])} "
            f"dev={limbs_to_int(e['dev'])} ino={limbs_to_int(e['ino'])} ct={e['ct']['k']}:{limbs_to_int(e['ct']['s'])}:"
            f"{limbs_to_int(e['ct']['ns'])}:{e['ct']['q']} bits={bits or '-'}")


# --------------------------------------------------------------------------- the dumb renderer
def render(fields) -> bytes:
    """Fields -> bytes: big-endian integers of the stated width, raw runs, SHA-1 of what precedes."""
    out = bytearray()
    for f in fields:
        t, v = f["t"], f["v"]
        if t == "u32":
            out += struct.pack(">HH", v[0], v[1])
        elif t == "u16":
            out += struct.pack(">H", v[0])
        elif t == "raw":
            out += runs_to_bytes(v)
        elif t == "sha1":
            out += hashlib.sha1(bytes(out)).digest()
        else:
            raise ValueError(t)
    return bytes(out)


# --------------------------------------------------------------------------- independent projection
def proj_parse(data: bytes):
    """Minimal reader following git's read-cache.c; used only to project a file on
    (version, keys in file order, entries, extensions, trailer status).  Never raises."""
    res = {"ok": False, "version": 0, "entries": [], "exts": [], "trailer": "bad", "ext_start": 0, "why": ""}
    try:
        if data[:4] != b"DIRC" or len(data) < 32:
            res["why"] = "header"
            return res
        v, n = struct.unpack(">II", data[4:12])
        res["version"] = v
        body_end = len(data) - 20
        pos, prev = 12, b""
        for _ in range(n):
            if pos + 62 > body_end:
                res["why"] = "truncated entry"
                return res
            (cs, cn, ms, mn, dev, ino, mode, uid, gid, size, sha, flags) = struct.unpack(">10I20sH", data[pos:pos + 62])
            p = pos + 62
            fl2 = 0
            if flags & 0x4000:
                (fl2,) = struct.unpack(">H", data[p:p + 2])
                p += 2
            nl = flags & 0xFFF
            if v >= 4:
                c = data[p]
                p += 1
                strip = c & 127
                while c & 128:
                    c = data[p]
                    p += 1
                    strip = ((strip + 1) << 7) + (c & 127)
                nul = data.index(b"\0", p, body_end)
                if strip > len(prev):
                    res["why"] = "strip > previous length"
                    return res
                name = prev[:len(prev) - strip] + data[p:nul]
                if (nl < 0xFFF and nl != len(name)) or (nl == 0xFFF and len(name) < 0xFFF):
                    res["why"] = "v4 name length field disagrees with the name"
                    return res
                npos = nul + 1
            else:
                if nl < 0xFFF:
                    name = data[p:p + nl]
                else:
                    name = data[p:data.index(b"\0", p, body_end)]
                sz = (p - pos) + len(name)
                npos = pos + ((sz + 8) & ~7)
                if npos > body_end or data[p + len(name):npos].strip(b"\0") or b"\0" in name:
                    res["why"] = "padding"
                    return res
            res["entries"].append({
                "name": bytes_to_runs(name), "stage": (flags >> 12) & 3, "ct": pair_time(cs, cn), "mt": pair_time(ms, mn),
                "dev": u32_limbs(dev), "ino": u32_limbs(ino), "mode": u32_limbs(mode), "uid": u32_limbs(uid),
                "gid": u32_limbs(gid), "size": u32_limbs(size), "sha": bytes_to_runs(sha),
                "valid": bool(flags & 0x8000), "skip": bool(fl2 & 0x4000), "ita": bool(fl2 & 0x2000), "xbit": bool(flags & 0x4000)})
            prev, pos = name, npos
        res["ext_start"] = pos
        while pos < body_end:
            if pos + 8 > body_end:
                res["why"] = "truncated extension header"
                return res
            sig = data[pos:pos + 4]
            (sz,) = struct.unpack(">I", data[pos + 4:pos + 8])
            if pos + 8 + sz > body_end:
                res["why"] = "truncated extension"
                return res
            res["exts"].append((sig, data[pos + 8:pos + 8 + sz]))
            pos += 8 + sz
        tr = data[body_end:]
        res["trailer"] = "sha1" if tr == hashlib.sha1(data[:body_end]).digest() else ("zeros" if tr == b"\0" * 20 else "bad")
        res["ok"] = True
    except Exception as e:  # noqa: BLE001 - a projection never raises
        res["why"] = f"{type(e).__name__}: {e}"
    return res


def ordered_keys(entries) -> bool:
    ks = [entry_key(e) for e in entries]
    return all(a < b for a, b in zip(ks, ks[1:]))


# --------------------------------------------------------------------------- dulwich drivers
def via_stat(e) -> bool:
    """Entries that a caller would build with index_entry_from_stat (nanosecond times, no flag
    bits); used for those whose device number is odd so that both constructions are exercised."""
    return (e["ct"]["k"] == "pair" and e["mt"]["k"] == "pair" and not (e["valid"] or e["skip"] or e["ita"] or e["xbit"])
            and limbs_to_int(e["dev"]) % 2 == 1 and limbs_to_int(e["ct"]["ns"]) < 10**9 and limbs_to_int(e["mt"]["ns"]) < 10**9)


def dw_entry(e, with_stage_bits=False):
    from dulwich.index import IndexEntry, index_entry_from_stat
    if via_stat(e) and not with_stage_bits:
        ct = limbs_to_int(e["ct"]["s"]) * 10**9 + limbs_to_int(e["ct"]["ns"])
        mt = limbs_to_int(e["mt"]["s"]) * 10**9 + limbs_to_int(e["mt"]["ns"])
        mode = limbs_to_int(e["mode"])
        st = os.stat_result((mode & 0xFFFFFFFF, limbs_to_int(e["ino"]), limbs_to_int(e["dev"]), 1, limbs_to_int(e["uid"]),
                             limbs_to_int(e["gid"]), limbs_to_int(e["size"]), 0, mt // 10**9, ct // 10**9),
                            {"st_atime": 0.0, "st_mtime": mt / 1e9, "st_ctime": ct / 1e9, "st_atime_ns": 0, "st_mtime_ns": mt, "st_ctime_ns": ct})
        return index_entry_from_stat(st, runs_to_bytes(e["sha"]).hex().encode(), mode=mode)
    # flag bits are set the way a caller of dulwich sets them: through its named constants and helpers
    from dulwich.index import EXTENDED_FLAG_INTEND_TO_ADD, EXTENDED_FLAG_SKIP_WORKTREE, FLAG_EXTENDED, FLAG_STAGESHIFT, FLAG_VALID
    flags = (FLAG_VALID if e["valid"] else 0) | (FLAG_EXTENDED if e["xbit"] else 0)
    if with_stage_bits:
        flags |= e["stage"] << FLAG_STAGESHIFT
    ent = IndexEntry(
        ctime=time_to_py(e["ct"]), mtime=time_to_py(e["mt"]), dev=limbs_to_int(e["dev"]), ino=limbs_to_int(e["ino"]),
        mode=limbs_to_int(e["mode"]), uid=limbs_to_int(e["uid"]), gid=limbs_to_int(e["gid"]), size=limbs_to_int(e["size"]),
        sha=runs_to_bytes(e["sha"]).hex().encode(), flags=flags,
        extended_flags=EXTENDED_FLAG_INTEND_TO_ADD if e["ita"] else 0)
    if e["skip"]:
        if e["xbit"]:
            ent.set_skip_worktree(True)
        else:
            ent.extended_flags |= EXTENDED_FLAG_SKIP_WORKTREE
    return ent


def dw_fill(idx, ins):
    """Hand the entries to an Index in the given order (stages of one path grouped)."""
    from dulwich.index import ConflictedIndexEntry
    by = {}
    for e in ins:
        by.setdefault(runs_to_bytes(e["name"]), {})[e["stage"]] = e
    for name, st in by.items():
        if set(st) == {0}:
            idx[name] = dw_entry(st[0])
        else:
            idx[name] = ConflictedIndexEntry(
                ancestor=dw_entry(st[1]) if 1 in st else None, this=dw_entry(st[2]) if 2 in st else None,
                other=dw_entry(st[3]) if 3 in st else None)


def dw_write(path, v, skip, ins):
    """Index.write() of the given entries; returns file bytes, or raises what dulwich raised."""
    from dulwich.index import Index
    if os.path.exists(path):
        os.unlink(path)
    # version 2 is also the default of Index(): leave it implicit for every other case
    idx = Index(path, read=False, skip_hash=skip, version=None if (v == 2 and len(ins) % 2 == 0) else v)
    dw_fill(idx, ins)
    idx.write()
    with open(path, "rb") as f:
        return f.read()


def _abs_from_dw(name, stage, e):
    def tm(t):
        if isinstance(t, tuple) and len(t) == 2 and all(isinstance(x, int) for x in t):
            return pair_time(t[0], t[1]) if 0 <= t[0] < 2**32 and 0 <= t[1] < 2**32 else {"k": "bad", "s": [], "ns": [], "q": 0}
        return {"k": "bad:" + type(t).__name__, "s": [], "ns": [], "q": 0}
    from dulwich.index import EXTENDED_FLAG_INTEND_TO_ADD, EXTENDED_FLAG_SKIP_WORKTREE, FLAG_EXTENDED, FLAG_VALID
    fst = e.stage().value
    skipbit = e.skip_worktree if hasattr(e, "skip_worktree") else bool(e.extended_flags & EXTENDED_FLAG_SKIP_WORKTREE)
    return {"name": bytes_to_runs(name), "stage": stage if fst == stage else 100 + fst, "ct": tm(e.ctime), "mt": tm(e.mtime),
            "dev": int_to_limbs(e.dev), "ino": int_to_limbs(e.ino), "mode": int_to_limbs(e.mode), "uid": int_to_limbs(e.uid),
            "gid": int_to_limbs(e.gid), "size": int_to_limbs(e.size),
            "sha": bytes_to_runs(bytes.fromhex(e.sha.decode())) if len(e.sha) == 40 else [[0, 0]],
            "valid": bool(e.flags & FLAG_VALID), "skip": skipbit, "ita": bool(e.extended_flags & EXTENDED_FLAG_INTEND_TO_ADD),
            "xbit": bool(e.flags & FLAG_EXTENDED)}


def dw_items_abs(items):
    from dulwich.index import ConflictedIndexEntry
    out = []
    for name, e in items:
        if isinstance(e, ConflictedIndexEntry):
            for st, m in ((1, e.ancestor), (2, e.this), (3, e.other)):
                if m is not None:
                    out.append(_abs_from_dw(name, st, m))
        else:
            out.append(_abs_from_dw(name, 0, e))
    return out


def dw_read(path, skip=False):
    """Index(path) -> (Index object, abstract entries in the order dulwich yields them)."""
    from dulwich.index import Index
    idx = Index(path, skip_hash=skip)
    return idx, dw_items_abs(idx.items())


def dw_read_stream(data: bytes):
    """read_index() (the iterator API other dulwich code uses) on the bytes."""
    import io

    from dulwich.index import read_index
    out = []
    for se in read_index(io.BytesIO(data)):
        out.append(_abs_from_dw(se.name, se.stage().value, se))
    return out


# --------------------------------------------------------------------------- C git drivers
class Git:
    def __init__(self, root):
        self.root = root
        self.home = os.path.join(root, "home")
        os.makedirs(self.home, exist_ok=True)
        self.env = {"PATH": os.environ.get("PATH", "/usr/bin:/bin"), "HOME": self.home, "GIT_CONFIG_NOSYSTEM": "1",
                    "GIT_CONFIG_GLOBAL": "/dev/null", "LC_ALL": "C", "GIT_AUTHOR_NAME": "v", "GIT_AUTHOR_EMAIL": "v@v",
                    "GIT_COMMITTER_NAME": "v", "GIT_COMMITTER_EMAIL": "v@v", "GIT_AUTHOR_DATE": "1700000000 +0000",
                    "GIT_COMMITTER_DATE": "1700000000 +0000", "GIT_TERMINAL_PROMPT": "0"}
        self.repo = os.path.join(root, "gitrepo")
        self.run(["git", "init", "-q", self.repo], cwd=root)

    def run(self, argv, cwd=None, index=None, stdin=None, check=True, env=None):
        e = dict(self.env)
        if index:
            e["GIT_INDEX_FILE"] = index
        if env:
            e.update(env)
        p = subprocess.run(argv, cwd=cwd or self.repo, env=e, input=stdin, stdout=subprocess.PIPE, stderr=subprocess.PIPE)
        if check and p.returncode != 0:
            raise RuntimeError(f"{' '.join(argv)} failed ({p.returncode}): {p.stderr.decode('utf-8', 'replace')[:500]}")
        return p

    _HDR = re.compile(rb"(\d+) ([0-9a-f]{40}) (\d)\t")
    _DBG = re.compile(rb"  ctime: (\d+):(\d+)\n  mtime: (\d+):(\d+)\n  dev: (\d+)\tino: (\d+)\n  uid: (\d+)\tgid: (\d+)\n"
                      rb"  size: (\d+)\tflags: ([0-9a-f]+)\n")

    def ls(self, index, cwd=None, sparse=False):
        """`git ls-files --stage --debug -z` on an index file -> (abstract entries | None, stderr)."""
        argv = ["git", "ls-files", "--stage", "--debug", "-z"] + (["--sparse"] if sparse else [])
        p = self.run(argv, cwd=cwd, index=index, check=False)
        if p.returncode != 0:
            return None, p.stderr.decode("utf-8", "replace").strip()
        out, pos, ents = p.stdout, 0, []
        while pos < len(out):
            m = self._HDR.match(out, pos)
            if not m:
                return None, f"unparseable ls-files output at {pos}: {out[pos:pos+80]!r}"
            nul = out.index(b"\0", m.end())
            name = out[m.end():nul]
            d = self._DBG.match(out, nul + 1)
            if not d:
                return None, f"unparseable debug block at {nul}: {out[nul:nul+120]!r}"
            g = [int(x) for x in d.groups()[:9]]
            fl = int(d.group(10), 16)
            ents.append({"name": bytes_to_runs(name), "stage": int(m.group(3)), "ct": pair_time(g[0], g[1]), "mt": pair_time(g[2], g[3]),
                         "dev": u32_limbs(g[4]), "ino": u32_limbs(g[5]), "mode": u32_limbs(int(m.group(1), 8)), "uid": u32_limbs(g[6]),
                         "gid": u32_limbs(g[7]), "size": u32_limbs(g[8]), "sha": bytes_to_runs(bytes.fromhex(m.group(2).decode())),
                         "valid": bool(fl & 0x8000), "skip": bool(fl & (1 << 30)), "ita": bool(fl & (1 << 29)), "xbit": bool(fl & 0x4000)})
            pos = d.end()
        return ents, p.stderr.decode("utf-8", "replace").strip()

    def build(self, index, v, entries):
        """Have git itself build an index holding (its own normalisation of) the given entries:
        update-index --index-version v --index-info, then assume-unchanged / skip-worktree bits.
        Returns None on success, else git's complaint."""
        if os.path.exists(index):
            os.unlink(index)
        lines = b""
        for e in entries:
            name = runs_to_bytes(e["name"])
            mode = limbs_to_int(e["mode"])
            lines += b"%o %s %d\t%s\0" % (mode, runs_to_bytes(e["sha"]).hex().encode(), e["stage"], name)
        p = self.run(["git", "update-index", "--index-version", str(v), "-z", "--index-info"], index=index, stdin=lines, check=False)
        if p.returncode != 0:
            return p.stderr.decode("utf-8", "replace").strip()
        for opt, key in (("--assume-unchanged", "valid"), ("--skip-worktree", "skip")):
            names = [runs_to_bytes(e["name"]) for e in entries if e[key] and e["stage"] == 0]
            if names:
                p = self.run(["git", "update-index", opt, "-z", "--stdin"], index=index, stdin=b"".join(n + b"\0" for n in names), check=False)
                if p.returncode != 0:
                    return p.stderr.decode("utf-8", "replace").strip()
        if not os.path.exists(index):
            return "git wrote no index"
        return None

    def fsck_index_ok(self, index, cwd=None):
        """True iff `git fsck` accepts the index checksum (missing blobs are not our concern)."""
        p = self.run(["git", "fsck", "--no-dangling", "--no-progress"], index=index, check=False, cwd=cwd)
        err = p.stderr.decode("utf-8", "replace")
        return not ("bad index file sha1 signature" in err or "index file corrupt" in err), err.strip()[:300]


# --------------------------------------------------------------------------- features / signatures
def v4_strips(names):
    """Strip counts of consecutive sorted names (dumb recomputation for classifying a case)."""
    out, prev = [], b""
    for n in names:
        c = 0
        for x, y in zip(prev, n):
            if x != y:
                break
            c += 1
        out.append(len(prev) - c)
        prev = n
    return out


def features(v, entries):
    """Canonical feature string of a case: which of the size classes that matter it touches."""
    names = sorted({runs_to_bytes(e["name"]) for e in entries})
    f = []
    if any(len(n) >= 0x1000 for n in names):
        f.append("name>=0x1000")
    if v >= 4 and any(s >= 128 for s in v4_strips(names)):
        f.append("v4strip>=128")
    if any(limbs_to_int(e["size"]) >= 2**32 for e in entries):
        f.append("size>=2^32")
    return " ".join(f)

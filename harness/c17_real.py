"""C17 adapter: abstract (op, tree) sequences of WorkTreeConf.tla -> real dulwich calls on a scratch
directory, and the projection of the real directory back to the abstract file system.

Layout of one case (everything lives under the case directory, which lives under ctx.scratch):

    <case>/u1/u2/u3/u4/top/            model root  <<>>          (u1..u4: head-room for '..' escapes)
    <case>/u1/u2/u3/u4/top/p/of        outside canary file   "A"
    <case>/u1/u2/u3/u4/top/p/od/x      outside canary dir with a file "A"
    <case>/u1/u2/u3/u4/top/p/od/e/x    nested canary
    <case>/u1/u2/u3/u4/top/p/ol        outside canary symlink -> of
    <case>/u1/u2/u3/u4/top/p/repo-x/f  sibling directory sharing the work tree's name prefix, file "A"
    <case>/u1/u2/u3/u4/top/p/repo      work tree W, with .git (canaries: config, hooks/, hooks/h)
    <case>/u1/u2/u3/u4/top/src.git     source of a clone (CL)

SAFETY: absolute entry names / link targets of the model start with the empty component; they are
rewritten to start with the absolute path of <top>, so an escape can only touch scratch files.
Nothing here ever uses a path outside <case>.

This module imports dulwich: it is only imported inside worker processes (after the Rust
extensions have been blocked, so the run is the same for /repo and for a scratch worktree)."""
from __future__ import annotations

import io
import os
import shutil
import stat
import sys

for _m in ("dulwich._pack", "dulwich._objects", "dulwich._diff_tree"):
    sys.modules.setdefault(_m, None)

from dulwich import porcelain  # noqa: E402
from dulwich.index import InvalidPathError  # noqa: E402
from dulwich.objects import Blob, Commit, Tree  # noqa: E402
from dulwich.repo import Repo  # noqa: E402

UP = ("u1", "u2", "u3", "u4")
CONTENT = {"A": b"A\n", "B": b"B\n"}
RCONTENT = {v: k for k, v in CONTENT.items()}
MODES = {"644": 0o100644, "755": 0o100755, "odd": 0o106777, "oddnx": 0o104666}
IDENT = b"C17 <c17@example.invalid>"
# files below .git that the operations legitimately write; everything else in .git is protected
GIT_LEGIT = ("index", "index.lock", "HEAD", "ORIG_HEAD", "refs", "logs", "objects", "packed-refs")


from .c17_lib import comp_bytes, comp_token  # noqa: E402


class Case:
    def __init__(self, root: str, prot: dict, clone_first: bool = False):
        self.root = root
        os.makedirs(root)
        d = root
        for u in UP:
            d = os.path.join(d, u)
        self.top = os.path.join(d, "top")
        os.makedirs(self.top)
        self.p = os.path.join(self.top, "p")
        os.mkdir(self.p)
        with open(os.path.join(self.p, "of"), "wb") as f:
            f.write(CONTENT["A"])
        os.makedirs(os.path.join(self.p, "od", "e"))
        for rel in ("od/x", "od/e/x"):
            with open(os.path.join(self.p, rel), "wb") as f:
                f.write(CONTENT["A"])
        os.symlink("of", os.path.join(self.p, "ol"))
        os.mkdir(os.path.join(self.p, "repo-x"))      # sibling whose name has the work tree's name as a prefix
        with open(os.path.join(self.p, "repo-x", "f"), "wb") as f:
            f.write(CONTENT["A"])
        self.W = os.path.join(self.p, "repo")
        self.prot = prot
        self.repo = None
        self.nstash = 0
        self.cfg0 = None
        self.stash_obj = None      # the long-lived Stash object of "STL"
        # the superproject of "SU" lives in <top>/p (its submodule is the work tree p/repo): its own files
        # are neither part of the model's file system nor of the protected snapshot
        self.skip = {os.path.join(os.fsencode(self.p), b".git"), os.path.join(os.fsencode(self.p), b".gitmodules"),
                     os.path.join(os.fsencode(self.top), b"src.git")}
        if not clone_first:
            self.repo = Repo.init(self.W, mkdir=True)
            self._post_init()

    # ------------------------------------------------------------------ set-up helpers
    def _post_init(self):
        """Settings and .git canaries (after init / after clone)."""
        r = self.repo
        c = r.get_config()
        c.set((b"core",), b"protectNTFS", b"true" if self.prot["ntfs"] else b"false")
        c.set((b"core",), b"protectHFS", b"true" if self.prot["hfs"] else b"false")
        c.set((b"user",), b"name", b"C17")
        c.set((b"user",), b"email", b"c17@example.invalid")
        c.write_to_path()
        hooks = os.path.join(r.controldir(), "hooks")
        shutil.rmtree(hooks, ignore_errors=True)
        os.mkdir(hooks)
        with open(os.path.join(hooks, "h"), "wb") as f:
            f.write(CONTENT["A"])
        with open(os.path.join(r.controldir(), "config"), "rb") as f:
            self.cfg0 = f.read()

    def close(self):
        self.stash_obj = None
        if self.repo is not None:
            self.repo.close()
            self.repo = None

    def reopen(self):
        self.repo = Repo(self.W)
        self.stash_obj = None

    # ------------------------------------------------------------------ abstract -> real objects
    def raw_name(self, comps) -> bytes:
        comps = list(comps)
        if len(comps) >= 2 and comps[0] == "":
            return os.fsencode(self.top) + b"/" + b"/".join(comp_bytes(c) for c in comps[1:])
        return b"/".join(comp_bytes(c) for c in comps)

    def add_tree(self, store, entries) -> bytes:
        """Low-level construction (raw names, no porcelain, no checks)."""
        t = Tree()
        for e in entries:
            name = self.raw_name(e["n"])
            k = e["k"]
            if k["t"] == "f":
                b = Blob.from_string(CONTENT[k["c"]])
                store.add_object(b)
                t.add(name, MODES[k["m"]], b.id)
            elif k["t"] == "l":
                b = Blob.from_string(self.raw_name(k["to"]))
                store.add_object(b)
                t.add(name, 0o120000, b.id)
            elif k["t"] == "d":
                t.add(name, 0o040000, self.add_tree(store, k["ch"]))
            elif k["t"] == "g":
                t.add(name, 0o160000, b"1" * 40)
            else:
                raise ValueError(k)
        store.add_object(t)
        return t.id

    def add_commit(self, store, tree_id, parents=()) -> bytes:
        c = Commit()
        c.tree = tree_id
        c.parents = list(parents)
        c.author = c.committer = IDENT
        c.author_time = c.commit_time = 1000000000
        c.author_timezone = c.commit_timezone = 0
        c.message = b"c17 " + tree_id
        store.add_object(c)
        return c.id

    def flat_files(self, entries, prefix=()):
        out = []
        for e in sorted(entries, key=lambda e: self.raw_name(e["n"])):
            k = e["k"]
            if k["t"] == "d":
                out += self.flat_files(k["ch"], tuple(prefix) if e["n"] == [""] else tuple(prefix) + tuple(e["n"]))
            elif k["t"] == "f":
                out.append((tuple(prefix) + tuple(e["n"]), k))
        return out

    def file_patch(self, path, k) -> bytes:
        """One file patch for the regular-file entry (path, k): if the path currently resolves to a
        regular file (through links; read only) a patch that replaces all its lines, else a
        'new file' patch."""
        name = self.raw_name(path)
        full = os.path.join(os.fsencode(self.W), name)
        old = None
        if os.path.isfile(full):
            with open(full, "rb") as f:
                data = f.read()
            if data.endswith(b"\n"):
                old = data.splitlines(keepends=True)
        if old is None:
            return (b"diff --git a/" + name + b" b/" + name + b"\nnew file mode %o\n" % MODES[k["m"]] +
                    b"--- /dev/null\n+++ b/" + name + b"\n@@ -0,0 +1 @@\n+" + CONTENT[k["c"]])
        cnt = b"1" if len(old) == 1 else b"1,%d" % len(old)
        return (b"diff --git a/" + name + b" b/" + name + b"\n--- a/" + name + b"\n+++ b/" + name +
                b"\n@@ -" + cnt + b" +1 @@\n" + b"".join(b"-" + ln for ln in old) + b"+" + CONTENT[k["c"]])

    # ------------------------------------------------------------------ operations
    def run(self, op: str, entries, mv=None):
        """Execute one abstract step; returns (outcome, exception text)."""
        try:
            if op == "MV":
                self.op_MV(mv)
            else:
                getattr(self, "op_" + op)(entries)
            return "ok", ""
        except InvalidPathError as e:
            return "refused", f"{type(e).__name__}: {e}"
        except Exception as e:  # noqa: BLE001 - outcome classes are part of the observation
            msg = str(e)
            if isinstance(e, (porcelain.Error, ValueError)) and (
                    msg.startswith("refusing to write") or "outside repository" in msg):
                return "refused", f"{type(e).__name__}: {e}"
            return "err", f"{type(e).__name__}: {e}"

    def op_CL(self, entries):
        assert self.repo is None
        src = Repo.init_bare(os.path.join(self.top, "src.git"), mkdir=True)
        try:
            cid = self.add_commit(src.object_store, self.add_tree(src.object_store, entries))
            src.refs[b"refs/heads/master"] = cid
            src.refs.set_symbolic_ref(b"HEAD", b"refs/heads/master")
        finally:
            src.close()
        try:
            r = porcelain.clone(src.path, self.W, errstream=io.BytesIO())
            r.close()
        finally:
            if os.path.isdir(os.path.join(self.W, ".git")):
                self.repo = Repo(self.W)

    def _commit_for(self, entries):
        st = self.repo.object_store
        return self.add_commit(st, self.add_tree(st, entries))

    def op_RI(self, entries):
        tid = self.add_tree(self.repo.object_store, entries)
        self.repo.get_worktree().reset_index(tid)

    def op_COF(self, entries):
        porcelain.checkout(self.repo, self._commit_for(entries), force=True)

    def op_CO(self, entries):
        porcelain.checkout(self.repo, self._commit_for(entries))

    def op_RH(self, entries):
        porcelain.reset(self.repo, "hard", self._commit_for(entries))

    def op_SU(self, entries):
        """First-time checkout of a submodule (path "repo" of a superproject in <top>/p) whose commit has
        the tree `entries`, through porcelain.submodule_update, under the superproject's settings."""
        assert self.repo is None
        src = Repo.init_bare(os.path.join(self.top, "src.git"), mkdir=True)
        try:
            cid = self.add_commit(src.object_store, self.add_tree(src.object_store, entries))
            src.refs[b"refs/heads/master"] = cid
            src.refs.set_symbolic_ref(b"HEAD", b"refs/heads/master")
        finally:
            src.close()
        sup = Repo.init(self.p)
        try:
            c = sup.get_config()
            c.set((b"core",), b"protectNTFS", b"true" if self.prot["ntfs"] else b"false")
            c.set((b"core",), b"protectHFS", b"true" if self.prot["hfs"] else b"false")
            c.write_to_path()
            gm = b'[submodule "repo"]\n\tpath = repo\n\turl = ' + os.fsencode(src.path) + b"\n"
            with open(os.path.join(self.p, ".gitmodules"), "wb") as f:
                f.write(gm)
            st = sup.object_store
            b = Blob.from_string(gm)
            st.add_object(b)
            t = Tree()
            t.add(b".gitmodules", 0o100644, b.id)
            t.add(b"repo", 0o160000, cid)
            st.add_object(t)
            sup.refs[b"refs/heads/master"] = self.add_commit(st, t.id)
            sup.refs.set_symbolic_ref(b"HEAD", b"refs/heads/master")
            # the clone inside submodule_update reports progress on the process's stderr (a default argument
            # bound at import time): silence file descriptor 2 for the duration of the call
            sys.stderr.flush()
            saved, null = os.dup(2), os.open(os.devnull, os.O_WRONLY)
            try:
                os.dup2(null, 2)
                porcelain.submodule_update(sup, init=True)
            finally:
                os.dup2(saved, 2)
                os.close(saved)
                os.close(null)
        finally:
            sup.close()
            if os.path.isfile(os.path.join(self.W, ".git")):
                self.repo = Repo(self.W)

    def op_STL(self, entries):
        from dulwich.stash import Stash
        if self.stash_obj is None:
            self.stash_obj = Stash.from_repo(self.repo)
        self.op_ST(entries, pop=lambda r: self.stash_obj.pop(0))

    def op_ST(self, entries, pop=porcelain.stash_pop):
        r = self.repo
        head = r.head()
        st = r.object_store
        self.nstash += 1
        c = Commit()
        c.tree = self.add_tree(st, entries)
        c.parents = [head]
        c.author = c.committer = IDENT
        c.author_time = c.commit_time = 1000000000 + self.nstash
        c.author_timezone = c.commit_timezone = 0
        c.message = b"WIP c17 %d" % self.nstash
        st.add_object(c)
        try:
            old = r.refs[b"refs/stash"]
        except KeyError:
            old = None
        r.refs.set_if_equals(b"refs/stash", old, c.id, committer=IDENT, timestamp=1000000000,
                             timezone=0, message=b"WIP")
        pop(r)

    def op_AP(self, entries):
        # one file patch per regular file, in tree order; apply_patches handles the files of one
        # patch one after the other (index written after each), so this is the same as one patch
        for path, k in self.flat_files(entries):
            porcelain.apply_patch(self.repo, io.BytesIO(self.file_patch(path, k)))

    def op_MV(self, mv):
        """One rename / copy patch (git format; the a/ b/ prefixes are what strip=1 removes), optionally
        with a hunk that replaces the source's lines by "B".  The source is only read here."""
        src, dst = self.raw_name(mv["src"]), self.raw_name(mv["dst"])
        word = b"rename" if mv["mode"] == "ren" else b"copy"
        out = (b"diff --git a/" + src + b" b/" + dst + b"\nsimilarity index %d%%\n" % (50 if mv["hunks"] else 100) +
               word + b" from a/" + src + b"\n" + word + b" to b/" + dst + b"\n")
        if mv["hunks"]:
            full = os.path.join(os.fsencode(self.W), src)
            data = None
            if os.path.isfile(full):
                with open(full, "rb") as f:
                    data = f.read()
            else:
                try:
                    idx = self.repo.open_index()
                    if src in idx:
                        data = self.repo.object_store[idx[src].sha].data
                except Exception:  # noqa: BLE001
                    data = None
            if not data or not data.endswith(b"\n"):
                data = CONTENT["A"]
            old = data.splitlines(keepends=True)
            cnt = b"1" if len(old) == 1 else b"1,%d" % len(old)
            out += (b"--- a/" + src + b"\n+++ b/" + dst + b"\n@@ -" + cnt + b" +1 @@\n" +
                    b"".join(b"-" + ln for ln in old) + b"+" + CONTENT["B"])
        porcelain.apply_patch(self.repo, io.BytesIO(out))

    def op_RM(self, entries):
        porcelain.reset(self.repo, "mixed", self._commit_for(entries))

    # ------------------------------------------------------------------ observation
    def link_comps(self, target: bytes):
        top = os.fsencode(self.top)
        if target.startswith(top + b"/"):
            return [""] + [comp_token(c) for c in target[len(top) + 1:].split(b"/")]
        return [comp_token(c) for c in target.split(b"/")]

    def project(self):
        """Abstract file system: {path tuple from <top> -> node}. Below .git only the canaries."""
        out = {}
        topb = os.fsencode(self.top)
        gitdir = os.path.join(os.fsencode(self.W), b".git")

        def walk(d, path):
            for name in sorted(os.listdir(d)):
                full = os.path.join(d, name)
                if full in self.skip:
                    continue
                pth = path + (comp_token(name),)
                st = os.lstat(full)
                if full == gitdir and stat.S_ISREG(st.st_mode) and self.repo is not None:
                    # the work tree of a submodule: its control directory is the one the .git file names
                    out[pth] = {"t": "d"}
                    walk_git(os.fsencode(self.repo.controldir()), pth)
                    continue
                if stat.S_ISLNK(st.st_mode):
                    out[pth] = {"t": "l", "to": self.link_comps(os.readlink(full))}
                elif stat.S_ISDIR(st.st_mode):
                    out[pth] = {"t": "d"}
                    if full == gitdir:
                        walk_git(full, pth)
                    else:
                        walk(full, pth)
                else:
                    with open(full, "rb") as f:
                        data = f.read()
                    perm = stat.S_IMODE(st.st_mode)
                    cls = ("M" if data.startswith(b"gitdir: ") else "G" if data == self.cfg0 else
                           RCONTENT.get(data, "?" + data[:16].hex()))
                    out[pth] = {"t": "f", "c": cls, "x": bool(perm & 0o100)}
                    if perm not in (0o644, 0o755):
                        out[pth]["perm"] = oct(perm)

        def walk_git(d, path):
            # the canaries (config, hooks/) and anything that is not part of a repository's own files
            for name in sorted(os.listdir(d)):
                if os.fsdecode(name) in GIT_LEGIT or name in (b"branches", b"description", b"info"):
                    continue
                full = os.path.join(d, name)
                pth = path + (comp_token(name),)
                st = os.lstat(full)
                if name == b"config" and stat.S_ISREG(st.st_mode):
                    with open(full, "rb") as f:
                        data = f.read()
                    out[pth] = {"t": "f", "c": "G" if data == self.cfg0 else "?" + data[:16].hex(),
                                "x": bool(st.st_mode & 0o100)}
                elif stat.S_ISDIR(st.st_mode):
                    out[pth] = {"t": "d"}
                    walk(full, pth)
                elif stat.S_ISLNK(st.st_mode):
                    out[pth] = {"t": "l", "to": self.link_comps(os.readlink(full))}
                else:
                    with open(full, "rb") as f:
                        data = f.read()
                    out[pth] = {"t": "f", "c": RCONTENT.get(data, "?" + data[:16].hex()), "x": bool(st.st_mode & 0o100)}

        walk(topb, ())
        return out

    STAMP = 946684800 * 10**9      # 2000-01-01: protected files get this mtime before an operation

    def protected(self, include_config=True, stamp=False):
        """Everything under <case> except the work tree proper and the files below .git that the
        operations legitimately write: {relative path -> (type, perm, content|target, ino, mtime)}."""
        snap = {}
        rootb = os.fsencode(self.root)
        Wb = os.fsencode(self.W)
        gitdir = os.path.join(Wb, b".git")
        srcb = os.path.join(os.fsencode(self.top), b"src.git")

        def rec(d, in_git):
            try:
                names = sorted(os.listdir(d))
            except OSError as e:
                snap[os.path.relpath(d, rootb)] = ("unlistable", type(e).__name__)
                return
            for name in names:
                full = os.path.join(d, name)
                if d == Wb and name != b".git":
                    continue            # the work tree proper
                if in_git and d == gitdir and (os.fsdecode(name) in GIT_LEGIT
                                               or (name == b"config" and not include_config)):
                    continue
                if full == srcb or full in self.skip:
                    continue
                st = os.lstat(full)
                rel = os.path.relpath(full, rootb).decode("utf-8", "backslashreplace")
                if stat.S_ISLNK(st.st_mode):
                    snap[rel] = ("l", os.readlink(full).decode("utf-8", "backslashreplace"), st.st_ino)
                elif stat.S_ISDIR(st.st_mode):
                    snap[rel] = ("d", stat.S_IMODE(st.st_mode))
                    rec(full, in_git or full == gitdir)
                else:
                    with open(full, "rb") as f:
                        data = f.read()
                    mt = st.st_mtime_ns
                    if stamp and mt != self.STAMP:
                        # the clock of tmpfs is coarse: a rewrite with identical content within the same
                        # tick would keep the mtime; an old, fixed mtime makes every write visible
                        os.utime(full, ns=(self.STAMP, self.STAMP))
                        mt = self.STAMP
                    snap[rel] = ("f", stat.S_IMODE(st.st_mode), data.hex() if len(data) < 64 else hash(data),
                                 st.st_ino, mt)

        rec(rootb, False)
        return snap

    def index_paths(self):
        """path tuple -> abstract blob kind as recorded in the index (None if unreadable)."""
        try:
            idx = self.repo.open_index()
        except Exception:  # noqa: BLE001
            return None
        out = {}
        st = self.repo.object_store
        for path in idx:
            e = idx[path]
            comps = tuple(self.link_comps(path))       # an absolute name is reported relative to <top>
            try:
                data = st[e.sha].data
            except Exception:  # noqa: BLE001
                data = None
            if stat.S_ISLNK(e.mode) and e.sha == b"1" * 40:
                out[comps] = {"t": "gl"}
            elif stat.S_ISLNK(e.mode):
                out[comps] = {"t": "l", "to": self.link_comps(data or b"?")}
            elif e.mode == 0o160000:
                out[comps] = {"t": "g"}
            elif e.mode == 0o040000:
                out[comps] = {"t": "gd"}
            else:
                out[comps] = {"t": "f", "c": RCONTENT.get(data, "?"), "x": bool(e.mode & 0o100)}
        return out

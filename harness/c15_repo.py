"""C15 repository-level equivalence: a handful of end-to-end operations executed once with the
Rust extensions and once with pure Python (one child interpreter each, see c15_child.py); only
*observable results* are returned (object ids, change lists, contents read back, lookup answers) --
pack bytes may legitimately differ (the two delta encoders differ) and are reported as "info".

step 1 (job["step"] == 1): everything that needs no foreign input; also writes <dir>/<mode>.pack
step 2: reads the packs written by BOTH modes in step 1 and the pack made by C git (if any).
"""
from __future__ import annotations

import hashlib
import os
import random


def _sha1(b):
    return hashlib.sha1(b).hexdigest()


def _ent(e):
    if e is None:
        return None
    return [e.path.decode("latin-1") if e.path is not None else None, e.mode, e.sha.decode() if e.sha is not None else None]


def _text(rng, nlines, vocab):
    return b"".join(rng.choice(vocab) for _ in range(nlines))


def make_worlds(seed, rounds):
    """Deterministic file sets: v1 -> v2 with exact renames, renames with edits, copies, deletions,
    additions, mode changes, file <-> directory swaps, names that are prefixes of one another."""
    rng = random.Random(seed)
    vocab = [b"line %d of the vocabulary\n" % i for i in range(40)] + [b"\n", b"x" * 70 + b"\n", b"short\n"]
    worlds = []
    for r in range(rounds):
        v1 = {}
        names = [b"a", b"a.b", b"a-", b"a0", b"ab", b"b", b"README", b"src/main.c", b"src/util.c", b"src/lib/x.c", b"doc/a",
                 b"doc/a.txt", b"z"]
        rng.shuffle(names)
        for n in names[: rng.randrange(4, len(names) + 1)]:
            if any(o.startswith(n + b"/") or n.startswith(o + b"/") for o in v1):
                continue
            v1[n] = (_text(rng, rng.randrange(1, 40), vocab), rng.choice((0o100644, 0o100644, 0o100755)))
        v2 = dict(v1)
        keys = sorted(v1)
        for k in keys:
            x = rng.random()
            c, m = v1[k]
            if x < 0.15:                                   # exact rename
                del v2[k]
                v2[b"moved/" + k.replace(b"/", b"_")] = (c, m)
            elif x < 0.35:                                 # rename with a small edit
                del v2[k]
                lines = c.splitlines(True)
                lines[rng.randrange(len(lines))] = b"edited line\n"
                v2[k + b".renamed"] = (b"".join(lines), m)
            elif x < 0.45:                                 # copy
                v2[b"copy_of_" + k.replace(b"/", b"_")] = (c, m)
            elif x < 0.55:
                del v2[k]
            elif x < 0.65:                                 # rewrite
                v2[k] = (_text(rng, rng.randrange(1, 30), vocab), m)
            elif x < 0.72:
                v2[k] = (c, 0o100755 if m == 0o100644 else 0o100644)
            elif x < 0.78 and b"/" not in k:               # file -> directory
                del v2[k]
                v2[k + b"/inner"] = (c, m)
        v2[b"new%d" % r] = (_text(rng, 5, vocab), 0o100644)
        if rng.random() < 0.5:
            v2[b"link"] = (b"a", 0o120000)
        worlds.append((v1, v2))
    return worlds


def diff_scenarios(res, worlds):
    from dulwich.diff_tree import RenameDetector, tree_changes
    from dulwich.index import commit_tree
    from dulwich.object_store import MemoryObjectStore, iter_tree_contents
    from dulwich.objects import Blob, Tree
    out = []
    objs = []
    for v1, v2 in worlds:
        store = MemoryObjectStore()
        ids = []
        for v in (v1, v2):
            ents = []
            for path, (content, mode) in v.items():
                b = Blob.from_string(content)
                store.add_object(b)
                objs.append(b)
                ents.append((path, b.id, mode))
            ids.append(commit_tree(store, ents))
        t1, t2 = ids
        r = {"trees": [t1.decode(), t2.decode()]}
        r["flat"] = [[_ent(e) for e in iter_tree_contents(store, t, include_trees=True)] for t in ids]
        for name, kw in (("plain", {}), ("trees", {"include_trees": True}), ("same", {"change_type_same": True}),
                         ("unchanged", {"want_unchanged": True})):
            r["changes_" + name] = [[c.type, _ent(c.old), _ent(c.new)] for c in tree_changes(store, t1, t2, **kw)]
        for name, kw in (("default", {}), ("harder", {"find_copies_harder": True}), ("t30", {"rename_threshold": 30}),
                         ("rw", {"rewrite_threshold": 50}), ("t100", {"rename_threshold": 100})):
            det = RenameDetector(store, **kw)
            r["renames_" + name] = [[c.type, _ent(c.old), _ent(c.new)] for c in det.changes_with_renames(t1, t2)]
            r["renames_rev_" + name] = [[c.type, _ent(c.old), _ent(c.new)] for c in det.changes_with_renames(t2, t1, include_trees=True)]
        # trees re-parsed from their serialisation (parse_tree, sorted_tree_items, check)
        for t in ids:
            for o in [store[t]] + [store[e.sha] for e in iter_tree_contents(store, t, include_trees=True) if e.mode == 0o40000]:
                tr = Tree.from_string(o.as_raw_string())
                tr.check()
                objs.append(tr)
                r.setdefault("reparsed", []).append([tr.id.decode(), [[n.decode("latin-1"), m, s.decode()] for n, m, s in tr.iteritems()],
                                                     [[n.decode("latin-1"), m, s.decode()] for n, m, s in tr.iteritems(name_order=True)]])
        out.append(r)
    res["diff"] = out
    return objs


def pack_write(res, objs, basename):
    from dulwich.object_format import DEFAULT_OBJECT_FORMAT
    from dulwich.pack import write_pack
    uniq = {}
    for o in objs:
        uniq[o.id] = o
    seq = [(uniq[k], None) for k in sorted(uniq)]
    write_pack(basename, seq, DEFAULT_OBJECT_FORMAT, deltify=True, delta_window_size=10)
    res["pack_written"] = {"objects": len(seq)}
    res.setdefault("info", {})["own_pack_size"] = os.path.getsize(basename + ".pack")
    return {k.decode(): [uniq[k].type_num, _sha1(uniq[k].as_raw_string())] for k in uniq}


def pack_read(basename, probes_seed):
    """Everything observable about one pack: every object read back (type, content hash), whether
    it is stored as a delta is *not* included; index lookups by bisection for present and absent ids."""
    from dulwich.object_format import DEFAULT_OBJECT_FORMAT
    from dulwich.pack import Pack
    rng = random.Random(probes_seed)
    p = Pack(basename, object_format=DEFAULT_OBJECT_FORMAT)
    out = {"objects": {}, "lookups": [], "prefix": []}
    try:
        shas = sorted(p.index)
        for sha in shas:
            try:
                t, chunks = p.get_raw(sha)
                out["objects"][sha.decode()] = [t, _sha1(chunks if isinstance(chunks, bytes) else b"".join(chunks))]
            except (KeyboardInterrupt, SystemExit):
                raise
            except BaseException as e:  # noqa: BLE001
                out["objects"][sha.decode()] = ["failed", type(e).__name__]
        idx = p.index
        raw = [bytes.fromhex(s.decode()) for s in shas]
        probes = list(raw)
        for s in raw[:200]:
            probes.append(s[:-1] + bytes([(s[-1] + 1) % 256]))
            probes.append(bytes([(s[0] + 1) % 256]) + s[1:])
        probes += [bytes([b]) * 20 for b in (0, 1, 127, 128, 254, 255)]
        probes += [rng.randbytes(20) for _ in range(300)]
        for s in probes:
            try:
                out["lookups"].append([s.hex(), idx.object_offset(s)])
            except KeyError:
                out["lookups"].append([s.hex(), None])
            except BaseException as e:  # noqa: BLE001
                out["lookups"].append([s.hex(), "fail"])
        for s in raw[:50]:
            out["prefix"].append([s[:2].hex(), sorted(x.hex() for x in idx.iter_prefix(s[:2]))])
        try:
            p.check()
            out["check"] = "ok"
        except BaseException as e:  # noqa: BLE001
            out["check"] = "fail"
        out["n_delta_info"] = sum(1 for u in p.data.iter_unpacked(include_comp=False) if u.pack_type_num in (6, 7))
    finally:
        p.close()
    return out


def disk_repo(res, d, worlds):
    """Two commits in an on-disk repository, repack, read everything back."""
    from dulwich.diff_tree import RenameDetector
    from dulwich.repo import Repo
    path = os.path.join(d, "repo")
    os.makedirs(path)
    repo = Repo.init(path)
    out = {"commits": []}
    try:
        wt = repo.get_worktree()
        prev = set()
        for k, (v1, v2) in enumerate(worlds[:2]):
            for step, v in enumerate((v1, v2)):
                for pth in prev - set(v):
                    full = os.path.join(path, pth.decode())
                    if os.path.lexists(full):
                        os.remove(full)
                # remove files that became directories / directories that became files
                for pth in sorted(v):
                    full = os.path.join(path, pth.decode())
                    parent = os.path.dirname(full)
                    cur = path
                    for comp in os.path.relpath(parent, path).split(os.sep):
                        if comp == ".":
                            continue
                        cur = os.path.join(cur, comp)
                        if os.path.isfile(cur) or os.path.islink(cur):
                            os.remove(cur)
                    os.makedirs(parent, exist_ok=True)
                    if os.path.isdir(full) and not os.path.islink(full):
                        import shutil
                        shutil.rmtree(full)
                    if os.path.lexists(full):
                        os.remove(full)
                    content, mode = v[pth]
                    if mode == 0o120000:
                        os.symlink(content.decode(), full)
                    else:
                        with open(full, "wb") as f:
                            f.write(content)
                        os.chmod(full, 0o755 if mode == 0o100755 else 0o644)
                gone = [p_ for p_ in prev - set(v)]
                wt.stage([p_.decode() for p_ in sorted(set(v) | set(gone))])
                cid = wt.commit(message=b"commit %d.%d" % (k, step), committer=b"C <c@example.com>", author=b"A <a@example.com>",
                                commit_timestamp=1700000000 + 10 * k + step, commit_timezone=0,
                                author_timestamp=1700000000 + 10 * k + step, author_timezone=0)
                out["commits"].append(cid.decode())
                prev = set(v)
        out["head_tree"] = repo[repo.head()].tree.decode()
        walk = [e.commit.id.decode() for e in repo.get_walker()]
        out["walk"] = walk
        det = RenameDetector(repo.object_store)
        ids = [bytes(c, "ascii") for c in out["commits"]]
        out["history_changes"] = [[[c.type, _ent(c.old), _ent(c.new)] for c in det.changes_with_renames(repo[a].tree, repo[b].tree)]
                                  for a, b in zip(ids, ids[1:])]
        before = {sha.decode(): [repo.object_store[sha].type_num, _sha1(repo.object_store[sha].as_raw_string())] for sha in repo.object_store}
        repo.object_store.pack_loose_objects()
        after = {sha.decode(): [repo.object_store[sha].type_num, _sha1(repo.object_store[sha].as_raw_string())] for sha in repo.object_store}
        out["objects_before_repack"] = before
        out["objects_after_repack"] = after
        out["packs"] = len(repo.object_store.packs)
    finally:
        repo.close()
    res["disk_repo"] = out


def _section(res, name, fn):
    """A failing operation is an observation of this mode, not the end of the scenario."""
    try:
        return fn()
    except (KeyboardInterrupt, SystemExit):
        raise
    except BaseException as e:  # noqa: BLE001
        res[name] = {"failed": f"{type(e).__name__}: {str(e)[:200]}"}
        return None


def scenario(job):
    res = {"info": {}}
    d = job["dir"]
    mode = job["mode"]
    if job["step"] == 1:
        worlds = make_worlds(job["seed"], job["rounds"])
        objs = _section(res, "diff", lambda: diff_scenarios(res, worlds)) or []

        def wr():
            res["pack_objects"] = pack_write(res, objs, os.path.join(d, mode))
        _section(res, "pack_written", wr)
        own = os.path.join(d, "own-" + mode)
        os.makedirs(own)
        _section(res, "disk_repo", lambda: disk_repo(res, own, worlds))
    else:
        for name in job["packs"]:
            def rd(name=name):
                r = pack_read(os.path.join(d, name), job["seed"])
                res["info"][f"read:{name}"] = r.pop("n_delta_info")
                res[f"read:{name}"] = r
            _section(res, f"read:{name}", rd)
    return res

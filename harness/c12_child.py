"""C12 child: executes TLC-enumerated cases (and randomly generated trace cases) on the real
dulwich code.  Runs in its own interpreter so that the Rust extensions are either loaded
from the freshly built artefacts (mode "rs") or blocked (mode "py"); see harness/rustext.py.

Nothing in here decides what is *expected*: expectations come from TLC (TreeDiffGen) or the
recorded results go back to TLC (TreeDiffTrace).  The only independent computations are
projections: SHA-1 over the spec's nested tree (trusted hashlib), a raw tree-object parser,
and list <-> per-path-map conversions.
"""
from __future__ import annotations

import hashlib
import json
import sys

MODE = {"F": 0o100644, "X": 0o100755, "L": 0o120000, "G": 0o160000, "T": 0o040000}
LETTER = {v: k for k, v in MODE.items()}
MODEOCT = {k: b"%o" % v for k, v in MODE.items()}
BLOBS = {c: (c + "\n").encode() * 3 + hashlib.sha1(c.encode()).hexdigest().encode() + b"\n" for c in "xyzw"}
BLOBS["u"] = BLOBS["x"] + b"one more line\n"     # an edited copy of x: similar above RENAME_THRESHOLD, unrelated to the others
FLAGS = [(wu, it, cts) for wu in (False, True) for it in (False, True) for cts in (False, True)]
FLAGKEY = ["".join("1" if b else "0" for b in f) for f in FLAGS]
EMPTY_TREE = "4b825dc642cb6eb9a060e54bf8d69288fbee4904"


def blob_id(c):
    d = BLOBS[c]
    return hashlib.sha1(b"blob %d\0" % len(d) + d).hexdigest()


def link_id(c):
    return hashlib.sha1(b"gitlink " + c.encode()).hexdigest()


def real_id(mode, c):
    """the object id used in the real trees for spec id c under mode letter mode"""
    return link_id(c) if mode == "G" else blob_id(c)


IDLETTER = {}
for _c in BLOBS:
    IDLETTER[blob_id(_c)] = _c
    IDLETTER[link_id(_c)] = _c


def pbytes(path):
    return b"/".join(bytes(n) for n in path)


def pnames(b):
    return [list(n) for n in b.split(b"/")] if b else []


# --------------------------------------------------------------------------- projections
def tree_hash(nodes, sink=None):
    """SHA-1 of the tree object whose entries are `nodes` ([[name, mode, id, sub], ...]) in the
    given order.  sink: dict sha -> mktree input record (for the C git cross-check)."""
    data = []
    lines = []
    for name, mode, oid, sub in nodes:
        if mode == "T":
            h = tree_hash(sub, sink)
            typ = "tree"
        else:
            h = real_id(mode, oid)
            typ = "commit" if mode == "G" else "blob"
        data.append(MODEOCT[mode] + b" " + bytes(name) + b"\0" + bytes.fromhex(h))
        if sink is not None:
            lines.append(b"%06o %s %s\t%s\0" % (MODE[mode], typ.encode(), h.encode(), bytes(name)))
    body = b"".join(data)
    sha = hashlib.sha1(b"tree %d\0" % len(body) + body).hexdigest()
    if sink is not None and sha not in sink:
        sink[sha] = b"".join(lines)
    return sha


def tree_ids(nodes, pre=b"", out=None, sink=None):
    """path -> expected tree id for every directory of the nested tree (b'' = root)"""
    if out is None:
        out = {}
    out[pre] = tree_hash(nodes, sink)
    for name, mode, oid, sub in nodes:
        if mode == "T":
            tree_ids(sub, (pre + b"/" if pre else b"") + bytes(name), out, None)
    return out


def parse_raw_tree(store, sha):
    """independent reader of a stored tree object -> nested nodes as the spec writes them"""
    typ, raw = store.get_raw(sha)
    if typ != 2:
        raise ValueError(f"{sha!r} is not a tree")
    out = []
    i = 0
    while i < len(raw):
        sp = raw.index(b" ", i)
        nul = raw.index(b"\0", sp)
        mode = int(raw[i:sp], 8)
        name = raw[sp + 1:nul]
        h = raw[nul + 1:nul + 21].hex()
        i = nul + 21
        m = LETTER.get(mode, oct(mode))
        if m == "T":
            out.append([list(name), "T", "", parse_raw_tree(store, h.encode())])
        else:
            out.append([list(name), m, IDLETTER.get(h, h), []])
    return out


def ent_tuple(e, treeids=None):
    """spec JSON entry [path, mode, id] -> comparable tuple (pathbytes, mode, id|tree sha)"""
    if not e:
        return None
    path, mode, oid = e
    pb = pbytes(path)
    if mode == "T":
        return (pb, "T", treeids.get(pb, "?") if treeids is not None else "")
    return (pb, mode, oid)


def real_ent(e):
    if e is None:
        return None
    m = LETTER.get(e.mode, oct(e.mode))
    sha = e.sha.decode()
    return (e.path, m, sha if m == "T" else IDLETTER.get(sha, sha))


def exp_changes(seq, ida, idb):
    return [(t, ent_tuple(o, ida), ent_tuple(n, idb)) for t, o, n in seq]


def real_changes(cs):
    return [(c.type, real_ent(c.old), real_ent(c.new)) for c in cs]


def per_path(changes):
    """canonical form of a change list: path -> (set of old entries, set of new entries);
    'unchanged' kept apart so that it never cancels a missing change"""
    m = {}
    for t, o, n in changes:
        if t == "unchanged":
            m.setdefault((o or n)[0], [set(), set(), set()])[2].add((o, n))
            continue
        if t in ("rename", "copy"):
            m.setdefault(n[0], [set(), set(), set()])[1].add((t, o, n))
            if t == "rename":
                m.setdefault(o[0], [set(), set(), set()])[0].add(o)
            continue
        if o is not None:
            m.setdefault(o[0], [set(), set(), set()])[0].add(o)
        if n is not None:
            m.setdefault(n[0], [set(), set(), set()])[1].add(n)
    return m


def once(changes, cts):
    olds = [o[0] for t, o, n in changes if o is not None and t != "copy"]
    news = [n[0] for t, o, n in changes if n is not None]
    if len(olds) != len(set(olds)) or len(news) != len(set(news)):
        return False
    if cts:
        ps = [(n or o)[0] for t, o, n in changes]
        return len(ps) == len(set(ps))
    return True


def apply_changes(changes, A):
    """Apply of the spec on file entries (tuples)"""
    L = set(A)
    rem = {o for t, o, n in changes if t in ("delete", "modify", "rename") and o is not None and o[1] != "T"}
    add = {n for t, o, n in changes if t in ("add", "modify", "rename", "copy") and n is not None and n[1] != "T"}
    return rem <= L, (L - rem) | add


def show_entry(e):
    return "-" if e is None else f"{e[0].decode('latin-1')}:{e[1]}{e[2] if e[1] != 'T' else ''}"


def show_listing(L):
    return "{" + ",".join(f"{pbytes(p).decode('latin-1')}:{m}{i}" for p, m, i in L) + "}"


def kinds(L):
    k = {}
    for p, m, i in L:
        pb = pbytes(p)
        k[pb] = (m, i)
        parts = pb.split(b"/")
        for j in range(1, len(parts)):
            k[b"/".join(parts[:j])] = "T"
    return k


def kind_at(L, pb):
    x = kinds(L).get(pb)
    return "-" if x is None else "T" if x == "T" else "B"


def cl_shape(A, cl):
    """what a change list does to the tree it is applied to: set/del at a missing path (-), a file (B), a directory (T)"""
    return ",".join(sorted({("del@" if m == "-" else "set@") + kind_at(A, pbytes(p)) for p, m, i in cl}))


def features(A, B):
    """coarse description of what differs between two listings (for grouping failures)"""
    ka, kb = kinds(A), kinds(B)
    out = set()
    for p in set(ka) | set(kb):
        x, y = ka.get(p), kb.get(p)
        if x == y:
            continue
        sx = "-" if x is None else "T" if x == "T" else "B"
        sy = "-" if y is None else "T" if y == "T" else "B"
        if sx == "B" and sy == "B":
            fx = "R" if x[0] in "FX" else x[0]
            fy = "R" if y[0] in "FX" else y[0]
            out.add("B>B:" + ("type" if fx != fy else "mode" if x[0] != y[0] else "id"))
        elif sx == "T" and sy == "T":
            continue
        else:
            out.add(f"{sx}>{sy}")
    return ",".join(sorted(out))


# --------------------------------------------------------------------------- the real code
class Real:
    def __init__(self):
        from dulwich.object_store import MemoryObjectStore
        from dulwich.objects import Blob
        self.store = MemoryObjectStore()
        for c, d in BLOBS.items():
            b = Blob.from_string(d)
            assert b.id.decode() == blob_id(c)
            self.store.add_object(b)
        self.loads = 0
        self._cache = {}

    def entries(self, L):
        return [(pbytes(p), real_id(m, i).encode(), MODE[m]) for p, m, i in L]

    def build(self, L, order=0):
        from dulwich.index import commit_tree
        ents = self.entries(L)
        if order == 1:
            ents = ents[::-1]
        elif order == 2:
            ents = sorted(ents)
        return commit_tree(self.store, ents)

    def build_cached(self, L):
        k = json.dumps(L)
        r = self._cache.get(k)
        if r is None:
            r = self._cache[k] = self.build(L)
        return r

    def flat(self, tid, include_trees=False):
        from dulwich.object_store import iter_tree_contents
        return [real_ent(e) for e in iter_tree_contents(self.store, tid, include_trees=include_trees)]

    def diff(self, ta, tb, fl, paths=None):
        from dulwich.diff_tree import tree_changes
        wu, it, cts = fl
        return real_changes(tree_changes(self.store, ta, tb, want_unchanged=wu, include_trees=it,
                                         change_type_same=cts, paths=paths))

    def diff_loads(self, ta, tb, wu):
        """number of tree objects tree_changes fetches from the store"""
        from dulwich.diff_tree import tree_changes
        st = self.store
        n = [0]

        class Counting:
            def __getitem__(s, k):
                n[0] += 1
                return st[k]

            def __getattr__(s, k):
                return getattr(st, k)
        list(tree_changes(Counting(), ta, tb, want_unchanged=wu))
        return n[0]

    def renames(self, ta, tb):
        from dulwich.diff_tree import RenameDetector
        return real_changes(RenameDetector(self.store).changes_with_renames(ta, tb))

    def patch(self, ta, cl):
        from dulwich.object_store import commit_tree_changes
        changes = [(pbytes(p), None, None) if m == "-" else (pbytes(p), MODE[m], real_id(m, i).encode()) for p, m, i in cl]
        return commit_tree_changes(self.store, ta, changes)

    def lookup(self, tid, path):
        from dulwich.object_store import tree_lookup_path
        mode, sha = tree_lookup_path(self.store.__getitem__, tid, path)
        m = LETTER.get(mode, oct(mode))
        return (m, sha.decode() if m == "T" else IDLETTER.get(sha.decode(), sha.decode()))


class Collector:
    """failures grouped by (site, clause, features); the minimal case of each group is kept"""

    def __init__(self, mode):
        self.mode = mode
        self.groups = {}
        self.drift = {}
        self.n = 0
        self.nontrivial = 0

    def fail(self, site, clause, feat, size, case_txt, detail, raw, AB=((), ())):
        k = (site, clause, feat)
        g = self.groups.get(k)
        key = (size, len(case_txt), case_txt)
        if g is None:
            self.groups[k] = {"site": site, "clause": clause, "features": feat, "count": 1, "key": key,
                              "case": case_txt, "detail": detail, "raw": raw, "mode": self.mode, "AB": AB}
        else:
            g["count"] += 1
            if key < tuple(g["key"]):
                g.update(key=key, case=case_txt, detail=detail, raw=raw, AB=AB)

    def drifted(self, what, case_txt, detail):
        d = self.drift.setdefault(what, {"what": what, "count": 0, "case": case_txt, "detail": detail})
        d["count"] += 1

    def dump(self):
        return {"mode": self.mode, "n": self.n, "nontrivial": self.nontrivial,
                "groups": [dict(g, key=list(g["key"])) for g in self.groups.values()],
                "drift": list(self.drift.values())}


def call(fn, *a, **kw):
    try:
        return fn(*a, **kw), None
    except Exception as e:  # the property is about results; an exception is a result too
        return None, f"{type(e).__name__}"


# --------------------------------------------------------------------------- spec -> code replay
def run_build_case(R, col, c, sink=None, verbose=False):
    L = c["L"]
    exp_ids = tree_ids(c["tree"], sink=sink)
    exp_root = exp_ids[b""]
    txt = show_listing(L)
    size = len(L)
    col.n += 1
    if len(L) >= 2:
        col.nontrivial += 1
    raw = {"kind": "build", "case": c}
    for order in (0, 1, 2):
        tid, exc = call(R.build, L, order)
        if verbose:
            print(f"  commit_tree(order={order}) -> {tid!r} {exc or ''} expected {exp_root}")
        if exc:
            col.fail("dulwich/index.py:commit_tree", f"raised:{exc}", "", size, txt, {"order": order}, raw)
            return
        if tid.decode() != exp_root:
            real, exc = call(parse_raw_tree, R.store, tid)
            flat_ok = real is not None and sorted(_flatten(real)) == sorted((pbytes(p), m, i) for p, m, i in L)
            clause = "tree-id:order" if flat_ok else "tree-id:content"
            col.fail("dulwich/index.py:commit_tree", clause, "", size, txt,
                     {"order": order, "real_tree": real, "real_id": tid.decode(), "expected_id": exp_root}, raw)
            return
    # flatten
    for it, key in ((False, "iter"), (True, "itert")):
        exp = [ent_tuple(e, exp_ids) for e in c[key]]
        real, exc = call(R.flat, tid, it)
        if verbose:
            print(f"  iter_tree_contents(include_trees={it}) -> {real} {exc or ''}")
        if exc:
            col.fail("dulwich/object_store.py:iter_tree_contents", f"raised:{exc}", "", size, txt, {"include_trees": it}, raw)
        elif real != exp:
            if sorted(real) != sorted(exp):
                col.fail("dulwich/object_store.py:iter_tree_contents", "flatten" + (":trees" if it else ""), "", size, txt,
                         {"real": real, "expected": exp}, raw)
            else:
                col.drifted("iter_tree_contents order", txt, {"real": real, "expected": exp})
    # lookup of every path and directory
    for e in c["itert"]:
        pb = pbytes(e[0])
        if not pb:
            continue
        exp = ("T", exp_ids[pb]) if e[1] == "T" else (e[1], e[2])
        real, exc = call(R.lookup, tid, pb)
        if exc or real != exp:
            col.fail("dulwich/object_store.py:tree_lookup_path", "lookup", "", size, txt,
                     {"path": pb.decode("latin-1"), "real": real, "exc": exc, "expected": exp}, raw)
            break


def _flatten(nodes, pre=b""):
    for name, mode, oid, sub in nodes:
        p = (pre + b"/" if pre else b"") + bytes(name)
        if mode == "T":
            yield from _flatten(sub, p)
        else:
            yield (p, mode, oid)


def run_diff_case(R, col, c, filters, gitout=None, traces=None, verbose=False):
    A, B = c["A"], c["B"]
    ida, idb = tree_ids(c["ta"]), tree_ids(c["tb"])
    txt = f"A={show_listing(A)} B={show_listing(B)}"
    size = len(A) + len(B)
    feat = features(A, B)
    raw = {"kind": "diff", "case": c, "filters": filters}
    col.n += 1
    if A != B:
        col.nontrivial += 1
    base = col

    class _C:       # every failure of this case carries the pair (for sub-case minimisation)
        def __getattr__(s, k):
            return getattr(base, k)

        def fail(s, *a):
            base.fail(*a, AB=(A, B))
    col = _C()
    ta, e1 = call(R.build_cached, A)
    tb, e2 = call(R.build_cached, B)
    if e1 or e2 or ta.decode() != ida[b""] or tb.decode() != idb[b""]:
        col.fail("dulwich/index.py:commit_tree", "tree-id", "", size, txt, {"in": "diff case"}, raw)
        return
    At = [(pbytes(p), m, i) for p, m, i in A]
    Bt = [(pbytes(p), m, i) for p, m, i in B]
    # --- tree_changes under the eight flag combinations
    bad = {}
    for k, fl in enumerate(FLAGS):
        exp = exp_changes(c["d"][k], ida, idb)
        real, exc = call(R.diff, ta, tb, fl)
        if verbose:
            print(f"  tree_changes(wu,it,cts={FLAGKEY[k]}) -> {exc or [(t, show_entry(o), show_entry(n)) for t, o, n in real]}")
            print(f"      expected {[(t, show_entry(o), show_entry(n)) for t, o, n in exp]}")
        if exc:
            bad.setdefault(f"raised:{exc}", []).append(k)
            continue
        if real == exp:
            continue
        if per_path(real) != per_path(exp):
            bad.setdefault("diff", []).append(k)
        elif not once(real, fl[2]):
            bad.setdefault("once", []).append(k)
        else:
            col.drifted("tree_changes order/labels", txt, {"flags": FLAGKEY[k], "real": real, "expected": exp})
            continue
        sub, applied = apply_changes(real, At)
        if not sub or applied != set(Bt):
            bad.setdefault("apply", []).append(k)
    for clause, ks in bad.items():
        tag = "*" if len(ks) == 8 else ",".join(FLAGKEY[k] for k in ks)
        col.fail("dulwich/diff_tree.py:tree_changes", f"{clause}[{tag}]", feat, size, txt,
                 {"flags": [FLAGKEY[k] for k in ks], "real": call(R.diff, ta, tb, FLAGS[ks[0]])[0],
                  "expected": exp_changes(c["d"][ks[0]], ida, idb)}, raw)
    # --- pruning of identical subtrees (shape: number of tree objects loaded)
    for j, wu in enumerate((False, True)):
        n, exc = call(R.diff_loads, ta, tb, wu)
        if not exc and n != c["loads"][j]:
            col.drifted("walk_trees loads", txt, {"want_unchanged": wu, "real": n, "expected": c["loads"][j]})
    # --- path filters
    for i, P in enumerate(filters):
        exp = exp_changes(c["pf"][i], ida, idb)
        real, exc = call(R.diff, ta, tb, FLAGS[0], [pbytes(p) for p in P])
        if verbose:
            print(f"  tree_changes(paths={[pbytes(p) for p in P]}) -> {exc or [(t, show_entry(o), show_entry(n)) for t, o, n in real]}")
            print(f"      expected {[(t, show_entry(o), show_entry(n)) for t, o, n in exp]}")
        if exc:
            col.fail("dulwich/diff_tree.py:tree_changes", f"paths:raised:{exc}", feat, size, txt, {"paths": P}, raw)
        elif real != exp:
            if per_path(real) != per_path(exp) or not once(real, False):
                extra = sorted(set(per_path(real)) - set(per_path(exp)))
                missing = sorted(set(per_path(exp)) - set(per_path(real)))
                kind = (f"extra({kind_at(A, extra[0])}>{kind_at(B, extra[0])})" if extra
                        else f"missing({kind_at(A, missing[0])}>{kind_at(B, missing[0])})" if missing else "differs")
                col.fail("dulwich/diff_tree.py:walk_trees", f"paths:{kind}", feat, size,
                         txt + f" paths={[pbytes(p).decode('latin-1') for p in P]}",
                         {"paths": [pbytes(p).decode("latin-1") for p in P], "real": real, "expected": exp}, raw)
            else:
                col.drifted("tree_changes(paths) order/labels", txt, {"real": real, "expected": exp})
    # --- commit_tree_changes with the change list of the default diff, in both orders
    cl = c["cl"]
    for rev in (False, True):
        lst = cl[::-1] if rev else cl
        got, exc = call(R.patch, ta, lst)
        if verbose:
            print(f"  commit_tree_changes({[(pbytes(p).decode('latin-1'), m, i) for p, m, i in lst]}) -> {exc or got} expected {idb[b'']}")
        if exc:
            col.fail("dulwich/object_store.py:commit_tree_changes", f"patch:raised:{exc}", cl_shape(A, cl), size, txt,
                     {"changes": [(pbytes(p).decode("latin-1"), m, i) for p, m, i in lst]}, raw)
            break
        if got.decode() != idb[b""]:
            real, _ = call(parse_raw_tree, R.store, got)
            col.fail("dulwich/object_store.py:commit_tree_changes", "patch", cl_shape(A, cl), size, txt,
                     {"changes": [(pbytes(p).decode("latin-1"), m, i) for p, m, i in lst], "real_tree": real, "expected_tree": c["tb"]}, raw)
            break
    # --- exact renames
    real, exc = call(R.renames, ta, tb)
    exp = exp_changes(c["ren"], ida, idb)
    if verbose:
        print(f"  RenameDetector -> {exc or [(t, show_entry(o), show_entry(n)) for t, o, n in real]}")
        print(f"      expected{'' if c['unamb'] else ' (ambiguous, soundness only)'} {[(t, show_entry(o), show_entry(n)) for t, o, n in exp]}")
    if exc:
        col.fail("dulwich/diff_tree.py:RenameDetector", f"raised:{exc}", feat, size, txt, {}, raw)
    else:
        sub, applied = apply_changes(real, At)
        if not sub or applied != set(Bt):
            col.fail("dulwich/diff_tree.py:RenameDetector", "rename:apply", feat, size, txt, {"real": real}, raw)
        elif not once(real, False):
            col.fail("dulwich/diff_tree.py:RenameDetector", "rename:once", feat, size, txt, {"real": real}, raw)
        elif c["unamb"] and sorted(real, key=repr) != sorted(exp, key=repr):
            col.fail("dulwich/diff_tree.py:RenameDetector", "rename:exact", feat, size, txt, {"real": real, "expected": exp}, raw)
        elif not c["unamb"] and traces is not None:
            traces.append({"A": A, "B": B, "t": {"tid": 0, "kind": "rename", "A": jlist(A), "B": jlist(B), "fl": [False, False, False],
                                                 "paths": [], "cl": [], "c": with_trees(R, real), "tree": [], "iter": [], "res": "ok", "m": 200, "step": 0}})
    # --- material for the C git cross-check of the *spec*
    if gitout is not None:
        gitout.append((ida[b""], idb[b""], c))


def run_seq_case(R, col, c, verbose=False):
    """one RenameDetector object used for the diffs of c["steps"] in turn; the result of every
    step must be what the model says for that pair alone"""
    from dulwich.diff_tree import RenameDetector
    det = RenameDetector(R.store, max_files=c["m"])
    col.n += 1
    col.nontrivial += 1
    raw = {"kind": "seq", "case": c}
    hist = []
    for k, st in enumerate(c["steps"]):
        A, B = st["A"], st["B"]
        ida, idb = tree_ids(st["ta"]), tree_ids(st["tb"])
        hist.append(f"{show_listing(A)}->{show_listing(B)}")
        txt = f"max_files={c['m']} one detector: " + " ; ".join(hist)
        size = sum(len(x["A"]) + len(x["B"]) for x in c["steps"][:k + 1])
        ta, e1 = call(R.build_cached, A)
        tb, e2 = call(R.build_cached, B)
        if e1 or e2 or ta.decode() != ida[b""] or tb.decode() != idb[b""]:
            col.fail("dulwich/index.py:commit_tree", "tree-id", "", size, txt, {"in": "seq case"}, raw)
            return
        exp = sorted(exp_changes(st["ren"], ida, idb), key=repr)
        real, exc = call(lambda: real_changes(det.changes_with_renames(ta, tb)))
        if verbose:
            print(f"  step {k + 1} changes_with_renames({show_listing(A)} -> {show_listing(B)}) -> "
                  f"{exc or [(t, show_entry(o), show_entry(n)) for t, o, n in real]}")
            print(f"      expected {[(t, show_entry(o), show_entry(n)) for t, o, n in exp]}")
        if exc:
            col.fail("dulwich/diff_tree.py:RenameDetector", f"raised:{exc}[step{k + 1}]", features(A, B), size, txt, {}, raw, AB=(A, B))
            return
        if sorted(real, key=repr) != exp:
            fresh, _ = call(lambda: real_changes(RenameDetector(R.store, max_files=c["m"]).changes_with_renames(ta, tb)))
            clause = "rename:stateful" if fresh is not None and sorted(fresh, key=repr) == exp else "rename:content"
            col.fail("dulwich/diff_tree.py:RenameDetector", f"{clause}[step{k + 1}]", features(A, B), size, txt,
                     {"real": real, "expected": exp, "fresh_detector": fresh}, raw, AB=(A, B))
            return


# --------------------------------------------------------------------------- code -> spec traces
def jent(e):
    """tuple entry -> JSON record with the field names of TreeDiff"""
    if e is None:
        return {"path": [], "mode": "-", "id": "", "tree": []}
    return {"path": pnames(e[0]), "mode": e[1], "id": e[2] if e[1] != "T" else "", "tree": e[3] if len(e) > 3 else []}


def jnodes(nodes):
    return [{"name": n, "mode": m, "id": i, "sub": jnodes(s)} for n, m, i, s in nodes]


def jlist(L):
    return [{"path": p, "mode": m, "id": i, "tree": []} for p, m, i in L]


def with_trees(R, changes):
    """replace tree ids in real entries by the nested content read back from the store"""
    def f(e):
        if e is None or e[1] != "T":
            return e
        return (e[0], "T", "", jnodes(parse_raw_tree(R.store, e[2].encode())))
    return [{"type": t, "old": jent(f(o)), "new": jent(f(n))} for t, o, n in changes]


def run_trace_case(R, t):
    """t: {"tid", "kind", ...inputs}; returns the trace record for TLC (inputs + real results)"""
    kind = t["kind"]
    if kind == "renseq":
        return run_renseq(R, t)
    out = {"tid": t["tid"], "kind": kind, "A": jlist(t["A"]), "B": jlist(t.get("B", [])),
           "fl": t.get("fl", [False, False, False]), "paths": t.get("paths", []), "cl": [], "c": [],
           "tree": [], "iter": [], "res": "ok", "m": 200, "step": 0}
    try:
        ta = R.build(t["A"], t.get("order", 0))
        if kind == "build":
            out["tree"] = jnodes(parse_raw_tree(R.store, ta))
            out["iter"] = [jent(e) for e in R.flat(ta, False)]
        elif kind == "diff":
            tb = R.build(t["B"])
            out["c"] = with_trees(R, R.diff(ta, tb, tuple(t["fl"]), [pbytes(p) for p in t.get("paths", [])] or None))
        elif kind == "rename":
            tb = R.build(t["B"])
            out["c"] = with_trees(R, R.renames(ta, tb))
        elif kind == "patch":
            out["cl"] = [{"path": p, "mode": m, "id": i} for p, m, i in t["cl"]]
            got = R.patch(ta, t["cl"])
            out["tree"] = jnodes(parse_raw_tree(R.store, got))
    except Exception as e:
        out["res"] = "exc:" + type(e).__name__
    return out


def run_renseq(R, t):
    """one detector object for all diffs of t["steps"]; one recording (kind rename) per step"""
    from dulwich.diff_tree import RenameDetector
    det = RenameDetector(R.store, max_files=t["m"])
    outs = []
    for k, (A, B) in enumerate(t["steps"]):
        out = {"tid": t["tid"], "kind": "rename", "A": jlist(A), "B": jlist(B), "fl": [False, False, False], "paths": [],
               "cl": [], "c": [], "tree": [], "iter": [], "res": "ok", "m": t["m"], "step": k}
        try:
            out["c"] = with_trees(R, real_changes(det.changes_with_renames(R.build(A), R.build(B))))
        except Exception as e:
            out["res"] = "exc:" + type(e).__name__
        outs.append(out)
    return outs


# --------------------------------------------------------------------------- entry
def main(argv):
    mode, task, outp = argv[:3]
    with open(task) as f:
        job = json.load(f)
    R = Real()
    col = Collector(mode)
    sink = {} if job.get("emit_git") else None
    gitout = [] if job.get("emit_git") else None
    traces = []
    res = {"traces": []}
    if job["kind"] == "gen":
        filters = job.get("filters", [])
        with open(job["cases"]) as f:
            for line in f:
                c = json.loads(line)
                if "tree" in c:
                    run_build_case(R, col, c, sink)
                elif "steps" in c:
                    run_seq_case(R, col, c)
                else:
                    run_diff_case(R, col, c, filters, gitout, traces if job.get("emit_traces") else None)
                    if sink is not None:
                        tree_ids(c["ta"], sink=sink)
                        tree_ids(c["tb"], sink=sink)
        if gitout is not None:
            with open(job["gitfile"], "w") as f:
                for ia, ib, c in gitout:
                    f.write(json.dumps([ia, ib, c["A"], c["B"], c["d"][0], c["d"][1], c["pf"], c["unamb"], c["ren"]]) + "\n")
        if sink is not None:
            with open(job["treefile"], "w") as f:
                json.dump({k: v.hex() for k, v in sink.items()}, f)
        res["traces"] = traces[:job.get("max_traces", 0)]
    elif job["kind"] == "trace":
        with open(job["cases"]) as f:
            for line in f:
                t = json.loads(line)
                r = run_trace_case(R, t)
                res["traces"] += r if isinstance(r, list) else [r]
                col.n += 1
    # the store must still be consistent (nothing mutated a stored object in place)
    bad = [k for k, o in R.store._data.items() if o.id != k]
    if bad:
        col.fail("dulwich/object_store.py:MemoryObjectStore", "stored-object-mutated", "", 0, bad[0].decode(), {}, {})
    res.update(col.dump())
    with open(outp, "w") as f:
        json.dump(res, f, default=_default)


def _default(o):
    if isinstance(o, bytes):
        return o.decode("latin-1")
    if isinstance(o, (set, frozenset)):
        return sorted(o, key=repr)
    return repr(o)


if __name__ == "__main__":
    main(sys.argv[1:])

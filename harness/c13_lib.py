"""C13 helpers: TLC dump reader, history builder (real dulwich objects), query runners.

Conventions: commits are numbered 1..n in a topological order (parents have smaller numbers),
`par[c-1]` is the sorted list of parents of c, `ts[c-1]` its timestamp *level* (small positive
integer; the real commit time is T0 + level * STEP), sets of commits travel as bit masks
(commit c = bit 2^(c-1)) exactly as specs/GraphCases.tla emits them.
"""
from __future__ import annotations

import hashlib
import os
import random
import re
import zlib

T0 = 1_600_000_000
STEP = 1000
EMPTY_TREE = b"4b825dc642cb6eb9a060e54bf8d69288fbee4904"
IDENT = b"a <a@b>"

SITES = {
    "mb": "dulwich/graph.py:find_merge_base",
    "ff": "dulwich/graph.py:can_fast_forward",
    "oct": "dulwich/graph.py:find_octopus_base",
    "ind": "dulwich/graph.py:independent",
    "walk": "dulwich/walk.py:Walker",
    "pm": "dulwich/porcelain/__init__.py:merged_branches",
    "pc": "dulwich/porcelain/__init__.py:branches_containing",
    "pa": "dulwich/porcelain/__init__.py:is_ancestor",
    "pb": "dulwich/porcelain/__init__.py:merge_base",
    "pi": "dulwich/porcelain/__init__.py:independent_commits",
    "pr": "dulwich/porcelain/__init__.py:rev_list",
}


def real_time(level: int) -> int:
    return T0 + level * STEP


def mask_of(xs) -> int:
    m = 0
    for x in xs:
        m |= 1 << (x - 1)
    return m


def set_of(m: int) -> list:
    out, c = [], 1
    while m:
        if m & 1:
            out.append(c)
        m >>= 1
        c += 1
    return out


def crc(*a) -> int:
    return zlib.crc32(repr(a).encode())


# --------------------------------------------------------------------------- TLC dump
_RE_BLOCK = re.compile(r"^State \d+:\n", re.M)
_RE_PAR = re.compile(r"/\\ par = <<(.*?)>>\n", re.S)
_RE_TS = re.compile(r"/\\ ts = <<(.*?)>>\n", re.S)
_RE_ANS = re.compile(r"/\\ ans = <<(.*?)>>\n", re.S)
_RE_LVL = re.compile(r"/\\ lvl = (\d)")
_RE_SET = re.compile(r"\{([^}]*)\}")
_RE_INT = re.compile(r"\d+")


def read_cases(path: str):
    """-> (tables: {parkey: (par, [ints])}, cases: {parkey: [(ts tuple, (monomask, strictmask))]})"""
    if not path.endswith(".dump"):
        path += ".dump"
    with open(path, encoding="ascii", errors="replace") as f:
        text = f.read()
    tables, cases = {}, {}
    for blk in _RE_BLOCK.split(text):
        if not blk.strip():
            continue
        m = _RE_LVL.search(blk)
        if m is None or not _RE_PAR.search(blk) or not _RE_ANS.search(blk):
            raise ValueError(f"malformed state in {path} (truncated dump?): {blk[:200]!r}")
        lvl = int(m.group(1))
        if lvl == 0:
            continue
        pm = _RE_PAR.search(blk).group(1)
        par = tuple(tuple(int(x) for x in _RE_INT.findall(s)) for s in _RE_SET.findall(pm))
        ans = [int(x) for x in _RE_INT.findall(_RE_ANS.search(blk).group(1))]
        if lvl == 1:
            tables[par] = ans
        else:
            ts = tuple(int(x) for x in _RE_INT.findall(_RE_TS.search(blk).group(1)))
            cases.setdefault(par, []).append((ts, (ans[0], ans[1])))
    return tables, cases


class Table:
    """Accessors for the level-1 table of GraphCases.GraphAnswers."""

    def __init__(self, n, ints):
        self.n, self.t = n, ints
        self.M = (1 << n) - 1
        fixed = n + n * self.M + 3 * self.M
        assert len(ints) > fixed, (n, len(ints))
        self.covers = ints[fixed:]          # masks of the non-empty down-closed sets (commit-graph extents)
        self.o_mb = n
        self.o_oct = n + n * self.M
        self.o_ind = self.o_oct + self.M
        self.o_reach = self.o_ind + self.M

    def anc(self, c):
        return self.t[c - 1]

    def mb(self, a, m):
        return self.t[self.o_mb + (a - 1) * self.M + m - 1]

    def oct(self, m):
        return self.t[self.o_oct + m - 1]

    def ind(self, m):
        return self.t[self.o_ind + m - 1]

    def reach(self, m):
        return self.t[self.o_reach + m - 1] if m else 0


def table_from_par(par):
    """The same table computed in Python -- used ONLY for histories larger than TLC enumerates,
    as a pre-filter; every verdict on those comes from TLC (GraphTrace)."""
    n = len(par)
    anc = []
    for c in range(1, n + 1):
        m = 1 << (c - 1)
        for p in par[c - 1]:
            m |= anc[p - 1]
        anc.append(m)
    return anc


# --------------------------------------------------------------------------- real histories
_mine_cache: dict = {}


def _mine(prefix: bytes, digit: str) -> bytes:
    """Smallest nonce such that the commit id starts with `digit` (controls the id order, which
    is how dulwich's heaps break timestamp ties; Graph.tla calls it rank)."""
    key = (prefix, digit)
    r = _mine_cache.get(key)
    if r is not None:
        return r
    k = 0
    sha1 = hashlib.sha1
    while True:
        body = prefix + b"%d\n" % k
        if sha1(b"commit %d\0" % len(body) + body).hexdigest()[0] == digit:
            break
        k += 1
    if len(_mine_cache) > 300000:
        _mine_cache.clear()
    _mine_cache[key] = body
    return body


_shared_store_cls = None


def shared_store_repo():
    """A MemoryRepo whose object store hands out the stored Commit objects themselves instead of
    re-parsing a copy on every lookup (MemoryObjectStore.__getitem__ copies; half of the time
    of a query went there).  graph.py and walk.py only read commits.  Used for the enumerated
    cases only; the random histories run on an unmodified MemoryRepo and on disk repositories."""
    global _shared_store_cls
    from dulwich.object_store import MemoryObjectStore
    from dulwich.repo import MemoryRepo
    if _shared_store_cls is None:
        class SharedStore(MemoryObjectStore):
            def __getitem__(self, name):
                return self._data[self._to_hexsha(name)]
        _shared_store_cls = SharedStore
    r = MemoryRepo()
    r.object_store.__class__ = _shared_store_cls
    return r


def attach_commit_graph(h, cover):
    """Give the (memory) repository of h a commit-graph covering exactly `cover` (a down-closed
    list of commits): generated by dulwich's generate_commit_graph, serialised by write_to_file
    and read back by CommitGraph.from_file, then handed out by the store's get_commit_graph()
    (the hook every ParentsProvider uses).  cover = None detaches it."""
    store = h.repo.object_store
    if cover is None:
        store.__dict__.pop("get_commit_graph", None)
        return
    import io
    from dulwich.commit_graph import CommitGraph, generate_commit_graph
    g = generate_commit_graph(store, h.idl(cover))
    buf = io.BytesIO()
    g.write_to_file(buf)
    buf.seek(0)
    g2 = CommitGraph.from_file(buf)
    store.get_commit_graph = lambda: g2


class Hist:
    """A history built as real dulwich objects in a MemoryRepo (or any repo passed in)."""

    def __init__(self, par, ts, mode, repo=None, salt=0, cuts=None):
        """cuts: {commit: ("shallow",) | ("graft", [parents])} -- the commit objects keep the
        parents of `par`, the repository is told to see other ones (shallow file / graft points);
        self.par becomes the history as the repository's ParentsProvider presents it."""
        from dulwich.objects import Commit, Tree
        from dulwich.repo import MemoryRepo
        self.par, self.ts, self.mode = par, ts, mode
        self.cuts = cuts or {}
        n = self.n = len(par)
        self.repo = repo if repo is not None else MemoryRepo()
        store = self.repo.object_store
        store.add_object(Tree())
        ids = self.ids = []
        for c in range(1, n + 1):
            t = real_time(ts[c - 1])
            com = Commit()
            com.tree = EMPTY_TREE
            com.parents = [ids[p - 1] for p in par[c - 1]]
            com.author = com.committer = IDENT
            com.author_time = com.commit_time = t
            com.author_timezone = com.commit_timezone = 0
            if mode is None:
                com.message = b"c%d %d\n" % (c, salt)
            else:
                digit = "%x" % (c if mode == 0 else 15 - c)
                prefix = (b"tree " + EMPTY_TREE + b"\n" + b"".join(b"parent " + ids[p - 1] + b"\n" for p in par[c - 1])
                          + b"author " + IDENT + b" %d +0000\ncommitter " % t + IDENT + b" %d +0000\n\nc%d " % (t, c))
                body = _mine(prefix, digit)
                com.message = body[body.index(b"\n\n") + 2:]
                if com.id[:1].decode() != digit:
                    raise RuntimeError("commit serialisation differs from the miner's")
            store.add_object(com)
            ids.append(com.id)
        if self.cuts:
            self.obj_par = par
            eff = [tuple(p) for p in par]
            shallow, grafts = set(), {}
            for c, cut in self.cuts.items():
                c = int(c)
                if cut[0] == "shallow":
                    shallow.add(ids[c - 1])
                    eff[c - 1] = ()
                else:
                    grafts[ids[c - 1]] = [ids[p - 1] for p in cut[1]]
                    eff[c - 1] = tuple(cut[1])
            if shallow:
                self.repo.update_shallow(shallow, None)
            if grafts:
                self.repo._add_graftpoints(grafts)
            self.par = tuple(eff)
        self.inv = {x: i + 1 for i, x in enumerate(ids)}
        self.branches = []
        order = sorted(range(n), key=lambda i: ids[i])
        self.rank = [0] * n
        for pos, i in enumerate(order):
            self.rank[i] = pos + 1

    def idl(self, xs):
        return [self.ids[x - 1] for x in xs]

    def num(self, shas):
        return [self.inv.get(s, -1) for s in shas]

    def record(self, tid, queries):
        r = {"tid": tid, "par": [list(p) for p in self.par], "ts": list(self.ts), "rank": list(self.rank),
             "q": queries, "cg": []}
        if self.cuts:
            r["cuts"] = {str(c): list(v) for c, v in self.cuts.items()}
            r["obj_par"] = [list(p) for p in self.obj_par]
        return r


# --------------------------------------------------------------------------- branches for the porcelain wrappers
_mem_refs_cls = None


def use_memory_refs(h):
    """Enumerated cases: keep the dictionary ref backend of MemoryRepo but with a subkeys() that
    honours a base with a trailing slash (see use_disk_refs for why); a files backend per case costs
    more than all other questions of the case together.  The random histories on disk use the real
    DiskRefsContainer."""
    global _mem_refs_cls
    if _mem_refs_cls is None:
        from dulwich.refs import DictRefsContainer

        class SlashSafeDictRefs(DictRefsContainer):
            def subkeys(self, base):
                b = base.rstrip(b"/") + b"/"
                return {k[len(b):] for k in self.allkeys() if k.startswith(b)}
        _mem_refs_cls = SlashSafeDictRefs
    h.repo.refs.__class__ = _mem_refs_cls


def use_disk_refs(h, refs_dir):
    """Memory repositories get the files ref backend on a scratch directory (object store stays in
    memory): DictRefsContainer.as_dict(base=b"refs/heads/") -- what the branch listings use --
    returns nothing on this tree (BaseRefsContainer.subkeys mishandles the trailing slash; ref
    backends are C16's subject), so the wrappers could not be exercised on it."""
    from dulwich.refs import DiskRefsContainer
    os.makedirs(os.path.join(refs_dir, "refs", "heads"), exist_ok=True)
    h.repo.refs = DiskRefsContainer(refs_dir)


def set_branches(h, commits):
    """refs/heads/c<n> -> commit n for n in commits, nothing else under refs/heads."""
    refs = h.repo.refs
    want = {b"refs/heads/c%d" % c: h.ids[c - 1] for c in commits}
    for k in list(refs.keys(base=b"refs/heads")):
        full = b"refs/heads/" + k
        if full not in want:
            del refs[full]
    for k, v in want.items():
        refs[k] = v
    h.branches = sorted(commits)


def _bn(names):
    out = []
    for x in names:
        x = x.rsplit(b"/", 1)[-1]
        out.append(int(x[1:]) if x[:1] == b"c" and x[1:].isdigit() else -1)
    return sorted(out)


# --------------------------------------------------------------------------- queries on the real code
def _exc(e):
    return f"{type(e).__name__}: {e}"[:200]


def q_pm(h, head):
    from dulwich import porcelain
    q = {"k": "pm", "h": head, "s": list(h.branches), "m": 0, "g": []}
    try:
        h.repo.refs.set_symbolic_ref(b"HEAD", b"refs/heads/c%d" % head)
        q["r"] = _bn(porcelain.merged_branches(h.repo))
        q["nr"] = _bn(porcelain.no_merged_branches(h.repo))
    except Exception as e:
        q["r"], q["nr"], q["exc"] = [-1], [-1], _exc(e)
    return q


def q_pc(h, a):
    from dulwich import porcelain
    q = {"k": "pc", "a": a, "s": list(h.branches), "m": 0, "g": []}
    try:
        q["r"] = _bn(porcelain.branches_containing(h.repo, h.ids[a - 1].decode()))
    except Exception as e:
        q["r"], q["exc"] = [-1], _exc(e)
    return q


def q_pa(h, a, b):
    from dulwich import porcelain
    q = {"k": "pa", "a": a, "b": b, "m": 0, "g": []}
    try:
        q["r"] = [1 if porcelain.is_ancestor(h.repo, h.ids[a - 1], h.ids[b - 1]) else 0]
    except Exception as e:
        q["r"], q["exc"] = [2], _exc(e)
    return q


def q_pb(h, s, octopus=0, all_=1):
    from dulwich import porcelain
    q = {"k": "pb", "s": list(s), "oct": octopus, "all": all_, "m": 0, "g": []}
    try:
        q["r"] = h.num(porcelain.merge_base(h.repo, h.idl(s), all=bool(all_), octopus=bool(octopus)))
    except Exception as e:
        q["r"], q["exc"] = [-1], _exc(e)
    return q


def q_pi(h, s):
    from dulwich import porcelain
    q = {"k": "pi", "s": list(s), "m": 0, "g": []}
    try:
        q["r"] = h.num(porcelain.independent_commits(h.repo, h.idl(s)))
    except Exception as e:
        q["r"], q["exc"] = [-1], _exc(e)
    return q


def q_pr(h, i):
    import io
    from dulwich import porcelain
    q = {"k": "pr", "i": list(i), "m": 0, "g": []}
    try:
        out = io.BytesIO()
        porcelain.rev_list(h.repo, h.idl(i), outstream=out)
        q["r"] = h.num(out.getvalue().split())
    except Exception as e:
        q["r"], q["exc"] = [-1], _exc(e)
    return q


def q_mb(h: Hist, a, d):
    from dulwich.graph import find_merge_base
    q = {"k": "mb", "a": a, "d": list(d), "m": 0, "g": []}
    try:
        q["r"] = h.num(find_merge_base(h.repo, [h.ids[a - 1]] + h.idl(d)))
    except Exception as e:           # an exception is not the graph-theoretic answer either
        q["r"], q["exc"] = [-1], _exc(e)
    return q


def q_ff(h: Hist, a, b):
    from dulwich.graph import can_fast_forward
    q = {"k": "ff", "a": a, "b": b, "m": 0, "g": []}
    try:
        q["r"] = [1 if can_fast_forward(h.repo, h.ids[a - 1], h.ids[b - 1]) else 0]
    except Exception as e:
        q["r"], q["exc"] = [2], _exc(e)
    return q


def q_oct(h: Hist, s):
    from dulwich.graph import find_octopus_base
    q = {"k": "oct", "s": list(s), "m": 0, "g": []}
    try:
        q["r"] = h.num(find_octopus_base(h.repo, h.idl(s)))
    except Exception as e:
        q["r"], q["exc"] = [-1], _exc(e)
    return q


def q_ind(h: Hist, s):
    from dulwich.graph import independent
    q = {"k": "ind", "s": list(s), "m": 0, "g": []}
    try:
        q["r"] = h.num(independent(h.repo, h.idl(s)))
    except Exception as e:
        q["r"], q["exc"] = [-1], _exc(e)
    return q


def _walk(h: Hist, i, e, topo, rev, since, until, maxe):
    w = h.repo.get_walker(include=h.idl(i), exclude=h.idl(e) or None, order="topo" if topo else "date",
                          reverse=bool(rev), max_entries=maxe or None,
                          since=real_time(since) if since else None, until=real_time(until) if until else None)
    return h.num([x.commit.id for x in w])


def q_walk(h: Hist, i, e, topo=0, rev=0, since=0, until=0, maxe=0):
    q = {"k": "walk", "i": list(i), "e": list(e), "topo": topo, "rev": rev, "since": since, "until": until,
         "max": maxe, "m": 0, "g": [], "base": []}
    try:
        q["r"] = _walk(h, i, e, topo, rev, since, until, maxe)
        if rev:
            q["base"] = _walk(h, i, e, topo, 0, since, until, maxe)
        elif maxe:
            q["base"] = _walk(h, i, e, topo, 0, since, until, 0)
    except Exception as ex:
        q["r"], q["exc"] = [-1], _exc(ex)
    return q


# --------------------------------------------------------------------------- expected answers (pre-filter)
class Expect:
    """Expected answers looked up in the table TLC emitted (enumerated histories) or computed from
    an ancestor table (large histories; there TLC re-judges everything)."""

    def __init__(self, n, par, ts, table: Table | None, clock=None, anc=None):
        self.n, self.par, self.ts, self.table = n, par, ts, table
        self.ancm = anc if anc is not None else [table.anc(c) for c in range(1, n + 1)]
        if clock is None:
            mono = strict = 0
            for c in range(1, n + 1):
                if all(ts[p - 1] <= ts[c - 1] for p in par[c - 1]):
                    mono |= 1 << (c - 1)
                if all(ts[p - 1] < ts[c - 1] for p in par[c - 1]):
                    strict |= 1 << (c - 1)
            clock = (mono, strict)
        self.mono, self.strict = clock

    def reach(self, m):
        if self.table is not None:
            return self.table.reach(m)
        r = 0
        for c in set_of(m):
            r |= self.ancm[c - 1]
        return r

    def maximal(self, m):
        drop = 0
        for c in set_of(m):
            drop |= self.ancm[c - 1] & ~(1 << (c - 1))
        return m & ~drop

    def mb(self, a, dm):
        if self.table is not None:
            return self.table.mb(a, dm)
        return self.maximal(self.ancm[a - 1] & self.reach(dm))

    def oct(self, m):
        if self.table is not None:
            return self.table.oct(m)
        ca = -1
        for c in set_of(m):
            ca &= self.ancm[c - 1]
        return self.maximal(ca)

    def ind(self, m):
        if self.table is not None:
            return self.table.ind(m)
        return self.maximal(m)

    def clock_class(self, m):
        if m & ~self.strict == 0:
            return "strict"
        if m & ~self.mono == 0:
            return "ties"
        return "skew"

    # returns (ok, relevant-commit mask)
    def check(self, q):
        k = q["k"]
        r = q["r"]
        if k == "mb":
            dm = mask_of(q["d"])
            rel = self.reach(dm | (1 << (q["a"] - 1)))
            return (-1 not in r and mask_of(r) == self.mb(q["a"], dm)), rel
        if k == "ff":
            rel = self.reach(mask_of([q["a"], q["b"]]))
            e = 1 if self.ancm[q["b"] - 1] >> (q["a"] - 1) & 1 else 0
            return r == [e], rel
        if k == "oct":
            sm = mask_of(q["s"])
            return (-1 not in r and mask_of(r) == self.oct(sm)), self.reach(sm)
        if k == "ind":
            sm = mask_of(q["s"])
            return (-1 not in r and mask_of(r) == self.ind(sm) and len(set(r)) == len(r)), self.reach(sm)
        if k == "pm":
            sm = mask_of(q["s"])
            rel = self.reach(sm | 1 << (q["h"] - 1))
            e = sm & self.ancm[q["h"] - 1]
            return (-1 not in q["r"] and -1 not in q["nr"] and mask_of(q["r"]) == e and mask_of(q["nr"]) == sm & ~e), rel
        if k == "pc":
            sm = mask_of(q["s"])
            rel = self.reach(sm | 1 << (q["a"] - 1))
            e = mask_of([c for c in q["s"] if self.ancm[c - 1] >> (q["a"] - 1) & 1])
            return (-1 not in r and mask_of(r) == e), rel
        if k == "pa":
            rel = self.reach(mask_of([q["a"], q["b"]]))
            e = 1 if self.ancm[q["b"] - 1] >> (q["a"] - 1) & 1 else 0
            return r == [e], rel
        if k == "pb":
            sm = mask_of(q["s"])
            rel = self.reach(sm)
            e = self.oct(sm) if q["oct"] else self.mb(q["s"][0], mask_of(q["s"][1:]))
            if -1 in r:
                return False, rel
            if q["all"]:
                return mask_of(r) == e, rel
            return (r == [] and e == 0) or (len(r) == 1 and e >> (r[0] - 1) & 1 == 1), rel
        if k == "pi":
            sm = mask_of(q["s"])
            return (-1 not in r and mask_of(r) == self.ind(sm) and len(set(r)) == len(r)), self.reach(sm)
        if k == "pr":
            im = mask_of(q["i"])
            return (-1 not in r and len(set(r)) == len(r) and mask_of(r) == self.reach(im)), self.reach(im)
        if k == "walk":
            im, em = mask_of(q["i"]), mask_of(q["e"])
            rel = self.reach(im | em)
            if -1 in r or len(set(r)) != len(r):
                return False, rel
            rm = mask_of(r)
            ri = self.reach(im)
            if rm & ~ri:
                return False, rel
            w = ri & ~self.reach(em)
            mono = rel & ~self.mono == 0
            exact = mono or (em == 0 and q["since"] == 0)
            if exact and q["max"] == 0:
                f = mask_of([c for c in set_of(w) if (not q["since"] or self.ts[c - 1] >= q["since"])
                             and (not q["until"] or self.ts[c - 1] <= q["until"])])
                if rm != f:
                    return False, rel
            if q["topo"]:
                seq = r[::-1] if q["rev"] else r
                pos = {c: i for i, c in enumerate(seq)}
                for c in seq:
                    for p in self.par[c - 1]:
                        if p in pos and pos[p] < pos[c]:
                            return False, rel
            if q["rev"]:
                if r != q["base"][::-1]:
                    return False, rel
            elif q["max"]:
                if not q["topo"] and r != q["base"][:q["max"]]:
                    return False, rel
                if len(r) != min(q["max"], len(q["base"])):
                    return False, rel
            if q["g"] and not q["topo"] and not (q["since"] or q["until"] or q["max"]) and (em == 0 or mono):
                tss = [self.ts[c - 1] for c in set_of(rel)]
                if len(set(tss)) == len(tss) and r != q["g"][0]:
                    return False, rel
            return True, rel
        raise ValueError(k)


# --------------------------------------------------------------------------- canonical minimal description
def relevant(par, q):
    """Commits the query can see: everything reachable from the commits it names."""
    k = q["k"]
    roots = {"mb": lambda: [q["a"]] + q["d"], "ff": lambda: [q["a"], q["b"]], "oct": lambda: q["s"],
             "ind": lambda: q["s"], "walk": lambda: q["i"] + q["e"], "pm": lambda: [q["h"]] + q["s"],
             "pc": lambda: [q["a"]] + q["s"], "pa": lambda: [q["a"], q["b"]], "pb": lambda: q["s"],
             "pi": lambda: q["s"], "pr": lambda: q["i"]}[k]()
    seen, todo = set(), list(roots)
    while todo:
        c = todo.pop()
        if c not in seen:
            seen.add(c)
            todo += par[c - 1]
    return sorted(seen)


def describe(par, ts, q):
    """Restrict the history to the commits the query can see, renumber, and print compactly."""
    k = q["k"]
    keep = relevant(par, q)
    ren = {c: i + 1 for i, c in enumerate(keep)}
    levels = sorted({ts[c - 1] for c in keep})
    lv = {t: i + 1 for i, t in enumerate(levels)}
    p2 = [[ren[p] for p in par[c - 1]] for c in keep]
    t2 = [lv[ts[c - 1]] for c in keep]

    def rn(xs):
        return [ren.get(x, x) for x in xs]
    if k == "mb":
        qs = f"find_merge_base({ren[q['a']]};{rn(q['d'])})={rn(q['r'])}"
    elif k == "ff":
        qs = f"can_fast_forward({ren[q['a']]},{ren[q['b']]})={q['r'][0]}"
    elif k == "oct":
        qs = f"find_octopus_base({rn(q['s'])})={rn(q['r'])}"
    elif k == "ind":
        qs = f"independent({rn(q['s'])})={rn(q['r'])}"
    elif k == "pm":
        qs = f"HEAD={ren[q['h']]},branches={rn(q['s'])}:merged_branches={rn(q['r'])},no_merged_branches={rn(q['nr'])}"
    elif k == "pc":
        qs = f"branches={rn(q['s'])}:branches_containing({ren[q['a']]})={rn(q['r'])}"
    elif k == "pa":
        qs = f"porcelain.is_ancestor({ren[q['a']]},{ren[q['b']]})={q['r'][0]}"
    elif k == "pb":
        qs = f"porcelain.merge_base({rn(q['s'])},all={q['all']},octopus={q['oct']})={rn(q['r'])}"
    elif k == "pi":
        qs = f"independent_commits({rn(q['s'])})={rn(q['r'])}"
    elif k == "pr":
        qs = f"porcelain.rev_list({rn(q['i'])})={rn(q['r'])}"
    else:
        opts = "".join(f",{o}={q[o]}" for o in ("topo", "rev", "since", "until", "max") if q[o])
        qs = f"walk(include={rn(q['i'])},exclude={rn(q['e'])}{opts})={rn(q['r'])}"
    s = f"n={len(keep)} par={p2} ts={t2} {qs}".replace(" ", "")
    size = (len(keep), sum(len(p) for p in p2), len(levels), len(s), s)
    return s, size


# --------------------------------------------------------------------------- per-DAG task (worker process)

# --------------------------------------------------------------------------- views: shallow / graft x stale commit-graph
def read_views(path: str, n: int):
    """State dump of GraphViews -> [(par, c, kind, P, anc masks of the view, stale cover masks)]"""
    if not path.endswith(".dump"):
        path += ".dump"
    with open(path, encoding="ascii", errors="replace") as f:
        text = f.read()
    out, roots = [], 0
    for blk in _RE_BLOCK.split(text):
        if not blk.strip():
            continue
        m = _RE_LVL.search(blk)
        if m is None or not _RE_PAR.search(blk) or not _RE_ANS.search(blk):
            raise ValueError(f"malformed state in {path} (truncated dump?): {blk[:200]!r}")
        if int(m.group(1)) == 0:
            roots += 1
            continue
        par = tuple(tuple(int(x) for x in _RE_INT.findall(s)) for s in _RE_SET.findall(_RE_PAR.search(blk).group(1)))
        ans = [int(x) for x in _RE_INT.findall(_RE_ANS.search(blk).group(1))]
        if len(par) != n or len(ans) < 3 + n + 1:
            raise ValueError(f"malformed view state in {path}: {blk[:200]!r}")
        out.append((par, ans[0], ans[1], tuple(set_of(ans[2])), ans[3:3 + n], ans[3 + n:]))
    return out, roots


def run_views(task):
    """task = dict(n, items [(par, c, kind, P, anc, covers)], clocks {par: [ts]}, seed).  For every
    TLC-enumerated (history, cut): build the commit objects, then -- in this order, as a repository
    lives it -- attach a commit-graph generated from the objects over a TLC-enumerated extent that
    contains the cut commit (complete, and one stale/partial), tell the repository about the shallow
    boundary / graft point through its own interface, and put the questions to the real functions.
    Expected answers: the ancestor table TLC computed for View(par, c, P)."""
    n, seed = task["n"], task["seed"]
    res = {"cases": 0, "queries": 0, "suspect_q": 0, "records": [], "by_kind": {}}
    M = (1 << n) - 1
    multi = [m for m in range(1, M + 1) if popcount(m) >= 2]
    allsets = list(range(1, M + 1))
    for par, c, kind, P, anc, covers in task["items"]:
        rng = random.Random(crc(seed, par, c, kind, P))
        tss = [tuple(range(1, n + 1))]
        more = task["clocks"].get(par) or []
        if more:
            tss.append(tuple(rng.choice(more)))
        cuts = {c: ("shallow",) if kind == 0 else ("graft", list(P))}
        for ts in tss:
            h = Hist(par, ts, None, repo=shared_store_repo(), salt=0, cuts=cuts)
            view = tuple(tuple(P) if x == c else tuple(par[x - 1]) for x in range(1, n + 1))
            if tuple(tuple(sorted(p)) for p in h.par) != tuple(tuple(sorted(p)) for p in view):
                raise RuntimeError("harness view differs from GraphViews.View")
            ex = Expect(n, h.par, ts, None, anc=list(anc))
            chosen = [covers[-1]] + ([rng.choice(covers[:-1])] if len(covers) > 1 else []) + ([0] if ts is tss[0] else [])
            for cm in chosen:
                cover = set_of(cm)
                if cm:
                    attach_commit_graph(h, cover)
                try:
                    qc = []
                    for a in range(1, n + 1):
                        for b in range(1, n + 1):
                            qc.append(q_ff(h, a, b))
                            if a < b:
                                qc.append(q_mb(h, a, [b]))
                    for sm in rng.sample(multi, min(2, len(multi))):
                        s_ = set_of(sm)
                        qc.append(q_ind(h, s_))
                        qc.append(q_oct(h, s_[::-1]))
                        qc.append(q_mb(h, s_[0], s_[1:]))
                    desc = [x for x in range(1, n + 1) if anc[x - 1] >> (c - 1) & 1]
                    qc.append(q_walk(h, [rng.choice(desc)], []))
                    qc.append(q_walk(h, set_of(rng.choice(allsets)), [], topo=1))
                    qc.append(q_walk(h, set_of(rng.choice(allsets)), set_of(rng.choice(allsets))))
                finally:
                    if cm:
                        attach_commit_graph(h, None)
                ship = []
                for q in qc:
                    ok, _ = ex.check(q)
                    bk = res["by_kind"].setdefault(q["k"] + ("+cg" if cm else "") + "+cut", [0, 0])
                    bk[0] += 1
                    q["pre"] = 1 if ok else 0
                    if cm:
                        q["cg"] = "dulwich-memory"
                    if not ok:
                        bk[1] += 1
                        ship.append(q)
                    elif rng.random() < task.get("p_model", 0.01):
                        ship.append(q)
                res["queries"] += len(qc)
                res["suspect_q"] += sum(1 for q in ship if q["pre"] == 0)
                if ship:
                    rec = h.record(0, ship)
                    rec["mode"] = None
                    rec["salt"] = 0
                    rec["cg"] = sorted(cover)
                    if cm:
                        rec["cgw"] = "dulwich-memory"
                    res["records"].append(rec)
        res["cases"] += 1
    return res


def popcount(m):
    return bin(m).count("1")


def run_dag(task):
    """task = dict(n, par, table ints, cases [(ts, clock)], plan, seed).  Runs every case in both
    tie-break modes where ties exist.  Returns counters, suspects (records for TLC) and samples."""
    n, par, plan, seed = task["n"], task["par"], task["plan"], task["seed"]
    res = {"cases": 0, "queries": 0, "suspect_q": 0, "records": [], "nontrivial": [], "by_kind": {}, "tlc_cases": 0,
           "first": task.get("first", True), "skipped": False}
    import time
    if task.get("deadline") and time.time() > task["deadline"]:
        res["skipped"] = True
        return res
    res["tlc_cases"] = len(task["cases"])
    table = Table(n, task["table"])
    M = table.M
    multi = [m for m in range(1, M + 1) if popcount(m) >= 2]
    allsets = list(range(1, M + 1))
    for ts, clock in task["cases"]:
        tied = len(set(ts)) < n
        modes = (0, 1) if tied and plan["both_modes"] else ((crc(seed, par, ts) & 1,) if tied else (0,))
        for mode in modes:
            rng = random.Random(crc(seed, par, ts, mode))
            h = Hist(par, ts, mode, repo=shared_store_repo() if plan.get("shared_store", True) else None)
            ex = Expect(n, par, ts, table, clock)
            qs = []
            # --- merge bases
            for a in range(1, n + 1):
                for b in range(1, n + 1):
                    qs.append(q_mb(h, a, [b]))
                    qs.append(q_ff(h, a, b))
            full_mb = plan.get("full_mb", plan["full"])
            ms = multi if full_mb else rng.sample(multi, min(plan["n_mbm"], len(multi)))
            for dm in ms:
                d = set_of(dm)
                for a in (range(1, n + 1) if full_mb else [rng.randint(1, n)]):
                    if rng.random() < 0.5:
                        rng.shuffle(d)
                    qs.append(q_mb(h, a, d))
            # --- octopus / independent: each set in increasing, decreasing or random order
            ms = multi if plan["full"] else rng.sample(multi, min(plan["n_oct"], len(multi)))
            for sm in ms:
                s = set_of(sm)
                orders = [s, s[::-1]] if plan["full"] else [rng.sample(s, len(s))]
                for o in orders:
                    qs.append(q_oct(h, o))
            ms = multi if plan["full"] else rng.sample(multi, min(plan["n_ind"], len(multi)))
            for sm in ms:
                s = set_of(sm)
                qs.append(q_ind(h, rng.sample(s, len(s)) if rng.random() < 0.5 else s))
            # --- walks
            if plan["full_walk"]:
                ie = [(i, e) for i in allsets for e in [0] + allsets]
            else:
                ie = [(rng.choice(allsets), 0) for _ in range(plan["n_walk"] // 3)]
                ie += [(rng.choice(allsets), rng.choice(allsets)) for _ in range(plan["n_walk"] - len(ie))]
            for im, em in ie:
                i, e = set_of(im), set_of(em)
                qs.append(q_walk(h, i, e))
                if rng.random() < plan.get("topo_frac", 1.0):
                    qs.append(q_walk(h, i, e, topo=1))
            for _ in range(plan["n_walkopt"]):
                im = rng.choice(allsets)
                em = rng.choice([0, 0] + allsets)
                o = rng.randrange(6)
                lv = sorted(set(ts))
                kw = [dict(rev=1), dict(topo=1, rev=1), dict(maxe=rng.randint(1, n)), dict(since=rng.choice(lv)),
                      dict(until=rng.choice(lv)), dict(since=rng.choice(lv), until=rng.choice(lv), topo=rng.randrange(2))][o]
                qs.append(q_walk(h, set_of(im), set_of(em), **kw))
            # --- the porcelain wrappers: one branch per commit, HEAD at every commit in turn
            if rng.random() < plan.get("p_porcelain", 0.0):
                use_memory_refs(h)
                set_branches(h, range(1, n + 1))
                for c in range(1, n + 1):
                    qs.append(q_pm(h, c))
                    qs.append(q_pc(h, c))
                # (these resolve their arguments through the configuration stack: ~0.5 ms each)
                for _ in range(plan.get("n_porcelain", 1) if rng.random() < plan.get("p_porcelain_slow", 1.0) else 0):
                    a, b = rng.randint(1, n), rng.randint(1, n)
                    qs.append(q_pa(h, a, b))
                    s_ = set_of(rng.choice(multi))
                    rng.shuffle(s_)
                    o = rng.randrange(4)
                    qs.append(q_pb(h, s_, octopus=o & 1, all_=1 if o < 3 else 0))
                    qs.append(q_pi(h, s_))
                    qs.append(q_pr(h, set_of(rng.choice(allsets))))
            # --- pre-filter against the TLC table
            ship = []
            for q in qs:
                ok, rel = ex.check(q)
                kind = q["k"]
                bk = res["by_kind"].setdefault(kind, [0, 0])
                bk[0] += 1
                if not ok:
                    bk[1] += 1
                    q["m"] = 1
                    q["pre"] = 0
                    ship.append(q)
                elif rng.random() < plan["p_model"]:
                    q["m"] = 1
                    q["pre"] = 1
                    ship.append(q)
            # --- the same questions with a commit-graph covering a TLC-enumerated down-closed part of
            #     the history (stale / partial / complete accelerator): answers must not depend on it
            if rng.random() < plan.get("p_cover", 0.0):
                for cm in rng.sample(table.covers, min(plan.get("n_cover", 1), len(table.covers))):
                    cover = set_of(cm)
                    attach_commit_graph(h, cover)
                    try:
                        qc = []
                        for a in range(1, n + 1):
                            for b in range(1, n + 1):
                                qc.append(q_ff(h, a, b))
                                if a < b:
                                    qc.append(q_mb(h, a, [b]))
                        for sm in rng.sample(multi, min(3, len(multi))):
                            s_ = set_of(sm)
                            qc.append(q_ind(h, s_))
                            qc.append(q_oct(h, s_[::-1]))
                            qc.append(q_mb(h, s_[0], s_[1:]))
                        for _ in range(4):
                            im, em = rng.choice(allsets), rng.choice([0] + allsets)
                            qc.append(q_walk(h, set_of(im), set_of(em), topo=rng.randrange(2)))
                    finally:
                        attach_commit_graph(h, None)
                    shipc = []
                    for q in qc:
                        ok, rel = ex.check(q)
                        bk = res["by_kind"].setdefault(q["k"] + "+cg", [0, 0])
                        bk[0] += 1
                        q["cg"] = "dulwich-memory"
                        if not ok:
                            bk[1] += 1
                            q["m"], q["pre"] = 1, 0
                            shipc.append(q)
                    qs_n = len(qc)
                    res["queries"] += qs_n
                    res["suspect_q"] += len(shipc)
                    if shipc:
                        rec = h.record(0, shipc)
                        rec["mode"] = mode
                        rec["cg"] = sorted(cover)
                        res["records"].append(rec)
            res["cases"] += 1
            res["queries"] += len(qs)
            res["suspect_q"] += sum(1 for q in ship if q["pre"] == 0)
            nontriv = len(set(ts)) > 1 and any(par)
            if nontriv:
                res["nontrivial"].append(crc(par, ts, mode))
            if ship:
                rec = h.record(0, ship)
                rec["mode"] = mode
                res["records"].append(rec)
    return res

"""C18 -- executing abstract behaviours of WorkTreeStatus on a real repository, recording what
happened as trace events, and turning discrepancies into canonical finding signatures."""
from __future__ import annotations

import os
import struct
import traceback

from .c18_lib import DulExec, World, empty_report

FIELDS = ("add", "del", "mod", "unstaged", "untracked")
HEAD_ACTS = {"Checkout", "Switch", "Commit"}
WD_ACTS = {"Checkout", "Switch", "Modify", "Chmod", "Delete", "Create", "Retype", "FileToDir", "DirToFile", "ResetHard", "StashPush", "StashPop"}
TREEID_ACTS = {"Checkout", "Switch", "StageAll"}


# --------------------------------------------------------------------------- index file, read independently
def read_index_file(path: str):
    """Minimal reader of index versions 2/3/4 -> [(path bytes, mode, hex sha, stage)], or None when
    the file is absent.  Raises ValueError on anything it does not understand (the caller then
    asks `git ls-files`)."""
    try:
        with open(path, "rb") as f:
            data = f.read()
    except FileNotFoundError:
        return None
    if data[:4] != b"DIRC":
        raise ValueError("no DIRC signature")
    ver, n = struct.unpack(">II", data[4:12])
    if ver not in (2, 3, 4):
        raise ValueError(f"index version {ver}")
    off, out = 12, []
    prev = b""
    for _ in range(n):
        mode = struct.unpack(">I", data[off + 24:off + 28])[0]
        sha = data[off + 40:off + 60].hex()
        flags = struct.unpack(">H", data[off + 60:off + 62])[0]
        p = off + 62
        if flags & 0x4000:
            if ver < 3:
                raise ValueError("extended flag in v2")
            p += 2
        if ver == 4:
            # prefix compression: offset-varint N, then the NUL-terminated rest; no padding
            c = data[p]
            p += 1
            strip = c & 127
            while c & 128:
                strip += 1
                c = data[p]
                p += 1
                strip = (strip << 7) + (c & 127)
            end = data.index(b"\0", p)
            name = prev[:len(prev) - strip] + data[p:end]
            prev = name
            out.append((name, mode, sha, (flags >> 12) & 3))
            off = end + 1
            continue
        nlen = flags & 0xFFF
        if nlen < 0xFFF:
            name = data[p:p + nlen]
            end = p + nlen
        else:
            end = data.index(b"\0", p)
            name = data[p:end]
        if data[end:end + 1] != b"\0":
            raise ValueError("name not NUL terminated")
        out.append((name, mode, sha, (flags >> 12) & 3))
        off = off + ((end - off + 8) & ~7)
    return out


def observe_index(w: World):
    """-> ({abstract path: cell}, notes).  notes lists anything that is not a plain stage-0 file entry."""
    notes = []
    try:
        ents = read_index_file(os.path.join(w.git_dir, "index"))
    except (ValueError, struct.error, IndexError) as e:
        notes.append(f"index not readable by the minimal reader ({e}); using git ls-files")
        ents = None
        lst = w.git_ls_index(on_copy=True)
        out = {}
        for ap, vs in lst.items():
            for cell, stage in vs:
                if stage:
                    notes.append(f"stage {stage} entry at {ap}")
                out[ap] = cell
        return out, notes
    out = {}
    for name, mode, sha, stage in ents or []:
        ap = w.scheme.apath(name)
        if stage:
            notes.append(f"stage {stage} entry at {ap}")
        if ap in out:
            notes.append(f"duplicate entry at {ap}")
        out[ap] = w._cell_of_blob(mode, sha)
    return out, notes


# --------------------------------------------------------------------------- running a behaviour
def norm_step(s):
    """A step is a dict: act, p, q, cell (kind, cid) or None, tree {path: cell} or None, exp (optional)."""
    return {"act": s["act"], "p": tuple(s.get("p") or ()), "q": tuple(s.get("q") or ()), "cell": tuple(s["cell"]) if s.get("cell") else None,
            "tree": s.get("tree"), "exp": s.get("exp"), "obs": s.get("obs", True)}


def apply_action(w: World, ex, s, wd_before: dict, opts: dict, head: dict | None = None):
    a, p, q, cell = s["act"], s["p"], s["q"], s["cell"]
    if a == "Checkout":
        ex.checkout(s["tree"], opts.get("checkout", "checkout"))
    elif a == "Switch":
        ex.switch(s["tree"], opts.get("switch", "checkout"))
    elif a == "Modify":
        w.edit_modify(p, wd_before[p], cell)
    elif a == "Chmod":
        w.edit_chmod(p, cell)
    elif a == "Delete":
        w.edit_delete(p, prune=opts.get("prune", True))
    elif a == "Create":
        w.edit_create(p, cell)
    elif a == "Retype":
        w.edit_retype(p, cell)
    elif a == "FileToDir":
        w.edit_file_to_dir(p, q, cell)
    elif a == "DirToFile":
        w.edit_dir_to_file(p, cell)
    elif a == "Stage":
        ex.stage(p)
    elif a == "StageAll":
        ex.stage_all()
    elif a == "Unstage":
        how = opts.get("unstage", "unstage")
        if how == "restore" and head is not None and p not in head:
            how = "unstage"     # restore(staged=True) is only defined for paths HEAD has; WorkTree.unstage drops an added path
        ex.unstage(p, how)
    elif a == "RmCached":
        ex.rm_cached(p)
    elif a == "Commit":
        ex.commit()
    elif a == "ResetMixed":
        ex.reset_mixed()
    elif a == "ResetHard":
        ex.reset_hard()
    elif a == "StashPush":
        ex.stash_push(opts.get("stash", "porcelain"))
    elif a == "StashPop":
        ex.stash_pop(opts.get("stash", "porcelain"))
    else:
        raise ValueError(a)


def exc_site(e: BaseException):
    """innermost frame inside the dulwich package: 'dulwich/index.py:_check_entry_for_changes'"""
    site = "?"
    for fr in traceback.extract_tb(e.__traceback__):
        fn = fr.filename.replace("\\", "/")
        if "/dulwich/" in fn and "/harness/" not in fn:
            site = "dulwich/" + fn.split("/dulwich/", 1)[1] + ":" + fr.name
    return site


def execute(w: World, ex, steps, opts: dict):
    """Run the behaviour from the empty repository.  `steps` is a list of steps, or an object with
    .next(head, index, wd) -> step | None that chooses the next step from the *observed* state.
    -> dict(events=[...], done=[steps taken], stop=None | dict(kind, at, ...)).
    Every event holds the observed triple after the step and what status said.  The run stops at
    the first exception of an action, and -- when the step carries the state the specification
    expects (exp) -- at the first step whose observed triple differs from it (what follows would
    only be consequences).  A status call that raises leaves an event without a report."""
    w.reset_empty()
    w.set_config(opts.get("cfg", 0))
    w.perms = opts.get("perms", 0)
    is_dul = isinstance(ex, DulExec)
    head, wd, idx = {}, {}, {}
    events, done = [], []
    stop = None
    git_every = opts.get("git_every", True)
    adaptive = hasattr(steps, "next")
    k = -1
    while True:
        k += 1
        if adaptive:
            raw = steps.next(head, idx, wd)
            if raw is None:
                break
        else:
            if k >= len(steps):
                break
            raw = steps[k]
        s = norm_step(raw)
        if s["act"] == "ResetHard" and s["tree"] is None:
            s["tree"] = dict(head)      # the tree a reset --hard to HEAD has to reproduce
        done.append(s)
        last = adaptive is False and k == len(steps) - 1
        ev = {"act": s["act"], "p": s["p"], "q": s["q"], "cell": s["cell"], "tree": s["tree"], "exp": s["exp"]}
        try:
            apply_action(w, ex, s, wd, opts, head)
        except Exception as e:          # noqa: BLE001 - whatever the entry point raises is the observation
            stop = {"kind": "action", "at": k, "act": s["act"], "exc": type(e).__name__, "msg": str(e)[:300],
                    "site": exc_site(e) if is_dul else "git", "tb": traceback.format_exc()[-1500:]}
            break
        if s["act"] in HEAD_ACTS or k == 0:
            head = w.git_ls_head()
        if s["act"] in WD_ACTS or k == 0:
            wd = w.observe_wd()
        idx, notes = observe_index(w)
        ev.update(h=dict(head), i=idx, w=dict(wd), notes=notes)
        ev["status_exc"] = None
        exp = s["exp"]
        diverged = exp is not None and (exp["h"] != head or exp["i"] != idx or exp["w"] != wd)
        if not s["obs"] and not diverged:
            # a step already observed in another execution of the same transition: act only
            ev["rep"] = None
            events.append(ev)
            continue
        try:
            ev["rep"] = ex.status()
        except Exception as e:          # noqa: BLE001
            ev["rep"] = None
            ev["status_exc"] = {"exc": type(e).__name__, "msg": str(e)[:300], "site": exc_site(e) if is_dul else "git", "tb": traceback.format_exc()[-1500:], "mode": "all"}
        if opts.get("normal", True) and ev["rep"] is not None:
            try:
                ev["norm"] = ex.status_normal()
            except Exception as e:      # noqa: BLE001
                ev["status_exc"] = {"exc": type(e).__name__, "msg": str(e)[:300], "site": exc_site(e) if is_dul else "git", "tb": traceback.format_exc()[-1500:], "mode": "normal"}
        if s["act"] in TREEID_ACTS:
            try:
                ev["tree_id"] = ex.write_tree()
            except Exception as e:      # noqa: BLE001
                ev["tree_id"] = f"raised {type(e).__name__}: {str(e)[:100]}"
            if is_dul and (git_every or last or diverged):
                ev["git_tree_id"] = w.git_write_tree(on_copy=True)
        if is_dul and (git_every or last or diverged):
            ev["git"] = w.git_status(on_copy=True)
        events.append(ev)
        if diverged:
            stop = {"kind": "diverged", "at": k, "act": s["act"]}
            break
    return {"events": events, "done": done, "stop": stop, "opts": opts, "scheme": w.scheme.ident()}


# --------------------------------------------------------------------------- trace (ndjson) form for TLC
def _ents(m: dict):
    out = []
    for p, (k, c) in sorted(m.items()):
        out.append({"p": list(p), "k": k if k in ("F", "X", "L") else "U", "c": c if isinstance(c, int) else 99})
    return out


def _plist(s):
    return [list(p) for p in sorted(s)]


def to_trace(tid: int, run: dict):
    paths = set()
    evs = []
    for ev in run["events"]:
        for m in (ev["h"], ev["i"], ev["w"], ev["tree"] or {}):
            paths.update(m)
        rep = ev["rep"] or empty_report()
        for f in FIELDS:
            paths.update(rep[f])
        if ev.get("git"):
            for f in FIELDS:
                paths.update(ev["git"][f])
        for p, _d in ev.get("norm") or ():
            paths.add(p)
        if ev["p"]:
            paths.add(ev["p"])
        if ev["q"]:
            paths.add(ev["q"])
        k, c = ev["cell"] if ev["cell"] else ("-", 0)
        e = {"act": ev["act"], "p": list(ev["p"]), "q": list(ev["q"]), "k": k, "c": c,
             "t": _ents(ev["tree"]) if ev["tree"] is not None else [],
             "h": _ents(ev["h"]), "i": _ents(ev["i"]), "w": _ents(ev["w"]),
             "hasrep": ev["rep"] is not None, "rep": {f: _plist(rep[f]) for f in FIELDS},
             "hasnorm": ev.get("norm") is not None,
             "norm": [{"p": list(p), "dir": bool(d)} for (p, d) in sorted(ev.get("norm") or ())],
             "hasgit": ev.get("git") is not None,
             "git": {f: _plist((ev.get("git") or empty_report())[f]) for f in FIELDS}}
        evs.append(e)
    return {"tid": tid, "paths": [list(p) for p in sorted(paths)], "ev": evs}


# --------------------------------------------------------------------------- canonical signatures
def cell_pattern(cells):
    """(h, i, w) cells -> 'i=F1 w=X1 h=F1': index, directory, HEAD, with content ids renamed in
    that order of first appearance (so 'i=F1 w=X1' always means: same bytes, other kind)."""
    h, i, w = cells
    ren, out = {}, []
    for name, cell in (("i", i), ("w", w), ("h", h)):
        if not cell or cell[0] == "-":
            out.append(f"{name}=-")
            continue
        k, c = cell
        if c not in ren:
            ren[c] = len(ren) + 1
        out.append(f"{name}={k}{ren[c]}")
    return " ".join(out)


def path_flags(p, i: dict, w: dict):
    """what the file system holds where the path should be (decides which code path status takes)"""
    fl = []
    below = sorted({w[q][0] for q in w if len(q) > len(p) and q[:len(p)] == p})
    if below:
        fl.append("wd-dir(" + "".join(below) + ")")
    if any(len(q) < len(p) and p[:len(q)] == q for q in w):
        fl.append("below-wd-file")
    if any(len(q) > len(p) and q[:len(p)] == p for q in i):
        fl.append("index-dir")
    if any(len(q) < len(p) and p[:len(q)] == q for q in i):
        fl.append("below-index-file")
    return ",".join(fl)


def diff_signature(clause: str, field: str, sign: str, p, h: dict, i: dict, w: dict):
    pat = cell_pattern((h.get(p), i.get(p), w.get(p)))
    fl = path_flags(p, i, w)
    return f"{clause}.{field}{sign}|{pat}" + (f" [{fl}]" if fl else "")


def transition_classes(t1: dict, t2: dict):
    """what changes type between two trees, at every level: 'D>F' (a directory becomes a file),
    'F>D', 'L>F', '->D', ... (F = regular file of either mode, L = link, D = directory, - = absent)"""
    def nodes(t):
        out = {}
        for p, (k, _c) in t.items():
            out[p] = "L" if k == "L" else "F"
            for n in range(1, len(p)):
                out[p[:n]] = "D"
        return out
    n1, n2 = nodes(t1), nodes(t2)
    out = set()
    for p in set(n1) | set(n2):
        a, b = n1.get(p, "-"), n2.get(p, "-")
        if a != b:
            out.add(f"{a}>{b}")
    return ",".join(sorted(out)) or "none"


def state_flags(i: dict, w: dict):
    """coarse shape of the (index, directory) relation at the moment something raised"""
    fl = set()
    for p in i:
        if p in w:
            continue
        if any(len(q) > len(p) and q[:len(p)] == p for q in w):
            fl.add("tracked-path-is-wd-dir")
        elif any(len(q) < len(p) and p[:len(q)] == q for q in w):
            fl.add("tracked-path-below-wd-file")
    return ",".join(sorted(fl)) or "plain"

"""C19 helpers: drivers of the real dulwich framing code, outcome normalisation, leaf parsing."""
from __future__ import annotations

import json
import os
from io import BytesIO

from . import tlc

P = "dulwich/protocol.py"


# --------------------------------------------------------------------------- outcomes
def outcome(fn, *a):
    """Run fn, normalise: ("ok", value) | ("hangup",) | ("proterr", msg) | ("crash", "ExcType: msg")."""
    from dulwich.errors import GitProtocolError, HangupException
    try:
        return ("ok", fn(*a))
    except HangupException:
        return ("hangup",)
    except GitProtocolError as e:
        return ("proterr", str(e)[:80])
    except BaseException as e:  # noqa: BLE001 - every other exception is what TotalDecoder forbids
        if isinstance(e, (KeyboardInterrupt, SystemExit, MemoryError)):
            raise
        return ("crash", f"{type(e).__name__}: {str(e)[:60]}")


def okind(o):
    return o[0] if o[0] != "crash" else "crash:" + o[1].split(":")[0]


def b(seq) -> bytes:
    return bytes(seq)


# --------------------------------------------------------------------------- transports
class Wire:
    """Socket stand-in: recv(n) returns the next scripted number of bytes (never more than n).

    chunks: iterable of chunk sizes (a partition of the stream); when a chunk is larger than what
    is asked, the rest of it stays for the next call.  log: [(asked, returned)]."""

    def __init__(self, data: bytes, chunks=None, strict=None):
        self.data, self.pos = data, 0
        self.chunks = list(chunks) if chunks is not None else None
        self.ci, self.left = 0, 0
        self.log = []
        self.strict = strict      # list of (asked, k) expected exactly (spec -> code replay)
        self.shape = []           # deviations from `strict`

    def recv(self, n: int) -> bytes:
        if n <= 0:                     # a socket returns b"" at once; no step of any model, never a chunk consumed
            self.shape.append(f"_recv({n}) called")
            return b""
        if self.strict is not None:
            i = len(self.log)
            if i < len(self.strict):
                asked, k = self.strict[i]
                if asked != n:
                    self.shape.append(f"_recv call {i}: asked {n}, model {asked}")
                k = min(k, n)
                if k <= 0 and self.pos < len(self.data):      # never a premature end of stream
                    self.shape.append(f"_recv call {i}: model is at end of stream, {len(self.data) - self.pos} bytes remain")
                    k = min(n, len(self.data) - self.pos)
            else:
                self.shape.append(f"_recv call {i}: not in the model's behaviour (asked {n})")
                k = min(n, len(self.data) - self.pos)
        elif self.chunks is None:
            k = n
        else:
            if self.left == 0 and self.ci < len(self.chunks):
                self.left = self.chunks[self.ci]
                self.ci += 1
            k = min(n, self.left) if self.left else n
            self.left -= min(k, self.left)
        out = self.data[self.pos:self.pos + max(k, 0)]
        self.pos += len(out)
        self.log.append((n, len(out)))
        return out


def rprotocol(wire: Wire, rbufsize=None):
    from dulwich.protocol import ReceivableProtocol
    sink = []
    kw = {} if rbufsize is None else {"rbufsize": rbufsize}
    p = ReceivableProtocol(wire.recv, sink.append, **kw)
    p._c19_sink = sink
    return p


def buffered(p) -> int | None:
    """Unread bytes in ReceivableProtocol._rbuf (None if the attribute is gone: shape only)."""
    rb = getattr(p, "_rbuf", None)
    if rb is None:
        return None
    try:
        return len(rb.getvalue()) - rb.tell()
    except Exception:  # noqa: BLE001
        return None


def read_all_pkts(proto, limit=10000):
    """read_pkt_line until something other than a line comes back. -> (list of payload|None, end outcome)"""
    out = []
    for _ in range(limit):
        o = outcome(proto.read_pkt_line)
        if o[0] != "ok":
            return out, o
        out.append(o[1])
    return out, ("crash", "Loop: no end of stream")


# --------------------------------------------------------------------------- TLC leaves
def leaves(res):
    """Objects printed by EmitLeaf (ToJson inside PrintT: one quoted JSON string per line)."""
    out = []
    for line in res.output.splitlines():
        if line.startswith('"{'):
            out.append(json.loads(json.loads(line)))
    return out


def write_cfg(path, constants, invariants, spec="Spec"):
    tlc.write_cfg(path, spec=spec, constants=constants, invariants=invariants)
    return path


# --------------------------------------------------------------------------- independent frame splitter
def split_frames(data: bytes):
    """Minimal independent pkt-line splitter used only as a projection of bytes the real writers
    emitted: -> list of (prefix bytes, payload bytes | None) or raises ValueError."""
    out, i = [], 0
    while i < len(data):
        pre = data[i:i + 4]
        if len(pre) < 4 or any(c not in b"0123456789abcdefABCDEF" for c in pre):
            raise ValueError(f"bad prefix {pre!r} at {i}")
        n = int(pre, 16)
        if n < 4:
            if n == 3:
                raise ValueError("length 3")
            out.append((pre, None))
            i += 4
            continue
        if i + n > len(data):
            raise ValueError("short payload")
        out.append((pre, data[i + 4:i + n]))
        i += n
    return out


class RecHash:
    """hashlib-like object that records what it is fed (the observable of trailer tracking)."""
    instances: list = []

    def __init__(self, hs=20, real=None):
        self.fed = bytearray()
        self.hs = hs
        self.real = real() if real else None
        RecHash.instances.append(self)

    def update(self, data):
        self.fed += bytes(data)
        if self.real:
            self.real.update(data)

    def digest(self):
        if self.real:
            return self.real.digest()
        import hashlib
        return hashlib.sha1(bytes(self.fed)).digest()[:self.hs]

    def hexdigest(self):
        return self.digest().hex()

    def copy(self):
        c = RecHash(self.hs)
        c.fed = bytearray(self.fed)
        c.real = self.real.copy() if self.real else None
        return c


def git_env(home):
    e = dict(os.environ)
    e.update({"HOME": home, "GIT_CONFIG_NOSYSTEM": "1", "GIT_AUTHOR_NAME": "a", "GIT_AUTHOR_EMAIL": "a@b",
              "GIT_COMMITTER_NAME": "a", "GIT_COMMITTER_EMAIL": "a@b", "GIT_AUTHOR_DATE": "1700000000 +0000",
              "GIT_COMMITTER_DATE": "1700000000 +0000", "LC_ALL": "C"})
    e.pop("GIT_DIR", None)
    return e

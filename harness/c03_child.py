"""C03 worker: runs the real delta code in a sandboxed child interpreter.

    /venv/bin/python harness/c03_child.py <job.json>

job = {"mode": "py" | "rs", "kind": ..., "out": path, ...}.  mode "rs": dulwich._pack is the
extension freshly built from the working tree; "py": the extension is blocked (pure Python).
The child only *observes*: it reports what the real functions returned; verdicts are the
parent's (TLC's) business.  The one exception is kind "dump", where the expected answer computed
by TLC is part of the input (state dump of DeltaEnum) and only disagreements are reported.

Observation of one decoder call:  {"k": "bytes", "len", "sha", "hex" (small outputs)}
  | {"k": "delta-error"} | {"k": "exception"|"panic", "cls", "msg"} | {"k": "killed", "sig"}
plus "rss_kb" (growth of ru_maxrss over the call) and "ms".  Cases flagged "iso" run in a forked
grandchild, so that an abort is observed (not suffered) and ru_maxrss is per case.  The address
space is limited (RLIMIT_AS) so that an absurd allocation fails instead of being granted lazily.
"""
from __future__ import annotations

import json
import os
import resource
import sys
import time

HERE = os.path.dirname(os.path.abspath(__file__))
sys.path.insert(0, os.path.dirname(HERE))

AS_LIMIT = 2 << 30
SMALL = 512


def maxrss():
    return resource.getrusage(resource.RUSAGE_SELF).ru_maxrss


def setup(mode):
    from harness import rustext
    from harness.core import REPO
    sys.path.insert(0, REPO)
    rustext.install(mode)
    import dulwich
    import dulwich.pack as P
    from dulwich.errors import ApplyDeltaError
    where = os.path.realpath(os.path.dirname(os.path.dirname(dulwich.__file__)))
    if where != os.path.realpath(REPO):
        raise SystemExit(f"worker imported dulwich from {where}, expected {REPO}")
    ext = getattr(P.apply_delta, "__module__", "") == "dulwich._pack"
    if ext != (mode == "rs"):
        raise SystemExit(f"mode {mode}: apply_delta comes from {P.apply_delta.__module__}")
    if mode == "py" and P.create_delta is not P._create_delta_py:
        raise SystemExit("mode py: create_delta is not the pure-Python encoder")
    return P, ApplyDeltaError


def decode_obs(P, ADE, base, delta):
    """Call the real apply_delta; never raises."""
    t0 = time.perf_counter()
    r0 = maxrss()
    try:
        chunks = P.apply_delta(base, delta)
        out = b"".join(chunks)
        obs = {"k": "bytes", "out": out}
    except ADE:
        obs = {"k": "delta-error"}
    except BaseException as e:  # noqa: BLE001 - anything else is an observation
        name = type(e).__name__
        obs = {"k": "panic" if name == "PanicException" else "exception", "cls": name, "msg": str(e)[:200]}
    obs["rss_kb"] = maxrss() - r0
    obs["ms"] = round((time.perf_counter() - t0) * 1000, 2)
    return obs


def encode_obs(P, base, target):
    t0 = time.perf_counter()
    try:
        d = b"".join(P.create_delta(base, target))
        obs = {"k": "bytes", "out": d}
    except BaseException as e:  # noqa: BLE001
        name = type(e).__name__
        obs = {"k": "panic" if name == "PanicException" else "exception", "cls": name, "msg": str(e)[:200]}
    obs["ms"] = round((time.perf_counter() - t0) * 1000, 2)
    return obs


def pack_out(obs, keep_hex=SMALL):
    """Replace raw output bytes by len/sha (+hex when small or asked for)."""
    import hashlib
    out = obs.pop("out", None)
    if out is not None:
        obs["len"] = len(out)
        obs["sha"] = hashlib.sha1(out).hexdigest()
        if len(out) <= keep_hex:
            obs["hex"] = out.hex()
    return obs


def isolated(fn, keep_hex=SMALL):
    """Run fn() in a forked grandchild; a death by signal becomes an observation."""
    r, w = os.pipe()
    sys.stdout.flush()
    pid = os.fork()
    if pid == 0:
        try:
            os.close(r)
            payload = json.dumps(pack_out(fn(), keep_hex)).encode()
            while payload:
                n = os.write(w, payload)
                payload = payload[n:]
        finally:
            os._exit(0)
    os.close(w)
    buf = []
    while True:
        b = os.read(r, 1 << 16)
        if not b:
            break
        buf.append(b)
    os.close(r)
    _, status = os.waitpid(pid, 0)
    if os.WIFSIGNALED(status):
        return {"k": "killed", "sig": os.WTERMSIG(status)}
    data = b"".join(buf)
    if not data:
        return {"k": "killed", "sig": 0, "status": status}
    return json.loads(data)


# ---------------------------------------------------------------------------- job kinds
BASES = {1: b"", 2: b"ab", 3: b"abc"}


def job_dump(job, P, ADE):
    """States of DeltaEnum: run apply_delta on every state, compare with TLC's expectation."""
    from harness import c03_data as D
    iso = job.get("iso", False)
    rs = job["mode"] == "rs"
    skip, limit = job.get("skip", 0), job.get("limit")
    prog = os.open(job["progress"], os.O_WRONLY | os.O_CREAT, 0o600)
    n = 0
    nontrivial = 0
    counts = {}
    bad, drift, samples, oks, rejs = [], [], [], [], []
    rss0 = maxrss()
    for st in D.read_dump(job["path"], job["start"], job["end"]):
        idx = n
        n += 1
        if idx < skip:
            continue
        if limit is not None and idx >= skip + limit:
            break
        if not iso and idx % 256 == 0:
            os.pwrite(prog, b"%12d" % idx, 0)
        base = BASES[st["bi"]]
        delta = bytes(st["delta"])
        dst = st["dst"]
        # the extension allocates the declared size: from 2^30 on (5 limbs, the fifth >= 4) the call is
        # made in a forked grandchild straight away instead of being found by bisection after a death
        risky = rs and (len(dst) > 5 or (len(dst) == 5 and dst[4] >= 4))
        if iso or risky:
            obs = isolated(lambda: decode_obs(P, ADE, base, delta))
            out = bytes.fromhex(obs["hex"]) if obs.get("k") == "bytes" and "hex" in obs else None
        else:
            obs = decode_obs(P, ADE, base, delta)
            out = obs.pop("out", None)
        k = obs["k"]
        key = f"{st['st']}/{k}"
        counts[key] = counts.get(key, 0) + 1
        if st["why"] not in ("header", "src-size"):
            nontrivial += 1
        rec = None
        if k == "bytes":
            if out is None or not st["chas"] or out != bytes(st["cout"]):
                rec = "post"
            elif st["st"] != "ok":
                counts["lenient-accept"] = counts.get("lenient-accept", 0) + 1
        elif k == "delta-error":
            if st["st"] == "ok":
                drift.append({"bi": st["bi"], "delta": delta.hex()})
        else:
            rec = k
        if rec:
            if len(bad) < 400:
                o = dict(obs)
                if out is not None:
                    o["hex"] = out.hex()
                bad.append({"idx": idx, "bi": st["bi"], "base": base.hex(), "delta": delta.hex(), "obs": o,
                            "st": st["st"], "why": st["why"], "dst": list(st["dst"]), "chas": st["chas"],
                            "cout": bytes(st["cout"]).hex()})
            else:
                counts["bad-not-listed"] = counts.get("bad-not-listed", 0) + 1
        if job.get("third") and len(delta) >= 4 and st["why"] not in ("header", "src-size"):
            # material for the comparison of the reference decoder with C git (parent's business)
            if st["st"] == "ok":
                if len(oks) < 20000:
                    oks.append([st["bi"], delta.hex(), bytes(st["rout"]).hex()])
            elif idx % job["third"] == 0 and len(rejs) < 400:
                rejs.append([st["bi"], delta.hex(), st["why"]])
        if rec:
            pass
        elif st["st"] == "ok" and len(samples) < 3 and len(delta) >= 4:
            samples.append({"base": base.hex(), "delta": delta.hex(), "out": out.hex() if out is not None else None})
    os.pwrite(prog, b"%12d" % n, 0)
    os.close(prog)
    return {"n": n, "skip": skip, "nontrivial": nontrivial, "counts": counts, "bad": bad, "drift": drift[:50], "ndrift": len(drift), "samples": samples, "oks": oks, "rejs": rejs,
            "rss_kb": maxrss() - rss0}


def load_case(c):
    from harness import c03_data as D
    base = D.pattern_base(c["blen"]) if "blen" in c and "base" not in c else D.blob(c["base"])
    delta = bytes.fromhex(c["delta"]) if isinstance(c["delta"], str) else D.blob(c["delta"])
    return base, delta


def job_cases(job, P, ADE):
    """Decode cases: {"id", "blen"|"base" (recipe), "delta" (hex|recipe), "iso": bool}."""
    res = []
    with open(job["path"]) as f:
        cases = [json.loads(line) for line in f if line.strip()]
    for c in cases:
        base, delta = load_case(c)
        keep = c.get("keep_hex", SMALL)
        if c.get("iso"):
            obs = isolated(lambda: decode_obs(P, ADE, base, delta), keep)
        else:
            obs = pack_out(decode_obs(P, ADE, base, delta), keep)
        obs["id"] = c["id"]
        res.append(obs)
    return {"obs": res}


def job_pack(job, P, ADE):
    """The decoder as the pack machinery calls it: a two-object pack file (base of the given type,
    OFS_DELTA entry carrying the delta) is resolved by dulwich.pack.UnpackedObjectIterator
    (DeltaChainIterator._resolve_object -> apply_delta)."""
    from dulwich.object_format import DEFAULT_OBJECT_FORMAT
    from harness import c03_data as D
    res = []
    d = os.path.dirname(job["out"])
    with open(job["path"]) as f:
        cases = [json.loads(line) for line in f if line.strip()]
    for c in cases:
        base, delta = load_case(c)
        data, offs = D.write_pack([("obj", c["type"], base), ("ofs_delta", 0, delta)])
        path = os.path.join(d, "case.pack")
        with open(path, "wb") as f:
            f.write(data)

        def fn():
            t0 = time.perf_counter()
            r0 = maxrss()
            try:
                pd = P.PackData(path, DEFAULT_OBJECT_FORMAT)
                try:
                    got = {u.offset: b"".join(u.obj_chunks) for u in P.UnpackedObjectIterator.for_pack_data(pd)}
                finally:
                    pd.close()
                obs = {"k": "bytes", "out": got[offs[1]], "base_ok": got[offs[0]] == base}
            except ADE as e:
                obs = {"k": "delta-error", "msg": str(e)[:100]}
            except BaseException as e:  # noqa: BLE001
                name = type(e).__name__
                obs = {"k": "panic" if name == "PanicException" else "exception", "cls": name, "msg": str(e)[:200]}
            obs["rss_kb"] = maxrss() - r0
            obs["ms"] = round((time.perf_counter() - t0) * 1000, 2)
            return obs

        obs = isolated(fn, 1 << 16) if c.get("iso") else pack_out(fn(), 1 << 16)
        obs["id"] = c["id"]
        res.append(obs)
    return {"obs": res}


def job_deltify(job, P, ADE):
    """The encoder as the pack writer uses it (deltify=True): what deltas_from_sorted_objects /
    deltify_pack_objects record, and what write_pack_objects writes, for a small family of blobs.
    Observed per case: the (object id, base id | None, payload) triples, resp. the pack bytes with
    the writer's own id -> offset table."""
    import io
    from dulwich.object_format import DEFAULT_OBJECT_FORMAT
    from dulwich.objects import Blob
    from harness import c03_data as D
    res = []
    with open(job["path"]) as f:
        cases = [json.loads(line) for line in f if line.strip()]
    for c in cases:
        blobs = [Blob.from_string(D.blob(r)) for r in c["blobs"]]
        w = c.get("window")
        try:
            if c["via"] == "write":
                buf = io.BytesIO()
                entries, _ = P.write_pack_objects(buf.write, [(b, b"f") for b in blobs], DEFAULT_OBJECT_FORMAT,
                                                  deltify=True, delta_window_size=w)
                obs = {"k": "pack", "pack": buf.getvalue().hex(),
                       "offsets": {(k.hex() if len(k) == 20 else k.decode()): v[0] for k, v in entries.items()}}
            else:
                if c["via"] == "sorted":
                    it = P.deltas_from_sorted_objects(iter([(b, None) for b in blobs]), window_size=w)
                else:
                    it = P.deltify_pack_objects(iter([(b, b"f") for b in blobs]), window_size=w)
                obs = {"k": "entries", "entries": [[u.sha().hex(), u.delta_base.hex() if u.delta_base else None,
                                                    b"".join(u.decomp_chunks).hex(), u.decomp_len] for u in it]}
        except BaseException as e:  # noqa: BLE001
            name = type(e).__name__
            obs = {"k": "panic" if name == "PanicException" else "exception", "cls": name, "msg": str(e)[:200]}
        obs["id"] = c["id"]
        res.append(obs)
    return {"obs": res}


def job_encode(job, P, ADE):
    """Encode cases: {"id", "base": recipe, "target": recipe}; each in a forked grandchild when "iso"."""
    from harness import c03_data as D
    res = []
    with open(job["path"]) as f:
        cases = [json.loads(line) for line in f if line.strip()]
    for c in cases:
        base, target = D.blob(c["base"]), D.blob(c["target"])
        if c.get("iso"):
            obs = isolated(lambda: encode_obs(P, base, target), 1 << 30)
        else:
            obs = pack_out(encode_obs(P, base, target), 1 << 30)
        obs["id"] = c["id"]
        res.append(obs)
    return {"obs": res}


def job_prims(job, P, ADE):
    """The encoder primitives of dulwich/pack.py (same code in both modes)."""
    ops = []
    for off, n in job["ops"]:
        try:
            ops.append({"off": off, "n": n, "hex": P._encode_copy_operation(off, n).hex()})
        except BaseException as e:  # noqa: BLE001
            ops.append({"off": off, "n": n, "exc": type(e).__name__})
    sizes = []
    for n in job["sizes"]:
        try:
            sizes.append({"n": str(n), "hex": P._delta_encode_size(int(n)).hex()})
        except BaseException as e:  # noqa: BLE001
            sizes.append({"n": str(n), "exc": type(e).__name__})
    return {"ops": ops, "sizes": sizes}


def main():
    with open(sys.argv[1]) as f:
        job = json.load(f)
    resource.setrlimit(resource.RLIMIT_AS, (AS_LIMIT, AS_LIMIT))
    resource.setrlimit(resource.RLIMIT_CORE, (0, 0))
    P, ADE = setup(job["mode"])
    fn = {"dump": job_dump, "cases": job_cases, "pack": job_pack, "deltify": job_deltify, "encode": job_encode, "prims": job_prims}[job["kind"]]
    out = fn(job, P, ADE)
    out["mode"] = job["mode"]
    tmp = job["out"] + ".tmp"
    with open(tmp, "w") as f:
        json.dump(out, f)
    os.replace(tmp, job["out"])


if __name__ == "__main__":
    main()

"""C15: generators of the larger inputs whose executions are recorded and judged by TLC
(EquivTrace).  All randomness from the rng handed in (ctx.rng) / hypothesis seeded with ctx.seed."""
from __future__ import annotations

from . import c15_lib as L

STD_MODES = [b"100644", b"100755", b"120000", b"160000", b"40000"]
ODD_MODES = [b"040000", b"0100644", b"+100644", b"-100644", b"1_00644", b"0o100644", b"100644\n", b"\t40000", b"100648",
             b"", b"0", b"00", b"7", b"37777777777", b"40000000000", b"777777777777777", b"1e5", b"\xff", b"40000\x00"]
NAME_BYTES = [b"a", b"b", b"c", b".", b"-", b"0", b"_", b" ", b"/", b"\xc3\xa9", b"\xff", b"\n", b"x", b"README"]


def hyp_binary(seed, n, max_size):
    """n byte strings from hypothesis (derandomised by seed)."""
    from hypothesis import HealthCheck, Phase, given, settings
    from hypothesis import seed as hseed
    from hypothesis import strategies as st
    out = []

    @hseed(seed)
    @settings(max_examples=n, database=None, deadline=None, phases=[Phase.generate], suppress_health_check=list(HealthCheck))
    @given(st.binary(max_size=max_size))
    def collect(b):
        out.append(b)

    collect()
    return out


def mutate_bytes(rng, d: bytes, specials=(0x00, 0x20, 0x30, 0x37, 0x38, 0x2B, 0x2D, 0x5F, 0xFF)) -> bytes:
    d = bytearray(d)
    for _ in range(rng.choice((1, 1, 1, 2, 3))):
        op = rng.randrange(6)
        pos = rng.randrange(len(d) + 1)
        sp = rng.choice(list(specials) + [rng.randrange(256)])
        if op == 0 and d:
            d[pos % len(d)] ^= 1 << rng.randrange(8)
        elif op == 1 and d:
            d[pos % len(d)] = sp
        elif op == 2:
            d.insert(pos, sp)
        elif op == 3 and d:
            del d[pos % len(d)]
        elif op == 4:
            d = d[:pos]
        elif op == 5 and d:
            a = rng.randrange(len(d))
            b = min(len(d), a + rng.randrange(1, 30))
            d[pos:pos] = d[a:b]
    return bytes(d)


def tree_payloads(rng, seed, n):
    """[text, sha_len]: serialised trees with 20/32-byte ids (random id bytes, so NUL and SP occur
    inside ids), odd names and mode spellings, then mutated; plus raw hypothesis byte strings."""
    out = []
    raw = hyp_binary(seed, max(n // 6, 5), 80)
    for b in raw:
        out.append([b, rng.choice((20, 32))])
    while len(out) < n:
        sha_len = rng.choice((20, 20, 32))
        parts = []
        for _ in range(rng.choice((0, 1, 1, 2, 3, 5, 8))):
            mode = rng.choice(STD_MODES) if rng.random() < 0.8 else rng.choice(ODD_MODES)
            name = b"".join(rng.choice(NAME_BYTES) for _ in range(rng.choice((0, 1, 1, 2, 3))))
            name = name.replace(b"\0", b"")
            sha = rng.randbytes(sha_len) if rng.random() < 0.8 else bytes([rng.choice((0, 32, 48, 255))]) * sha_len
            parts.append(mode + b" " + name + b"\0" + sha)
        text = b"".join(parts)
        r = rng.random()
        if r < 0.45:
            text = mutate_bytes(rng, text)
        call_len = sha_len if rng.random() < 0.85 else (52 - sha_len)
        out.append([text, call_len])
    return [[t.hex(), n_] for t, n_ in out[:n]]


def item_dicts(rng, n):
    names_alpha = [b"a", b"b", b".", b"-", b"0", b"\x01", b"\xff", b"A", b"~"]
    out = []
    for _ in range(n):
        k = rng.choice((0, 1, 2, 3, 5, 8, 12))
        names = []
        seen = set()
        for _ in range(k * 3):
            nm = b"".join(rng.choice(names_alpha) for _ in range(rng.choice((1, 1, 2, 2, 3, 4))))
            if rng.random() < 0.5 and names:
                nm = rng.choice(names)[0] + rng.choice(names_alpha)      # extension of an existing name
            if nm not in seen:
                seen.add(nm)
                names.append((nm,))
            if len(names) >= k:
                break
        items = [[list(nm[0]), rng.choice(("F", "T", "T", "X", "L", "G"))] for nm in names]
        out.append([items, rng.randrange(2)])
    return out


def delta_pairs(rng, seed, n):
    """[base hex, target hex] -- texts with line edits, binary with slices, empty / identical."""
    raw = hyp_binary(seed + 1, max(n // 4, 4), 120)
    out = [[b"", b""], [b"", b"x"], [b"x", b""], [b"same", b"same"]]
    for i, b in enumerate(raw):
        t = raw[(i * 7 + 3) % len(raw)]
        out.append([b, b[: len(b) // 2] + t[:40] + b[len(b) // 2:]])
    words = [b"alpha\n", b"beta\n", b"gamma delta\n", b"\n", b"x" * 70 + b"\n", b"\x00\x01\x02", b"end"]
    while len(out) < n:
        base = b"".join(rng.choice(words) for _ in range(rng.randrange(0, 14)))
        lines = base.splitlines(True)
        for _ in range(rng.randrange(0, 4)):
            pos = rng.randrange(len(lines) + 1)
            op = rng.randrange(3)
            if op == 0:
                lines[pos:pos] = [rng.choice(words)]
            elif op == 1 and lines:
                del lines[pos % len(lines)]
            elif lines:
                lines[pos % len(lines)] = rng.randbytes(rng.randrange(1, 20))
        out.append([base, b"".join(lines)])
    return [[b.hex(), t.hex()] for b, t in out[:n] if len(b) <= 300 and len(t) <= 300]


def big_pairs(rng, quick):
    """(name, base, target): pairs whose deltas need copy sizes of 2 bytes, split copies above 64 KiB,
    offsets of 2 and 3 bytes, inserts above 127 bytes -- too large for TLC's byte-level decoder; judged
    by all four encoder x decoder pairings of the real code against the target."""
    K = 1024
    r70 = rng.randbytes(70 * K)
    out = [
        ("identical-70k", r70, r70),
        ("identical-1000", r70[:1000], r70[:1000]),
        ("common-run-300", b"<" + r70[:300] + b">", b"[" + r70[:300] + b"]"),
        ("common-run-65535", b"\x00" * 65535 + b"\x07", b"\x09" + b"\x00" * 65535),
        ("common-run-65536", b"\x00" * 65536 + b"\x07", b"\x09" + b"\x00" * 65536),
        ("common-run-65537", b"\x00" * 65537 + b"\x07", b"\x09" + b"\x00" * 65537),
        ("insert-300", b"A" * 10, rng.randbytes(300)),
        ("insert-127", b"A" * 10, rng.randbytes(127)),
        ("insert-128", b"A" * 10, rng.randbytes(128)),
        ("offset-2-bytes", b"\x00" * 300 + r70[:200], r70[:200]),
        ("offset-3-bytes", b"\x00" * (66 * K) + r70[:200], r70[:200]),
        ("tail-of-70k", r70, r70[-500:]),
        ("middle-edit-zero-runs", b"\x00" * (66 * K) + b"abc" + b"\x01" * (66 * K), b"\x00" * (66 * K) + b"xyzw" + b"\x01" * (66 * K)),
    ]
    if not quick:
        out.append(("middle-edit-130k", r70 + b"0123456789" + r70[::-1], r70 + b"abcdefghijkl" + r70[::-1]))
    return out


def mutate_delta(rng, d: bytes) -> bytes:
    if rng.random() < 0.2:
        # widen a size header with continuation bytes
        k = rng.randrange(1, 11)
        return bytes([0x80 | rng.randrange(128)] * k) + d if rng.random() < 0.5 else d[:1] + bytes([0x80] * k) + d[1:]
    return mutate_bytes(rng, d, specials=(0x00, 0x01, 0x7F, 0x80, 0x81, 0x90, 0xB0, 0xFF))


def bisect_cases(rng, n):
    out = []
    for _ in range(n):
        k = rng.choice((0, 1, 2, 3, 5, 8, 17, 40))
        table = sorted(rng.choice(range(2, 250, 2)) for _ in range(k))
        if rng.random() < 0.3 and table:
            table = sorted(table + [rng.choice(table)])          # duplicates
        m = len(table)
        lo = rng.choice((0, 0, 0, rng.randrange(m + 1)))
        hi = rng.choice((m - 1, m - 1, m - 1, m, rng.randrange(-1, m + 1)))
        key = rng.choice(table) if table and rng.random() < 0.6 else rng.randrange(1, 251)
        out.append([table, lo, hi, key, rng.choice((0, 0, 0, 1, 2, 3)), rng.choice((20, 32))])
    return out


def merge_cases(rng, n):
    alpha = [b"a", b"b", b".", b"-", b"0", b"A"]

    def tree():
        if rng.random() < 0.1:
            return [0, []]
        names = set()
        for _ in range(rng.choice((0, 1, 2, 4, 8))):
            names.add(b"".join(rng.choice(alpha) for _ in range(rng.choice((1, 1, 2, 3)))))
        return [1, [[list(nm), rng.choice(("F", "T", "X", "L", "G")), rng.choice(("x", "y"))] for nm in sorted(names)]]
    out = []
    for _ in range(n):
        t1 = tree()
        t2 = tree()
        if rng.random() < 0.5 and t1[0] and t2[0]:
            # share names (same or changed cell)
            have = {bytes(e[0]) for e in t2[1]}
            for e in t1[1]:
                if rng.random() < 0.6 and bytes(e[0]) not in have:
                    t2[1].append([e[0], e[1] if rng.random() < 0.5 else "F", e[2] if rng.random() < 0.5 else "y"])
            t2[1].sort(key=lambda e: bytes(e[0]))
        out.append([rng.randrange(3), t1, t2])
    return out


def blob_contents(rng, n):
    alpha = [b"x", b"y", b"ab", b" ", b"\x00", b"\r"]
    out = [b"", b"\n", b"x" * 64, b"x" * 64 + b"\n", b"x" * 128 + b"x", b"a\r\nb\r\n", b"x" * 63 + b"\r\n" + b"y"]
    while len(out) < n:
        lines = []
        pool = [b"".join(rng.choice(alpha) for _ in range(rng.choice((0, 1, 5, 30, 63, 64, 65, 130)))) for _ in range(4)]
        for _ in range(rng.randrange(0, 12)):
            lines.append(rng.choice(pool) + (b"\n" if rng.random() < 0.9 else b""))
        out.append(b"".join(lines)[:700])
    return [[c.hex()] for c in out[:n]]


TAG_OF = {v: k for k, v in L.MODE.items()}

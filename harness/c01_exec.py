"""C01 child process: executes specification cases on the real dulwich objects.

Run as  python -m harness.c01_exec <job.json>  ; the job names the implementation mode
("py": pure Python tree codec, "rs": freshly built Rust extension), the TLC dump, the shard, and
what to do.  Results (counts, failures, samples) are written to job["out"] as JSON.  This is the
only C01 module that imports dulwich; it compares real results with the specification's expected
bytes (rendered from TLC's token sequences) and with hashlib, nothing else.
"""
from __future__ import annotations

import json
import random
import sys
import traceback


def impl_exc(e):
    """True if the exception was raised inside dulwich (a finding), False if it comes from the harness
    itself (machinery failure: re-raised by the callers)."""
    tb = e.__traceback__
    last = None
    while tb is not None:
        last = tb
        tb = tb.tb_next
    fn = last.tb_frame.f_code.co_filename if last else ""
    return "/dulwich/" in fn.replace("\\", "/") and "/harness/" not in fn


def _install(mode):
    from . import rustext
    rustext.install(mode)


# ----------------------------------------------------------------------------- building / reading real objects
def mk_tag(F, order=None):
    from dulwich.objects import Tag, object_class
    t = Tag()
    attrs = ["object", "name", "tagger", "tag_time", "tag_timezone", "message", "signature"]
    if order:
        order.shuffle(attrs)
    for a in attrs:
        set_attr(t, "tag", a, F)
    t._tag_timezone_neg_utc = F["tag_timezone_neg_utc"]
    return t


def mk_commit(F, order=None):
    from dulwich.objects import Commit
    c = Commit()
    attrs = ["tree", "parents", "author", "author_time", "author_timezone", "committer", "commit_time",
             "commit_timezone", "encoding", "mergetag", "gpgsig", "message", "extra"]
    if order:
        order.shuffle(attrs)
    for a in attrs:
        set_attr(c, "commit", a, F)
    c._author_timezone_neg_utc = F["author_timezone_neg_utc"]
    c._commit_timezone_neg_utc = F["commit_timezone_neg_utc"]
    return c


def set_attr(o, kind, a, F):
    """Set one public attribute of a real object from the concrete field dict F."""
    from dulwich.objects import object_class
    if kind == "tag" and a == "object":
        tname, hx = F["object"]
        o.object = (object_class(tname.encode()), hx)
    elif a == "mergetag":
        o.mergetag = [mk_tag(t) for t in F["mergetag"]]
    elif a == "extra":
        # no public setter exists; dulwich's own callers assign _extra and rely on another setter
        o._extra = list(F["extra"])
        o._needs_serialization = True
    elif a.endswith("_neg_utc"):
        setattr(o, "_" + a, F[a])
        base = a[:-len("_neg_utc")]
        setattr(o, base, getattr(o, base))          # public setter: marks the object dirty
    elif a == "parents":
        o.parents = list(F["parents"])
    else:
        setattr(o, a, F[a])


def rd_tag(t):
    cls, hx = t.object
    return {"object": (cls.type_name.decode(), hx), "name": t.name, "tagger": t.tagger,
            "tag_time": t.tag_time, "tag_timezone": t.tag_timezone,
            "tag_timezone_neg_utc": bool(t._tag_timezone_neg_utc),
            "message": t.message, "signature": t.signature}


def rd_commit(c):
    return {"tree": c.tree, "parents": list(c.parents), "author": c.author, "author_time": c.author_time,
            "author_timezone": c.author_timezone, "author_timezone_neg_utc": bool(c._author_timezone_neg_utc),
            "committer": c.committer, "commit_time": c.commit_time, "commit_timezone": c.commit_timezone,
            "commit_timezone_neg_utc": bool(c._commit_timezone_neg_utc), "encoding": c.encoding,
            "mergetag": [rd_tag(t) for t in c.mergetag], "extra": [tuple(x) for x in c._extra],
            "gpgsig": c.gpgsig, "message": c.message}


def norm(kind, F):
    """Equivalences of the API that are not distinctions of the object: an absent message and an
    empty message are the same bytes; without a tagger the tag time fields carry no information."""
    F = dict(F)
    F.pop("blank", None)
    if kind in ("commit", "tag"):
        F["message"] = F.get("message") or b""
    if kind == "tag":
        F["signature"] = F.get("signature") or b""
        if not F.get("tagger"):
            F["tagger"] = None
            F["tag_time"] = F["tag_timezone"] = None
            F["tag_timezone_neg_utc"] = False
    if kind == "commit":
        F["gpgsig"] = F.get("gpgsig") or None
        F["encoding"] = F.get("encoding") or None
        F["mergetag"] = [norm("tag", t) for t in F["mergetag"]]
        F["extra"] = [tuple(x) for x in F["extra"]]
        F["parents"] = list(F["parents"])
    return F


def diff_fields(kind, want, got):
    w, g = norm(kind, want), norm(kind, got)
    d = sorted(k for k in w if k != "blank" and w[k] != g.get(k))
    if want.get("blank") is False and got.get("message") is not None:
        d.append("message-absent")          # parsed from an object without blank line: message is None, not b""
    return d


# ----------------------------------------------------------------------------- grammar cases
class Grammar:
    def __init__(self, job):
        from . import c01_lib as L
        self.L = L
        self.job = job
        self.mode = job["mode"]
        self.pools = L.load_pools(job["pools"])
        self.table = {}          # (kind, key) -> toks
        for kind, key, toks in L.read_dump(job["dump"]):
            self.table[(kind, key)] = toks
        self.fail = []
        self.n = {"cases": 0, "builds": 0, "parses": 0, "edits": 0, "ids": 0, "rewrites": 0}
        self.samples = []
        self.psize = {k: [len(self.pools[k][f]) for f in self.pools[k + "Fields"]] for k in ("commit", "tag")}
        self._bytes = {}

    def expected(self, kind, key, algo):
        k = (kind, key, algo)
        b = self._bytes.get(k)
        if b is None:
            b = self._bytes[k] = self.L.render(self.table[(kind, key)], algo)
        return b

    def failure(self, site, clause, kind, key, algo, want=None, got=None, note=""):
        f = {"site": site, "clause": clause, "kind": kind, "key": key, "algo": algo, "mode": self.mode, "note": note}
        if want is not None:
            f["want"] = want.hex() if isinstance(want, bytes) else repr(want)
        if got is not None:
            f["got"] = got.hex() if isinstance(got, bytes) else repr(got)
        self.fail.append(f)

    def fmt(self, algo):
        from dulwich.object_format import SHA1, SHA256
        return SHA1 if algo == "sha1" else SHA256

    def check_ids(self, o, site, kind, key, algo, body, clause="id"):
        """Every way of reading the name: must be the hash of type, length and the expected content."""
        L = self.L
        self.n["ids"] += 1
        want1 = L.H("sha1", kind, body)
        if o.id != want1:
            self.failure(site, clause + ":sha1", kind, key, algo, want1, o.id)
        w = L.H(algo, kind, body)
        g = o.get_id(self.fmt(algo))
        if g != w:
            self.failure(site, clause + ":" + algo, kind, key, algo, w, g)

    # ---- commit / tag
    def run_record(self, kind, key, algo, rng):
        L = self.L
        case = L.case_of(self.pools, kind, key)
        F = (L.commit_fields if kind == "commit" else L.tag_fields)(case, algo)
        mk = mk_commit if kind == "commit" else mk_tag
        rd = rd_commit if kind == "commit" else rd_tag
        cls_name = "Commit" if kind == "commit" else "Tag"
        want = self.expected(kind, key, algo)
        ser_site = f"dulwich/objects.py:{cls_name}._serialize"
        de_site = f"dulwich/objects.py:{cls_name}._deserialize"
        from dulwich.objects import Commit, Tag
        cls = Commit if kind == "commit" else Tag
        # 1. build from field values (two setter orders), serialise, name.  (An object without the
        #    blank line cannot be expressed through the API; it only arises from parsing.)
        for order in ((None, rng) if F["blank"] else ()):
            try:
                o = mk(F, order)
                got = o.as_raw_string()
                self.n["builds"] += 1
                if got != want:
                    self.failure(ser_site, "build-bytes", kind, key, algo, want, got)
                self.check_ids(o, ser_site, kind, key, algo, want, "build-id")
            except Exception as e:  # noqa: BLE001
                if not impl_exc(e):
                    raise
                self.failure(ser_site, f"build-exception:{type(e).__name__}", kind, key, algo, note=str(e)[:200])
        # 2. parse the canonical bytes: fields, name, unchanged re-serialisation
        try:
            o = cls.from_string(want)
            self.n["parses"] += 1
            d = diff_fields(kind, F, rd(o))
            if d:
                self.failure(de_site, "parse-fields:" + ",".join(d), kind, key, algo, note=repr({k: rd(o)[k] for k in d})[:300])
            self.check_ids(o, de_site, kind, key, algo, want, "parse-id")
            o.message = o.message                      # a setter call with the current value forces _serialize
            got = o.as_raw_string()
            if got != want:
                self.failure(ser_site, "reserialise-unchanged", kind, key, algo, want, got)
            self.check_ids(o, ser_site, kind, key, algo, want, "reserialise-id")
        except Exception as e:  # noqa: BLE001
            if not impl_exc(e):
                raise
            self.failure(de_site, f"parse-exception:{type(e).__name__}", kind, key, algo, note=str(e)[:200])
        # 3. every one-field edit whose result is in the enumerated space
        fields = self.pools[kind + "Fields"]
        attrs = L.COMMIT_ATTRS if kind == "commit" else L.TAG_ATTRS
        ix = key.split(",")
        for p, f in enumerate(fields):
            if attrs[f] is None:
                continue
            for j in range(1, self.psize[kind][p] + 1):
                if str(j) == ix[p]:
                    continue
                key2 = ",".join(ix[:p] + [str(j)] + ix[p + 1:])
                if (kind, key2) not in self.table:
                    continue
                want2 = self.expected(kind, key2, algo)
                F2 = (L.commit_fields if kind == "commit" else L.tag_fields)(L.case_of(self.pools, kind, key2), algo)
                clause = f"{f}={j}"
                try:
                    o = cls.from_string(want)
                    o.id                                   # the name has been read (and cached) before the edit
                    for a in attrs[f]:
                        set_attr(o, kind, a, F2)
                    self.n["edits"] += 1
                    self.check_ids(o, ser_site, kind, key, algo, want2, "edit-id:" + clause)
                    got = o.as_raw_string()
                    if got != want2:
                        self.failure(ser_site, "edit-bytes:" + clause, kind, key, algo, want2, got)
                    d = diff_fields(kind, F2, rd(cls.from_string(got)))
                    if d and got == want2:
                        self.failure(de_site, "edit-reparse:" + clause + ":" + ",".join(d), kind, key, algo)
                except Exception as e:  # noqa: BLE001
                    if not impl_exc(e):
                        raise
                    self.failure(ser_site, f"edit-exception:{clause}:{type(e).__name__}", kind, key, algo, note=str(e)[:200])
        # 4. the same edits through a rewriter (object names in a MemoryObjectStore are SHA-1)
        if kind == "commit" and algo == "sha1" and F["blank"]:
            self.run_rewrites(key, algo, want, F)

    # ---- rewriters: a new commit built from an old one, identity except one field (ObjGrammar!Rewrite)
    RW_ATTR = {"message": "message", "author": "author", "committer": "committer", "atime": "author_time",
               "ctime": "commit_time", "atz": "author_timezone", "ctz": "commit_timezone", "encoding": "encoding"}

    def rewrite_store(self, algo):
        from dulwich.object_store import MemoryObjectStore
        from dulwich.objects import ShaFile
        st = getattr(self, "_rw_store", None)
        if st is None:
            st = self._rw_store = MemoryObjectStore()
            for i in (3, 4, 5):                                   # the parents the pool refers to
                k, b = self.L.FIXED[algo][i]
                st.add_object(ShaFile.from_raw_string(self.L.TYPE_NUM[k], b))
        return st

    def run_rewrites(self, key, algo, want, F):
        """filter_branch.CommitFilter.process_commit with a filter that changes exactly one field of
        exactly this commit: the new commit must be the specification's edit of that field."""
        L = self.L
        from dulwich.filter_branch import CommitFilter
        from dulwich.objects import Commit
        site = "dulwich/filter_branch.py:CommitFilter.process_commit"
        fields = self.pools["commitFields"]
        ix = key.split(",")
        case = L.case_of(self.pools, "commit", key)
        st = self.rewrite_store(algo)
        for f in self.pools["rewriterFields"]:
            p = fields.index(f)
            for j in range(1, self.psize["commit"][p] + 1):
                if str(j) == ix[p]:
                    continue
                key2 = ",".join(ix[:p] + [str(j)] + ix[p + 1:])
                if ("commit", key2) not in self.table:
                    continue
                case2 = L.case_of(self.pools, "commit", key2)
                if f in ("atz", "ctz") and (case[f]["negutc"] or case2[f]["negutc"]):
                    continue                                       # ObjGrammar!Rewritable: the filter passes an offset only
                want2 = self.expected("commit", key2, algo)
                F2 = L.commit_fields(case2, algo)
                clause = f"{f}={j}"
                try:
                    old = Commit.from_string(want)
                    st.add_object(old)
                    oid = old.id
                    kw = {}
                    if f == "parents":
                        src = list(F["parents"])
                        kw["parent_filter"] = lambda ps, src=src, new=list(F2["parents"]): new if ps == src else ps
                        if src == []:
                            # parent_filter also sees the (parentless) parents of other commits; here the
                            # commit itself has none, so it is the only one processed
                            pass
                    elif f in ("message", "author", "committer") and (j + p) % 2:
                        a = self.RW_ATTR[f]
                        kw["filter_" + f] = lambda v, old_v=F[a], new=F2[a]: new if v == old_v else None
                    else:
                        a = self.RW_ATTR[f]
                        kw["filter_fn"] = lambda c, oid=oid, a=a, new=F2[a]: {a: new} if c.id == oid else None
                    cf = CommitFilter(st, **kw)
                    nid = cf.process_commit(oid)
                    self.n["rewrites"] = self.n.get("rewrites", 0) + 1
                    if nid is None or nid == oid:
                        self.failure(site, "rewrite-not-made:" + clause, "commit", key, algo, note=repr(nid))
                        continue
                    got = st[nid].as_raw_string()
                    if got != want2:
                        self.failure(site, "rewrite-bytes:" + clause, "commit", key, algo, want2, got)
                    if nid != L.H(algo, "commit", got) or cf.get_mapping().get(oid) != nid:
                        self.failure(site, "rewrite-id:" + clause, "commit", key, algo, L.H(algo, "commit", got), nid)
                except Exception as e:  # noqa: BLE001
                    if not impl_exc(e):
                        raise
                    self.failure(site, f"rewrite-exception:{clause}:{type(e).__name__}", "commit", key, algo, note=str(e)[:200])

    # ---- tree
    def run_tree(self, key, algo, rng):
        L = self.L
        from dulwich.objects import Tree, parse_tree
        fmt = self.fmt(algo)
        ents = L.tree_entries(key, algo)
        want = self.expected("tree", key, algo)
        # in "rs" mode Tree._serialize / _deserialize run on top of the Rust sorted_tree_items / parse_tree
        ser_site = "dulwich/objects.py:Tree._serialize" + ("" if self.mode == "py" else "+crates/objects/src/lib.rs:sorted_tree_items")
        de_site = "dulwich/objects.py:parse_tree" if self.mode == "py" else "crates/objects/src/lib.rs:parse_tree"
        orders = [list(ents), list(reversed(ents))]
        sh = list(ents)
        rng.shuffle(sh)
        orders.append(sh)
        for n, es in enumerate(orders):
            try:
                t = Tree()
                t.object_format = fmt
                for (name, mode, hx) in es:
                    if n == 1:
                        t[name] = (mode, hx)
                    else:
                        t.add(name, mode, hx)
                got = t.as_raw_string()
                self.n["builds"] += 1
                if got != want:
                    self.failure(ser_site, "build-bytes", "tree", key, algo, want, got)
                self.check_ids(t, ser_site, "tree", key, algo, want, "build-id")
                if [tuple(x) for x in t.items()] != ents:
                    self.failure(ser_site, "items-order", "tree", key, algo, note=repr(t.items())[:300])
            except Exception as e:  # noqa: BLE001
                if not impl_exc(e):
                    raise
                self.failure(ser_site, f"build-exception:{type(e).__name__}", "tree", key, algo, note=str(e)[:200])
        try:
            t = Tree.from_raw_string(2, want, object_format=fmt)
            self.n["parses"] += 1
            got = [tuple(x) for x in t.items()]
            if got != ents or {n: v for n, v in t._entries.items()} != {n: (m, h) for (n, m, h) in ents}:
                self.failure(de_site, "parse-fields", "tree", key, algo, note=repr(got)[:300])
            self.check_ids(t, de_site, "tree", key, algo, want, "parse-id")
            got = list(parse_tree(want, fmt.oid_length, strict=True))
            if [tuple(x) for x in got] != ents:
                self.failure(de_site, "parse-fields-strict", "tree", key, algo, note=repr(got)[:300])
        except Exception as e:  # noqa: BLE001
            if not impl_exc(e):
                raise
            self.failure(de_site, f"parse-exception:{type(e).__name__}", "tree", key, algo, note=str(e)[:200])
        # edits: remove each entry; add / replace via the table (entry universe = entries seen in the table)
        have = {(n, m) for (n, m, h) in ents}
        for (name, mode, hx) in ents:
            rest = [e for e in ents if e[0] != name]
            key2 = " ".join(self._ekey(e, algo) for e in rest)
            if ("tree", key2) not in self.table:
                continue
            for direction in ("del", "add"):
                try:
                    if direction == "del":
                        t = Tree.from_raw_string(2, want, object_format=fmt)
                        t.id
                        del t[name]
                        w2, k2 = self.expected("tree", key2, algo), key
                    else:
                        t = Tree.from_raw_string(2, self.expected("tree", key2, algo), object_format=fmt)
                        t.id
                        t[name] = (mode, hx)
                        w2, k2 = want, key2
                    self.n["edits"] += 1
                    clause = f"{direction}:{self._ekey((name, mode, hx), algo)}"
                    self.check_ids(t, ser_site, "tree", k2, algo, w2, "edit-id:" + clause)
                    got = t.as_raw_string()
                    if got != w2:
                        self.failure(ser_site, "edit-bytes:" + clause, "tree", k2, algo, w2, got)
                except Exception as e:  # noqa: BLE001
                    if not impl_exc(e):
                        raise
                    self.failure(ser_site, f"edit-exception:{direction}:{type(e).__name__}", "tree", key, algo, note=str(e)[:200])

    def _ekey(self, e, algo):
        name, mode, hx = e
        return ".".join(str(b) for b in name) + f":{mode}:{self.L.HEX[algo].index(hx)}"

    # ---- blob
    def run_blob(self, key, algo, rng):
        L = self.L
        from dulwich.objects import Blob, ShaFile
        chunks = L.blob_chunks(key)
        want = self.expected("blob", key, algo)
        site = "dulwich/objects.py:Blob"
        makers = {
            "chunked": lambda: self._blob_chunked(list(chunks)),
            "data": lambda: self._blob_data(want),
            "from_string": lambda: Blob.from_string(want),
            "from_raw_chunks": lambda: ShaFile.from_raw_chunks(3, list(chunks)),
        }
        for name, mk in makers.items():
            try:
                b = mk()
                self.n["builds"] += 1
                got = b.as_raw_string()
                if got != want or b.data != want or b"".join(b.chunked) != want:
                    self.failure(site + "." + name, "build-bytes", "blob", key, algo, want[:64], got[:64])
                self.check_ids(b, site + "." + name, "blob", key, algo, want, "build-id")
                if b.raw_length() != len(want):
                    self.failure(site + ".raw_length", "length", "blob", key, algo, len(want), b.raw_length())
            except Exception as e:  # noqa: BLE001
                if not impl_exc(e):
                    raise
                self.failure(site + "." + name, f"build-exception:{type(e).__name__}", "blob", key, algo, note=str(e)[:200])
        # edits: to every other blob case, through both setters, after the name was read
        for (k2, key2) in list(self.table):
            if k2 != "blob" or key2 == key:
                continue
            want2 = self.expected("blob", key2, algo)
            for setter in ("data", "chunked"):
                try:
                    b = Blob.from_string(want)
                    b.id
                    if setter == "data":
                        b.data = want2
                    else:
                        b.chunked = L.blob_chunks(key2)
                    self.n["edits"] += 1
                    self.check_ids(b, f"{site}.{setter}", "blob", key, algo, want2, f"edit-id:{setter}")
                    if b.as_raw_string() != want2:
                        self.failure(f"{site}.{setter}", f"edit-bytes:{setter}", "blob", key, algo, want2[:64], b.as_raw_string()[:64])
                except Exception as e:  # noqa: BLE001
                    if not impl_exc(e):
                        raise
                    self.failure(f"{site}.{setter}", f"edit-exception:{type(e).__name__}", "blob", key, algo, note=str(e)[:200])

    @staticmethod
    def _blob_chunked(chunks):
        from dulwich.objects import Blob
        b = Blob()
        b.chunked = chunks
        return b

    @staticmethod
    def _blob_data(data):
        from dulwich.objects import Blob
        b = Blob()
        b.data = data
        return b

    def run(self):
        job = self.job
        keys = sorted(self.table)
        if job.get("only") is not None:
            keys = [tuple(x) for x in job["only"] if tuple(x) in self.table]
        shard, n = job["shard"], job["nshards"]
        kinds = set(job.get("kinds") or ["commit", "tag", "tree", "blob"])
        for i, (kind, key) in enumerate(keys):
            if i % n != shard or kind not in kinds:
                continue
            if self.mode == "rs" and kind != "tree":
                continue                          # the Rust extension only implements the tree codec
            rng = random.Random(f"{job['seed']}/{kind}/{key}")
            for algo in job["algos"]:
                self.n["cases"] += 1
                if kind in ("commit", "tag"):
                    self.run_record(kind, key, algo, rng)
                elif kind == "tree":
                    self.run_tree(key, algo, rng)
                else:
                    self.run_blob(key, algo, rng)
            if len(self.samples) < 2 and kind in ("commit", "tag") and i % 97 == 0:
                self.samples.append({"kind": kind, "key": key, "tokens": " ".join(self.table[(kind, key)])[:600],
                                     "bytes_sha1_repo": self.expected(kind, key, "sha1").decode("latin-1")[:400]})
        # smallest cases first (fewest deviations from a base case / fewest entries), then truncate
        def size(f):
            if f["kind"] in ("commit", "tag"):
                ix = [int(x) for x in f["key"].split(",")]
                return min(sum(1 for i in ix if i != 1), sum(1 for i, l in zip(ix, self.psize[f["kind"]]) if i != l),
                           1 + sum(1 for i in ix[:-2] if i != 1))
            return len(f["key"].split(" ")) if f["key"] else 0
        self.fail.sort(key=size)
        return {"n": self.n, "fail": self.fail[:3000], "nfail": len(self.fail), "samples": self.samples}


def main(argv):
    with open(argv[1]) as f:
        job = json.load(f)
    try:
        _install(job["mode"])
        if job["task"] == "grammar":
            res = Grammar(job).run()
        elif job["task"] == "life":
            from . import c01_life
            res = c01_life.run_job(job)
        elif job["task"] == "fuzz":
            from . import c01_fuzz
            res = c01_fuzz.run_job(job)
        else:
            raise ValueError(job["task"])
        res["ok"] = True
        import dulwich
        res["dulwich"] = dulwich.__file__
    except Exception:  # noqa: BLE001
        res = {"ok": False, "error": traceback.format_exc()}
    with open(job["out"], "w") as f:
        json.dump(res, f)
    return 0


if __name__ == "__main__":
    sys.exit(main(sys.argv))

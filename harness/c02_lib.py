"""C02 helpers shared by the check (parent) and its worker children.  Never imports dulwich.

* the abstract object universe of specs/PackFmtWriter.tla made concrete (deterministic bytes)
* limbs <-> int
* an independent minimal pack / pack-index parser (zlib, hashlib, binascii.crc32 only) that
  projects bytes to the event list the specification talks about
* C git helpers (batch oriented)
"""
from __future__ import annotations

import binascii
import hashlib
import os
import random
import struct
import subprocess
import zlib

B = 1 << 30
TYPE_NAMES = {1: b"commit", 2: b"tree", 3: b"blob", 4: b"tag"}
OFS, REF = 6, 7
MAX_VARINT = 8          # longer varints are not representable in the specification's limbs


# ------------------------------------------------------------------ numbers
def limb(n: int):
    if n < 0 or n >= 1 << 60:
        raise ValueError(f"not representable as limbs: {n}")
    return [n >> 30, n & (B - 1)]


def unlimb(p) -> int:
    return (p[0] << 30) | p[1]


def crc_pair(c: int):
    return [c >> 16, c & 0xFFFF]


# ------------------------------------------------------------------ the universe
def hashf(oid: int):
    return hashlib.sha1 if oid == 20 else hashlib.sha256


def obj_name(oid: int, t: int, data: bytes) -> bytes:
    return hashf(oid)(TYPE_NAMES[t] + b" %d\x00" % len(data) + data).digest()


_TEXT_WORDS = [b"alpha", b"beta", b"gamma", b"delta", b"epsilon", b"zeta", b"eta", b"theta", b"iota", b"kappa"]
_text_cache = {}
_rand_cache = {}


def _text(seed: int, n: int) -> bytes:
    """n bytes of compressible, line structured text; a prefix of the same stream for every n."""
    have = _text_cache.get(seed)
    if have is None or len(have) < n:
        r = random.Random(0xC02000 + seed)
        parts, total, i = [], 0, 0
        want = max(256, 1 << max(n - 1, 1).bit_length())      # the stream is deterministic: regenerating a longer prefix is safe
        while total < want:
            line = b"%06d " % i + b" ".join(r.choice(_TEXT_WORDS) for _ in range(r.randint(2, 9))) + b"\n"
            parts.append(line)
            total += len(line)
            i += 1
        have = b"".join(parts)
        if len(_text_cache) > 24:
            _text_cache.clear()
        _text_cache[seed] = have
    return have[:n]


def _rand(seed: int, n: int) -> bytes:
    """n incompressible bytes; a prefix of the same stream for every n <= 300000."""
    if n > 300000:
        raise ValueError(n)
    have = _rand_cache.get(seed)
    if have is None:
        have = random.Random(0xC02F00 + seed).randbytes(300000)
        if len(_rand_cache) > 24:
            _rand_cache.clear()
        _rand_cache[seed] = have
    return have[:n]


def blob(recipe) -> bytes:
    """recipe = list of parts: ["rand", seed, n] | ["text", seed, n] (prefixes of one stream per seed)
    | ["hex", s] | ["slice", recipe, a, b]"""
    out = []
    for part in recipe:
        k = part[0]
        if k == "rand":
            out.append(_rand(part[1], part[2]))
        elif k == "text":
            out.append(_text(part[1], part[2]))
        elif k == "hex":
            out.append(bytes.fromhex(part[1]))
        elif k == "slice":
            out.append(blob(part[1])[part[2]:part[3]])
        else:
            raise ValueError(k)
    return b"".join(out)


IDENT_A = b"A U Thor <author@example.com> 1000000000 +0000"
IDENT_C = b"C O Mitter <committer@example.com> 1000000000 +0000"
MSG = b"".join(b"message line %02d of the universe commit\n" % i for i in range(5))


def _tree(oid: int, n: int) -> bytes:
    empty_blob = obj_name(oid, 3, b"")
    return b"".join(b"100644 f%02d\x00" % i + empty_blob for i in range(n))


def _commit(oid: int, parent: bytes | None) -> bytes:
    tree = obj_name(oid, 2, b"")
    out = b"tree " + tree.hex().encode() + b"\n"
    if parent is not None:
        out += b"parent " + parent.hex().encode() + b"\n"
    return out + b"author " + IDENT_A + b"\ncommitter " + IDENT_C + b"\n\n" + MSG


def _tag(oid: int) -> bytes:
    return (b"object " + obj_name(oid, 3, b"").hex().encode() + b"\ntype blob\ntag v1\ntagger " + IDENT_A
            + b"\n\nuniverse tag\n")


# id -> (type, family); the sizes are in universe_sizes() and must equal the table of the specification
def universe(oid: int):
    """{id: (type_num, bytes)} -- the concrete twin of U(oid) in PackFmtWriter.tla."""
    c1 = _commit(oid, None)
    u = {
        1: (3, b""),
        2: (3, _rand(2, 15)),
        3: (3, _rand(3, 16)),
        # every blob from 2047 bytes up is a prefix of one incompressible stream: any two resemble each other
        # (unrelated large objects make both delta encoders of dulwich take minutes, see the final report)
        4: (3, _rand(5, 2047)),
        5: (3, _rand(5, 2048)),
        6: (3, _rand(5, 65535)),
        7: (3, _rand(5, 65536)),
        8: (3, _rand(5, 65537)),
        9: (3, _rand(5, 65510)),
        10: (3, _rand(5, 65525)),
        11: (2, _tree(oid, 8)),
        12: (2, _tree(oid, 9)),
        13: (1, c1),
        14: (1, _commit(oid, obj_name(oid, 1, c1))),
        15: (4, _tag(oid)),
        16: (3, _rand(5, 262144)),
    }
    return u


def ambient_objects(oid: int):
    """objects the universe refers to (links) that must exist for `git index-pack --strict`."""
    return [(3, b""), (2, b"")] + list(universe(oid).values())


# ------------------------------------------------------------------ independent parser
class ParseError(Exception):
    pass


def _varint(data: bytes, pos: int):
    out = []
    while True:
        if pos >= len(data):
            raise ParseError("varint runs off the end")
        c = data[pos]
        pos += 1
        out.append(c)
        if not c & 0x80:
            return out, pos
        if len(out) > MAX_VARINT:
            raise ParseError("varint longer than 8 bytes")


def parse_pack(data: bytes, oid: int):
    """-> dict(count, dlen, trailer_ok, trailer, entries=[dict(off, end, t, hdr, ofsb, dist, refname, size, payload, crc)])
    Pure projection: no resolution of deltas here."""
    hlen = oid
    if len(data) < 12 + hlen:
        raise ParseError("too short")
    if data[:4] != b"PACK":
        raise ParseError("bad magic")
    version, count = struct.unpack(">LL", data[4:12])
    if version != 2:
        raise ParseError(f"pack version {version}")
    dlen = len(data) - hlen
    pos = 12
    entries = []
    while pos < dlen and len(entries) < count + 8:
        off = pos
        hdr, pos = _varint(data, pos)
        t = (hdr[0] >> 4) & 7
        e = {"off": off, "t": t, "hdr": hdr, "ofsb": [], "dist": 0, "refname": None}
        if t == OFS:
            ofsb, pos = _varint(data, pos)
            v = ofsb[0] & 0x7F
            for c in ofsb[1:]:
                v = ((v + 1) << 7) | (c & 0x7F)
            e["ofsb"], e["dist"] = ofsb, v
        elif t == REF:
            e["refname"] = data[pos:pos + hlen]
            pos += hlen
        elif t not in (1, 2, 3, 4):
            raise ParseError(f"entry type {t} at {off}")
        d = zlib.decompressobj()
        try:
            payload = d.decompress(data[pos:dlen])
        except zlib.error as ex:
            raise ParseError(f"zlib at {off}: {ex}")
        if not d.eof:
            raise ParseError(f"zlib stream at {off} not terminated before the trailer")
        pos = dlen - len(d.unused_data)
        e.update(end=pos, payload=payload, size=len(payload), crc=binascii.crc32(data[off:pos]) & 0xFFFFFFFF)
        entries.append(e)
    return {"count": count, "dlen": dlen, "parsed_to": pos, "trailer": data[dlen:],
            "trailer_ok": hashf(oid)(data[:dlen]).digest() == data[dlen:], "entries": entries}


def ofs_to_ref(data: bytes, oid: int, external=None) -> bytes:
    """Rewrite a pack so that every OFS_DELTA entry becomes a REF_DELTA entry naming the same base (what a peer
    without the ofs-delta capability sends).  Header and name are re-encoded, the zlib streams are copied."""
    pp = resolve_pack(parse_pack(data, oid), oid, external)
    out = [data[:12]]
    for e in pp["entries"]:
        body_start = e["off"] + len(e["hdr"]) + len(e["ofsb"]) + (oid if e["t"] == REF else 0)
        if e["t"] == OFS:
            if e["basename"] is None:
                raise ParseError("OFS_DELTA without resolvable base")
            hdr = list(e["hdr"])
            hdr[0] = (hdr[0] & 0x8F) | (REF << 4)
            out.append(bytes(hdr) + e["basename"] + data[body_start:e["end"]])
        else:
            out.append(data[e["off"]:e["end"]])
    body = b"".join(out)
    return body + hashf(oid)(body).digest()


def apply_delta_ref(base: bytes, delta: bytes) -> bytes:
    """git's patch-delta, minimal (only ever fed deltas the writers under test produced)."""
    def size(pos):
        v = shift = 0
        while True:
            c = delta[pos]
            pos += 1
            v |= (c & 0x7F) << shift
            shift += 7
            if not c & 0x80:
                return v, pos
    src, pos = size(0)
    dst, pos = size(pos)
    if src != len(base):
        raise ParseError("delta source size mismatch")
    out = []
    n = len(delta)
    while pos < n:
        c = delta[pos]
        pos += 1
        if c & 0x80:
            o = s = 0
            for i in range(4):
                if c & (1 << i):
                    o |= delta[pos] << (8 * i)
                    pos += 1
            for i in range(3):
                if c & (1 << (4 + i)):
                    s |= delta[pos] << (8 * i)
                    pos += 1
            if s == 0:
                s = 0x10000
            if o + s > len(base):
                raise ParseError("delta copy outside base")
            out.append(base[o:o + s])
        elif c:
            out.append(delta[pos:pos + c])
            pos += c
        else:
            raise ParseError("delta opcode 0")
    res = b"".join(out)
    if len(res) != dst:
        raise ParseError("delta result size mismatch")
    return res


def resolve_pack(pp, oid: int, external=None):
    """Resolve every entry of a parsed pack: sets e['rt'] (type), e['data'], e['name'], e['basename'].
    external: {name: (type, data)} for thin packs.  Unresolvable entries get rt = 0."""
    external = external or {}
    es = pp["entries"]
    by_off = {e["off"]: e for e in es}
    for e in es:
        e["rt"], e["data"], e["name"], e["basename"] = 0, None, None, None
        if e["t"] in (1, 2, 3, 4):
            e["rt"], e["data"] = e["t"], e["payload"]
            e["name"] = obj_name(oid, e["t"], e["payload"])
    progress = True
    while progress:
        progress = False
        by_name = {e["name"]: e for e in es if e["name"] is not None}
        for e in es:
            if e["rt"]:
                continue
            base = None
            if e["t"] == OFS:
                b = by_off.get(e["off"] - e["dist"])
                if b is not None and b["off"] < e["off"]:
                    if b["rt"]:
                        base = (b["rt"], b["data"])
                        e["basename"] = b["name"]
            else:
                e["basename"] = e["refname"]
                b = by_name.get(e["refname"])
                if b is not None and b is not e:
                    base = (b["rt"], b["data"])
                elif e["refname"] in external:
                    base = external[e["refname"]]
            if base is not None:
                try:
                    data = apply_delta_ref(base[1], e["payload"])
                except (ParseError, IndexError):
                    continue
                e["rt"], e["data"] = base[0], data
                e["name"] = obj_name(oid, base[0], data)
                progress = True
    return pp


def parse_idx(data: bytes, oid: int):
    """-> dict(v, fan, names, crcs, o32 (raw 32 bit words), o64, packsum, idxsum_ok, hdr, len)"""
    n_total = len(data)
    if data[:4] == b"\xfftOc":
        v = struct.unpack(">L", data[4:8])[0]
        if v not in (2, 3):
            raise ParseError(f"idx version {v}")
        pos = 8
        hdr = []
        if v == 3:
            hdr = list(struct.unpack(">LL", data[8:16]))
            pos = 16
    else:
        v, pos, hdr = 1, 0, []
    if n_total < pos + 1024 + 2 * oid:
        raise ParseError("idx too short")
    fan = list(struct.unpack(">256L", data[pos:pos + 1024]))
    pos += 1024
    n = fan[255]
    names, crcs, o32, o64 = [], [], [], []
    if v == 1:
        if pos + n * (4 + oid) + 2 * oid > n_total:
            raise ParseError("idx v1 truncated")
        for i in range(n):
            o32.append(struct.unpack(">L", data[pos:pos + 4])[0])
            names.append(data[pos + 4:pos + 4 + oid])
            pos += 4 + oid
    else:
        if pos + n * (oid + 8) + 2 * oid > n_total:
            raise ParseError("idx truncated")
        for i in range(n):
            names.append(data[pos:pos + oid])
            pos += oid
        crcs = list(struct.unpack(f">{n}L", data[pos:pos + 4 * n]))
        pos += 4 * n
        o32 = list(struct.unpack(f">{n}L", data[pos:pos + 4 * n]))
        pos += 4 * n
        rest = n_total - 2 * oid - pos
        if rest < 0 or rest % 8:
            raise ParseError("idx 64-bit table has a ragged length")
        o64 = list(struct.unpack(f">{rest // 8}Q", data[pos:pos + rest]))
        pos += rest
    return {"v": v, "fan": fan, "names": names, "crcs": crcs, "o32": o32, "o64": o64, "hdr": hdr,
            "packsum": data[n_total - 2 * oid:n_total - oid], "len": n_total,
            "idxsum_ok": hashf(oid)(data[:n_total - oid]).digest() == data[n_total - oid:]}


def idx_offsets(ix):
    """resolved offsets of a parsed index (None where the indirection is broken)."""
    out = []
    for w in ix["o32"]:
        if ix["v"] == 1 or not w & 0x80000000:
            out.append(w)
        else:
            k = w & 0x7FFFFFFF
            out.append(ix["o64"][k] if k < len(ix["o64"]) else None)
    return out


# ------------------------------------------------------------------ projection to the specification's records
def project(pp, ix, ids, oid, ext_ids=(), pack_trailer=None):
    """pp: resolved parsed pack; ix: parsed idx or None; ids: {name: small int}.  Names the case does not
    know get fresh ids (>= 1000).  -> (pk, ixr) as JSON-able dicts in the shape PackFmt.tla documents."""
    def idof(name):
        if name is None:
            return 0
        if name not in ids:
            ids[name] = 1000 + sum(1 for k in ids.values() if k >= 1000)
        return ids[name]

    es = []
    for e in pp["entries"]:
        kind = "ofs" if e["t"] == OFS else "ref" if e["t"] == REF else "full"
        if e["name"] is not None:
            eid = idof(e["name"])
        else:
            eid = 900 + len(es)            # unresolved: a private id
        es.append({"off": limb(e["off"]), "end": limb(e["end"]), "id": eid, "kind": kind, "t": e["t"],
                   "size": limb(e["size"]), "hdr": e["hdr"], "ofsb": e["ofsb"],
                   "base": idof(e["basename"]) if kind != "full" else 0,
                   "crc": crc_pair(e["crc"]), "rt": e["rt"]})
    pk = {"count": limb(pp["count"]), "hlen": 12, "dlen": limb(pp["dlen"]), "trailer": bool(pp["trailer_ok"]),
          "oidlen": oid, "ext": sorted(ext_ids), "es": es}
    ixr = None
    if ix is not None:
        allnames = sorted(set(ix["names"]))
        rank = {n: i + 1 for i, n in enumerate(allnames)}
        ixr = {"v": ix["v"], "oidlen": oid, "len": limb(ix["len"]), "fan": ix["fan"],
               "first": [n[0] for n in ix["names"]], "names": [rank[n] for n in ix["names"]],
               "ids": [idof(n) for n in ix["names"]],
               "crcs": [crc_pair(c) for c in ix["crcs"]],
               "o32": [[w >> 31, w & 0x7FFFFFFF] for w in ix["o32"]],
               "o64": [limb(x) if x < (1 << 60) else [-1, 0] for x in ix["o64"]],
               "packsum": (ix["packsum"] == pack_trailer) if pack_trailer is not None else True,
               "idxsum": bool(ix["idxsum_ok"]), "hdr": ix["hdr"]}
    return pk, ixr


# ------------------------------------------------------------------ C git
GIT_ENV = {"GIT_CONFIG_NOSYSTEM": "1", "GIT_CONFIG_GLOBAL": "/dev/null", "HOME": "/nonexistent",
           "GIT_AUTHOR_NAME": "A", "GIT_AUTHOR_EMAIL": "a@example.com", "GIT_COMMITTER_NAME": "C",
           "GIT_COMMITTER_EMAIL": "c@example.com", "GIT_AUTHOR_DATE": "1000000000 +0000",
           "GIT_COMMITTER_DATE": "1000000000 +0000", "LC_ALL": "C", "TZ": "UTC"}


def git_env():
    e = {k: v for k, v in os.environ.items() if not k.startswith("GIT_")}
    e.update(GIT_ENV)
    return e


def git(repo, *args, input=None, check=True):
    p = subprocess.run(["git", f"--git-dir={repo}", *args], input=input, capture_output=True, env=git_env())
    if check and p.returncode != 0:
        raise RuntimeError(f"git {' '.join(args)}: rc={p.returncode} {p.stderr.decode('utf-8', 'replace')[-400:]}")
    return p


def git_init(repo, oid=20):
    subprocess.run(["git", "init", "-q", "--bare", f"--object-format={'sha1' if oid == 20 else 'sha256'}", repo],
                   check=True, capture_output=True, env=git_env())
    return repo


def write_loose(repo, oid, t, data):
    """store one loose object without going through git (zlib + hashlib)."""
    raw = TYPE_NAMES[t] + b" %d\x00" % len(data) + data
    name = hashf(oid)(raw).hexdigest()
    d = os.path.join(repo, "objects", name[:2])
    os.makedirs(d, exist_ok=True)
    p = os.path.join(d, name[2:])
    if not os.path.exists(p):
        with open(p, "wb") as f:
            f.write(zlib.compress(raw, 1))
    return name


def cat_file_batch(repo, names):
    """{hexname: (type bytes, content)} for the names git has; missing names are absent."""
    p = git(repo, "cat-file", "--batch", input=b"".join(n.encode() + b"\n" for n in names))
    out, pos, res = p.stdout, 0, {}
    while pos < len(out):
        nl = out.index(b"\n", pos)
        head = out[pos:nl].split(b" ")
        pos = nl + 1
        if head[-1] == b"missing":
            continue
        size = int(head[2])
        res[head[0].decode()] = (head[1], out[pos:pos + size])
        pos += size + 1
    return res


def show_index(idx_path, oid=20):
    """git show-index: [(offset, hexname, crc or None)] in file order."""
    with open(idx_path, "rb") as f:
        p = subprocess.run(["git", "show-index", f"--object-format={'sha1' if oid == 20 else 'sha256'}"], stdin=f,
                           capture_output=True, env=git_env())
    if p.returncode != 0:
        return None, p.stderr.decode("utf-8", "replace")[-300:]
    rows = []
    for line in p.stdout.decode().splitlines():
        parts = line.split()
        crc = int(parts[2].strip("()"), 16) if len(parts) > 2 else None
        rows.append((int(parts[0]), parts[1], crc))
    return rows, ""

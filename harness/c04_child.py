"""C04 worker: executes cases against the real dulwich code, one JSON result line per case.

usage: python -m harness.c04_child <cases.json> <out.ndjson> <scratch dir>

Every case runs under a soft time budget (SIGALRM -> _Timeout, a BaseException) inside an address
space limit; the parent additionally watches the output file and kills a worker that stops making
progress (hard hang in C code), so 'timeout' and 'killed' are distinguishable outcomes.
"""
from __future__ import annotations

import gc
import io
import json
import os
import resource
import shutil
import signal
import sys
import time
import warnings
import zlib
from hashlib import sha1

from . import c04_lib as L

SOFT_S = float(os.environ.get("C04_SOFT_S", "2.0"))      # CPU seconds (user + system) one call may consume
WALL_S = float(os.environ.get("C04_WALL_S", "20.0"))     # wall-clock seconds; retried once with 3x before a timeout is reported


class _Timeout(BaseException):
    pass


class _Runaway(BaseException):
    """step budget exhausted: far more base look-ups than the pack has entries (the walk does not terminate)"""


RUNAWAY_LIMIT = 2000


def _on_alarm(sig, frame):
    raise _Timeout()


class budget:
    """CPU budget (ITIMER_PROF: immune to a loaded machine) and a generous wall-clock budget (blocking hangs)."""

    def __init__(self, cpu_s, wall_s):
        self.cpu, self.wall = cpu_s, wall_s

    def __enter__(self):
        signal.setitimer(signal.ITIMER_PROF, self.cpu)
        signal.setitimer(signal.ITIMER_REAL, self.wall)

    def __exit__(self, *a):
        signal.setitimer(signal.ITIMER_PROF, 0)
        signal.setitimer(signal.ITIMER_REAL, 0)
        return False


# --------------------------------------------------------------------------- environments
class Env:
    def __init__(self, scratch):
        self.scratch = scratch
        self.tpl_disk = os.path.join(scratch, "tpl-objects")
        self.tpl_repo = os.path.join(scratch, "tpl-repo.git")
        L.make_disk_template(self.tpl_disk)
        L.make_repo_template(self.tpl_repo)
        self.n = 0
        self._pre_disk = None

    def fresh(self, kind):
        self.n += 1
        d = os.path.join(self.scratch, f"case{self.n}")
        shutil.copytree(self.tpl_disk if kind == "disk" else self.tpl_repo, d)
        return d

    def pre_disk(self):
        if self._pre_disk is None:
            self._pre_disk = L.visible_disk(self.tpl_disk)[0]
        return self._pre_disk


def mem_store():
    from dulwich.object_store import MemoryObjectStore
    from dulwich.objects import Blob
    st = MemoryObjectStore()
    st.add_object(Blob.from_string(L.S_CONTENT))
    st.add_object(Blob.from_string(L.X_CONTENT))
    return st


# --------------------------------------------------------------------------- ingestion paths
def _count_of(data):
    import struct
    return struct.unpack(">L", data[8:12])[0] if len(data) >= 12 else 0


def p_add_pack(st, data):
    f, commit, abort = st.add_pack()
    try:
        f.write(data)
    except BaseException:
        abort()
        raise
    commit()


def p_add_thin_pack(st, data):
    ra, rs = L.chunked_reader(data, 61)
    st.add_thin_pack(ra, rs)


def p_add_pack_data(st, data):
    # as dulwich.client.BundleClient feeds it
    from dulwich.object_format import DEFAULT_OBJECT_FORMAT
    from dulwich.pack import PackData
    pd = PackData.from_file(io.BytesIO(data), object_format=DEFAULT_OBJECT_FORMAT)
    try:
        st.add_pack_data(len(pd), pd.iter_unpacked())
    finally:
        pd.close()


STORE_PATHS = {"add_pack": p_add_pack, "add_thin_pack": p_add_thin_pack, "add_pack_data": p_add_pack_data}


def p_stream_reader(data):
    from dulwich.pack import PackStreamReader
    ra, rs = L.chunked_reader(data, 61)
    r = PackStreamReader(sha1, ra, rs)
    objs = list(r.read_objects(compute_crc32=True))
    return {"nobj": len(objs), "count": len(r)}


def p_receive_pack(repo_dir, data, first_id_hex):
    """push `data` to a bare repository through ReceivePackHandler over a ReceivableProtocol."""
    from dulwich.protocol import ReceivableProtocol
    from dulwich.repo import Repo
    from dulwich.server import DictBackend, ReceivePackHandler
    r = Repo(repo_dir)
    try:
        cmd = b"0" * 40 + b" " + first_id_hex.encode() + b" refs/heads/c04\0report-status\n"
        wire = L.pkt(cmd) + b"0000" + data
        _, rs = L.chunked_reader(wire, 53)
        out = io.BytesIO()
        proto = ReceivableProtocol(rs, out.write)
        h = ReceivePackHandler(DictBackend({"/": r}), ["/"], proto, stateless_rpc=True)
        h.handle()
        o = out.getvalue()
        status = None
        i = 0
        while i + 4 <= len(o):
            n = int(o[i:i + 4], 16)
            if n == 0:
                i += 4
                continue
            line = o[i + 4:i + n]
            i += n
            if line.startswith(b"unpack "):
                status = line[7:].strip().decode("utf-8", "replace")
        return {"unpack": status}
    finally:
        r.close()


class UnpackFailed(Exception):
    """the server answered 'unpack <error>' (an ordinary, reported failure)"""


# --------------------------------------------------------------------------- independent idx writer (v2)
def write_idx_v2(entries, pack_trailer):
    """entries: [(raw id, offset, crc32)]; independent of dulwich."""
    import struct
    entries = sorted(entries)
    out = bytearray(b"\377tOc" + struct.pack(">L", 2))
    fan = [0] * 256
    for e in entries:
        fan[e[0][0]] += 1
    tot = 0
    for i in range(256):
        tot += fan[i]
        out += struct.pack(">L", tot)
    for e in entries:
        out += e[0]
    for e in entries:
        out += struct.pack(">L", e[2] & 0xFFFFFFFF)
    for e in entries:
        out += struct.pack(">L", e[1])
    out += pack_trailer
    out += sha1(bytes(out)).digest()
    return bytes(out)


def install_direct(objdir, data, entries, idxdata=None):
    name = "pack-" + sha1(b"".join(sorted(e[0] for e in entries))).hexdigest()
    pd = os.path.join(objdir, "pack")
    with open(os.path.join(pd, name + ".pack"), "wb") as f:
        f.write(data)
    with open(os.path.join(pd, name + ".idx"), "wb") as f:
        f.write(idxdata if idxdata is not None else write_idx_v2(entries, data[-20:]))
    return name


# --------------------------------------------------------------------------- case execution
def classify(exc):
    if isinstance(exc, (_Timeout, _Runaway)):
        return "timeout"
    if isinstance(exc, (MemoryError, RecursionError)):
        return "fatal"
    if isinstance(exc, Exception):
        return "error"
    return "fatal"


def timed(fn, soft=None, retry=True):
    """run fn() under the budgets.  A wall-clock timeout is retried once with three times the limit (rules out a
    starved worker); exhausting the CPU budget or the step budget is final.
    Returns (outcome, exc name, msg, cpu_ms, value)."""
    soft = soft or SOFT_S
    for attempt, wall in enumerate((WALL_S, 3 * WALL_S) if retry else (WALL_S,)):
        t0 = time.perf_counter()
        c0 = time.process_time()
        try:
            with budget(soft, wall):
                v = fn()
            return "ok", None, None, (time.process_time() - c0) * 1000, v
        except BaseException as e:      # noqa: BLE001
            signal.setitimer(signal.ITIMER_PROF, 0)
            signal.setitimer(signal.ITIMER_REAL, 0)
            oc = classify(e)
            cpu = (time.process_time() - c0) * 1000
            wall_used = time.perf_counter() - t0
            if oc == "timeout" and isinstance(e, _Timeout) and cpu < soft * 900 and retry and attempt == 0:
                continue                 # wall-clock limit hit without the CPU being used: starved, try again
            name, msg = type(e).__name__, str(e)[:160]
            if oc == "timeout" and not msg:
                msg = f"cpu {cpu:.0f} ms, wall {wall_used:.1f} s"
            e.__traceback__ = None
            del e
            return oc, name, msg, cpu, None
    raise AssertionError


def run_ingest(env, path, data, first_id_hex=None, soft=None):
    """one ingestion of `data` through `path`; returns the event dict."""
    kind, _, op = path.partition(".")
    ev = {"path": path}
    if path == "stream":
        oc, exc, msg, wall, v = timed(lambda: p_stream_reader(data), soft)
        ev.update(outcome=oc, exc=exc, msg=msg, wall_ms=round(wall, 2), pre=[], post=[], bad=[], junk=[], detail=v)
        return ev
    if kind == "mem":
        st = mem_store()
        pre = sorted(x.decode() for x in st)
        oc, exc, msg, wall, v = timed(lambda: STORE_PATHS[op](st, data), soft)
        post, bad = L.observe_store(st)
        ev.update(outcome=oc, exc=exc, msg=msg, wall_ms=round(wall, 2), pre=pre, post=post, bad=bad, junk=[], packs=[])
        return ev
    if kind == "disk":
        from dulwich.object_store import DiskObjectStore
        d = env.fresh("disk")
        st = DiskObjectStore(d)
        pre = env.pre_disk()
        try:
            oc, exc, msg, wall, v = timed(lambda: STORE_PATHS[op](st, data), soft)
            same, bad0 = L.observe_store(st)          # what the ingesting process itself now sees
        finally:
            st.close()
        post, bad = L.visible_disk(d)                 # what a fresh reader sees
        packs, junk = L.pack_dir_state(d)
        ev.update(outcome=oc, exc=exc, msg=msg, wall_ms=round(wall, 2), pre=pre, post=post, bad=sorted(set(bad) | set(bad0)),
                  junk=junk, packs=[[p["pack"], p["idx"]] for p in packs])
        if same != post:
            ev["self_view"] = same
        shutil.rmtree(d, ignore_errors=True)
        return ev
    if path == "recv":
        d = env.fresh("repo")
        od = os.path.join(d, "objects")
        pre, _ = L.visible_disk(od)

        def go():
            r = p_receive_pack(d, data, first_id_hex or "1" * 40)
            if r["unpack"] != "ok":
                raise UnpackFailed(r["unpack"])
            return r
        oc, exc, msg, wall, v = timed(go, soft)
        post, bad = L.visible_disk(od)
        packs, junk = L.pack_dir_state(od)
        ev.update(outcome=oc, exc=exc, msg=msg, wall_ms=round(wall, 2), pre=pre, post=post, bad=bad, junk=junk,
                  packs=[[p["pack"], p["idx"]] for p in packs])
        shutil.rmtree(d, ignore_errors=True)
        return ev
    raise ValueError(path)


def run_direct(env, data, entries, expect_hang=(), idxdata=None, soft=None):
    """install (pack, idx) by hand and read every listed id, each through a DiskObjectStore of its own
    (= an independent reader).  entries: [(hex id, offset)].  Besides the wall-clock budget a step budget
    applies: a resolution that performs more than RUNAWAY_LIMIT base look-ups on a pack of a handful of
    entries is reported as non-terminating."""
    import dulwich.pack as dp
    from dulwich.object_store import DiskObjectStore
    d = env.fresh("disk")
    raw = [(bytes.fromhex(h), off, 0) for (h, off) in entries]
    install_direct(d, data, raw, idxdata=idxdata)
    per = []
    worst = "ok"
    exc0 = msg0 = None
    wall_total = 0.0
    orig = dp.PackData.get_object_at
    for k, (h, off) in enumerate(entries):
        n = [0]

        def counted(self, offset, n=n):
            n[0] += 1
            if n[0] > RUNAWAY_LIMIT:
                raise _Runaway()
            return orig(self, offset)

        def rd():
            st = DiskObjectStore(d)
            try:
                t, rawc = st.get_raw(h.encode())
                return L.oid(t, rawc).hex() == h
            finally:
                st.close()
        dp.PackData.get_object_at = counted
        try:
            oc, exc, msg, wall, v = timed(rd, soft=soft, retry=True)
        finally:
            dp.PackData.get_object_at = orig
        wall_total += wall
        per.append([oc if oc != "ok" else ("ok" if v else "misnamed"), exc])
        if oc in ("timeout", "fatal") and worst not in ("timeout", "fatal"):
            worst, exc0, msg0 = oc, exc, f"reading entry {k + 1}" + (f": more than {RUNAWAY_LIMIT} base look-ups" if exc == "_Runaway" else "")
        if oc == "error" and worst == "ok":
            worst, exc0, msg0 = "error", exc, msg
    # the same questions asked twice in a row of ONE long-lived store (cached Pack / PackData / index handles)
    acc = []
    if worst not in ("timeout", "fatal"):
        def rep():
            out = []
            st = DiskObjectStore(d)
            try:
                for k, (h, off) in enumerate(entries):
                    for _ in (0, 1):
                        n = [0]

                        def counted(self, offset, n=n):
                            n[0] += 1
                            if n[0] > RUNAWAY_LIMIT:
                                raise _Runaway()
                            return orig(self, offset)
                        dp.PackData.get_object_at = counted
                        try:
                            t, rawc = st.get_raw(h.encode())
                            out.append([f"raw{k}", "same" if L.oid(t, rawc).hex() == h else "differs", None])
                        except (MemoryError, RecursionError):
                            raise
                        except Exception as e:       # noqa: BLE001
                            out.append([f"raw{k}", "error", type(e).__name__])
                        finally:
                            dp.PackData.get_object_at = orig
            finally:
                st.close()
            return out
        oc, exc, msg, wall, v = timed(rep, soft=soft)
        dp.PackData.get_object_at = orig
        acc = v or []
        if oc in ("timeout", "fatal"):
            worst, exc0, msg0 = oc, exc, "repeated reads on one store" + (f": more than {RUNAWAY_LIMIT} base look-ups" if exc == "_Runaway" else "")
    shutil.rmtree(d, ignore_errors=True)
    return {"path": "direct", "outcome": worst, "exc": exc0, "msg": msg0, "wall_ms": round(wall_total, 2), "per": per, "acc": acc,
            "pre": [], "post": [], "bad": [], "junk": []}


# --------------------------------------------------------------------------- artefact readers (byte-level damage of non-pack artefacts)
def read_idx(env, art, data):
    """verified read: load + iterate + check() must not accept a damaged index; then unverified use:
    read every object of the pack through a store that sees pack + damaged idx."""
    from dulwich.object_format import DEFAULT_OBJECT_FORMAT
    from dulwich.object_store import DiskObjectStore
    from dulwich.pack import load_pack_index
    A = L.artefacts()
    pk = L.sibling_pack(art["pack"]) if art.get("splice") else A[art["pack"]]
    d = env.fresh("disk")
    pd = os.path.join(d, "pack")
    name = "pack-" + "1" * 40
    with open(os.path.join(pd, name + ".pack"), "wb") as f:
        f.write(pk["data"])
    with open(os.path.join(pd, name + ".idx"), "wb") as f:
        f.write(data)
    res = {}

    def verified():
        ix = load_pack_index(os.path.join(pd, name + ".idx"), DEFAULT_OBJECT_FORMAT)
        try:
            ents = [(bytes(e[0]).hex(), e[1], e[2]) for e in ix.iterentries()]
            ix.check()
            return {"n": len(ents), "same": False}
        finally:
            ix.close()

    def use():
        st = DiskObjectStore(d)
        try:
            ids, bad = L.observe_store(st, strict=True)
            return {"n": len(ids), "bad": len(bad), "misnamed": sum(1 for b in bad if b.endswith(":misnamed"))}
        finally:
            st.close()
    res["verified"] = timed(verified)
    res["use"] = timed(use)
    shutil.rmtree(d, ignore_errors=True)
    return res


def read_loose(env, art, data):
    from dulwich.object_store import DiskObjectStore
    d = env.fresh("disk")
    h = art["id"]
    os.makedirs(os.path.join(d, h[:2]), exist_ok=True)
    with open(os.path.join(d, h[:2], h[2:]), "wb") as f:
        f.write(data)

    def rd():
        st = DiskObjectStore(d)
        try:
            o = st[h.encode()]
            raw = o.as_raw_string()
            return {"same": raw == art["content"] and o.type_num == art["type"], "hash_ok": L.oid(o.type_num, raw).hex() == h}
        finally:
            st.close()
    def raw():
        st = DiskObjectStore(d)
        try:
            t, rawc = st.get_raw(h.encode())
            return {"same": rawc == art["content"] and t == art["type"], "hash_ok": L.oid(t, rawc).hex() == h}
        finally:
            st.close()

    def from_path():
        from dulwich.objects import ShaFile
        o = ShaFile.from_path(os.path.join(d, h[:2], h[2:]))
        rawc = o.as_raw_string()
        return {"same": rawc == art["content"] and o.type_num == art["type"], "hash_ok": L.oid(o.type_num, rawc).hex() == h}
    r = {"verified": timed(rd), "raw": timed(raw), "from_path": timed(from_path)}
    shutil.rmtree(d, ignore_errors=True)
    return r


def _index_dump(ix):
    out = []
    for name in ix:
        e = ix[name]
        out.append((name, repr(e)))
    return out, ix._version


_ORIG = {}


def read_index(env, art, data):
    from dulwich.index import Index
    env.n += 1
    p = os.path.join(env.scratch, f"index{env.n}")
    key = id(art)
    if key not in _ORIG:
        with open(p, "wb") as f:
            f.write(art["data"])
        _ORIG[key] = _index_dump(Index(p))
    with open(p, "wb") as f:
        f.write(data)
    r = {"verified": timed(lambda: {"same": _index_dump(Index(p)) == _ORIG[key]})}
    os.unlink(p)
    return r


def read_packed_refs(env, art, data):
    from dulwich.refs import DiskRefsContainer
    env.n += 1
    d = os.path.join(env.scratch, f"refs{env.n}")
    os.makedirs(os.path.join(d, "refs"))
    with open(os.path.join(d, "packed-refs"), "wb") as f:
        f.write(data)

    def rd():
        c = DiskRefsContainer(d)
        pr = dict(c.get_packed_refs())
        peeled = {k: c.get_peeled(k) for k in pr}
        return sorted(pr.items()), sorted(peeled.items(), key=repr)
    r = {"use": timed(rd)}
    shutil.rmtree(d, ignore_errors=True)
    return r


def read_commit_graph(env, art, data):
    from dulwich.commit_graph import read_commit_graph as rcg
    env.n += 1
    p = os.path.join(env.scratch, f"cg{env.n}")
    with open(p, "wb") as f:
        f.write(data)

    def rd():
        g = rcg(p)
        out = [(e.commit_id, e.tree_id, tuple(e.parents), e.generation, e.commit_time) for e in g]
        for c in art["commits"]:
            g.get_entry_by_oid(c.encode())
            g.get_parents(c.encode())
            g.get_generation_number(c.encode())
        return out
    r = {"use": timed(rd)}
    os.unlink(p)
    return r


def read_midx(env, art, data):
    from dulwich.object_store import DiskObjectStore
    d = env.fresh("disk")
    pd = os.path.join(d, "pack")
    with open(os.path.join(pd, art["packname"] + ".pack"), "wb") as f:
        f.write(art["packdata"])
    with open(os.path.join(pd, art["packname"] + ".idx"), "wb") as f:
        f.write(art["idxdata"])
    with open(os.path.join(pd, "multi-pack-index"), "wb") as f:
        f.write(data)

    def load():
        from dulwich.midx import load_midx
        m = load_midx(os.path.join(pd, "multi-pack-index"))
        try:
            return [(bytes(e[0]).hex(), e[1], e[2]) for e in m.iterentries()]
        finally:
            m.close()

    def use():
        st = DiskObjectStore(d)
        try:
            ids, bad = L.observe_store(st, strict=True)
            mis = sum(1 for b in bad if b.endswith(":misnamed"))
            for h in ids:
                st.contains_packed(h.encode())
                try:
                    o = st[h.encode()]
                    if L.oid(o.type_num, o.as_raw_string()).hex() != h:
                        mis += 1
                except (MemoryError, RecursionError):
                    raise
                except Exception:       # noqa: BLE001
                    pass
            return {"n": len(ids), "bad": len(bad), "misnamed": mis}
        finally:
            st.close()
    r = {"load": timed(load), "use": timed(use)}
    shutil.rmtree(d, ignore_errors=True)
    return r


def read_bitmap_art(env, art, data):
    from dulwich.object_format import DEFAULT_OBJECT_FORMAT
    from dulwich.pack import Pack
    env.n += 1
    d = os.path.join(env.scratch, f"bm{env.n}")
    os.makedirs(d)
    base = os.path.join(d, "pack-" + "2" * 40)
    with open(base + ".pack", "wb") as f:
        f.write(art["packdata"])
    with open(base + ".idx", "wb") as f:
        f.write(art["idxdata"])
    with open(base + ".bitmap", "wb") as f:
        f.write(data)

    def rd():
        p = Pack(base, object_format=DEFAULT_OBJECT_FORMAT)
        try:
            bm = p.bitmap
            if bm is None:
                return None
            return sorted((k.hex() if isinstance(k, bytes) else str(k)) for k in getattr(bm, "entries", {}))
        finally:
            p.close()
    r = {"use": timed(rd)}
    shutil.rmtree(d, ignore_errors=True)
    return r


# --------------------------------------------------------------------------- repeated access on one long-lived handle
def _canon(v):
    return json.dumps(v, sort_keys=True, default=repr)


def _do(key, fn, out):
    """one access: ("ok", canonical answer) | ("error", exception class); containment failures propagate"""
    try:
        out.append((key, "ok", _canon(fn())))
    except (MemoryError, RecursionError):
        raise
    except Exception as e:       # noqa: BLE001
        out.append((key, "error", type(e).__name__))


def seq_packed_refs(env, art, data):
    """get_packed_refs twice, the peeled value, the names, then a rewrite (add_packed_refs) whose result is what a
    fresh container reads afterwards."""
    from dulwich.refs import DiskRefsContainer
    env.n += 1
    d = os.path.join(env.scratch, f"seqrefs{env.n}")
    os.makedirs(os.path.join(d, "refs"))
    pr = os.path.join(d, "packed-refs")
    with open(pr, "wb") as f:
        f.write(data)
    out = []
    c = DiskRefsContainer(d)
    get = lambda: sorted((k.decode("latin-1"), v.decode("latin-1")) for k, v in c.get_packed_refs().items())   # noqa: E731
    _do("get", get, out)
    _do("get", get, out)
    _do("peeled", lambda: repr(c.get_peeled(b"refs/tags/v1")), out)
    _do("get", get, out)

    def write():
        try:
            c.add_packed_refs({b"refs/heads/c04new": b"d" * 40})
        except Exception:
            with open(pr, "rb") as f:
                if f.read() == data:
                    raise                       # failed and left the file alone
            return "changed by a failed write"
        fresh = DiskRefsContainer(d)
        try:
            return sorted((k.decode("latin-1"), v.decode("latin-1")) for k, v in fresh.get_packed_refs().items())
        except Exception as e:       # noqa: BLE001
            return "unreadable after the write: " + type(e).__name__
    _do("write", write, out)
    shutil.rmtree(d, ignore_errors=True)
    return out, {}


def seq_index(env, art, data):
    """Index.read() on an existing instance; what the instance then holds; again"""
    from dulwich.index import Index
    env.n += 1
    p = os.path.join(env.scratch, f"seqindex{env.n}")
    with open(p, "wb") as f:
        f.write(data)
    out = []
    ix = Index(p, read=False)
    pristine = _canon(_index_dump(ix))

    def read_view():
        ix.read()
        return _index_dump(ix)
    _do("view", read_view, out)
    _do("view", lambda: _index_dump(ix), out)
    _do("view", read_view, out)
    _do("view", lambda: _index_dump(ix), out)
    os.unlink(p)
    return out, {"view": pristine}


def _store_with(env, files):
    d = env.fresh("disk")
    for rel, content in files.items():
        fp = os.path.join(d, rel)
        os.makedirs(os.path.dirname(fp), exist_ok=True)
        with open(fp, "wb") as f:
            f.write(content)
    return d


def seq_idx(env, art, data):
    """one DiskObjectStore over pack + (damaged) index: every object asked for twice in a row"""
    from dulwich.object_store import DiskObjectStore
    pk = L.artefacts()[art["pack"]]                     # the names asked for are those the index lists
    packfile = L.sibling_pack(art["pack"])["data"] if art.get("splice") else pk["data"]
    name = "pack/pack-" + "1" * 40
    d = _store_with(env, {name + ".pack": packfile, name + ".idx": data})
    out = []
    st = DiskObjectStore(d)
    try:
        for i, info in enumerate(pk["info"]):
            h = info[0].hex().encode()
            rd = lambda h=h: (lambda t, raw: [t, sha1(raw).hexdigest()])(*st.get_raw(h))   # noqa: E731
            _do(f"raw{i}", rd, out)
            _do(f"raw{i}", rd, out)
    finally:
        st.close()
    shutil.rmtree(d, ignore_errors=True)
    return out, {}


def seq_commit_graph(env, art, data):
    from dulwich.object_store import DiskObjectStore
    d = _store_with(env, {"info/commit-graph": data})
    out = []
    st = DiskObjectStore(d)
    try:
        def view():
            g = st.get_commit_graph()
            return None if g is None else [(e.commit_id, e.tree_id, tuple(e.parents), e.generation, e.commit_time) for e in g]
        _do("graph", view, out)
        _do("graph", view, out)
        for i, cmt in enumerate(art["commits"]):
            par = lambda cmt=cmt: (lambda g: None if g is None else g.get_parents(cmt.encode()))(st.get_commit_graph())   # noqa: E731
            _do(f"parents{i}", par, out)
            _do(f"parents{i}", par, out)
    finally:
        st.close()
    shutil.rmtree(d, ignore_errors=True)
    return out, {}


def seq_midx(env, art, data):
    from dulwich.object_store import DiskObjectStore
    d = _store_with(env, {"pack/" + art["packname"] + ".pack": art["packdata"], "pack/" + art["packname"] + ".idx": art["idxdata"],
                          "pack/multi-pack-index": data})
    out = []
    st = DiskObjectStore(d)
    try:
        def view():
            m = st.get_midx()
            return None if m is None else [(bytes(e[0]).hex(), e[1], e[2]) for e in m.iterentries()]
        _do("midx", view, out)
        _do("midx", view, out)
        ids = sorted(L.idx_names(art["idxdata"]))[:4]
        for i, h in enumerate(ids):
            has = lambda h=h: st.contains_packed(h.encode())    # noqa: E731
            rd = lambda h=h: (lambda t, raw: [t, sha1(raw).hexdigest()])(*st.get_raw(h.encode()))   # noqa: E731
            _do(f"has{i}", has, out)
            _do(f"has{i}", has, out)
            _do(f"raw{i}", rd, out)
            _do(f"raw{i}", rd, out)
    finally:
        st.close()
    shutil.rmtree(d, ignore_errors=True)
    return out, {}


def seq_bitmap(env, art, data):
    from dulwich.object_format import DEFAULT_OBJECT_FORMAT
    from dulwich.pack import Pack
    env.n += 1
    d = os.path.join(env.scratch, f"seqbm{env.n}")
    os.makedirs(d)
    base = os.path.join(d, "pack-" + "2" * 40)
    for ext, content in ((".pack", art["packdata"]), (".idx", art["idxdata"]), (".bitmap", data)):
        with open(base + ext, "wb") as f:
            f.write(content)
    out = []
    p = Pack(base, object_format=DEFAULT_OBJECT_FORMAT)
    try:
        def view():
            bm = p.bitmap
            return None if bm is None else [sorted((k.hex() if isinstance(k, bytes) else str(k)) for k in bm.entries),
                                            [sorted(b.bits) for b in (bm.commit_bitmap, bm.tree_bitmap, bm.blob_bitmap, bm.tag_bitmap)]]
        _do("bitmap", view, out)
        _do("bitmap", view, out)
    finally:
        p.close()
    shutil.rmtree(d, ignore_errors=True)
    return out, {}


SEQ_READERS = {"packed-refs": seq_packed_refs, "index": seq_index, "idx": seq_idx, "commit-graph": seq_commit_graph,
               "midx": seq_midx, "bitmap": seq_bitmap}
_SEQ_INTACT = {}


def seq_case(env, name, art, data):
    """the access sequence on a handle over the damaged artefact, each answer classified against the answer the
    intact artefact gives at the same position: error | same | pristine | differs"""
    fn = SEQ_READERS[art["kind"]]
    if name not in _SEQ_INTACT:
        genuine = L.artefacts()[name]
        _SEQ_INTACT[name] = fn(env, genuine, genuine["data"])[0]
    intact = _SEQ_INTACT[name]

    def go():
        got, pristine = fn(env, art, data)
        acc = []
        for (k, st, v), (k0, st0, v0) in zip(got, intact):
            if st == "error":
                r = "error"
            elif st0 == "ok" and v == v0:
                r = "same"
            elif pristine.get(k) is not None and v == pristine[k]:
                r = "pristine"
            else:
                r = "differs"
            acc.append([k, r, v if st == "error" else None])
        return acc
    t = timed(go)
    return {"acc": t[4] or [], "outcome": t[0], "exc": t[1], "msg": t[2], "wall_ms": round(t[3], 2)}


READERS = {"idx": read_idx, "loose": read_loose, "index": read_index, "packed-refs": read_packed_refs,
           "commit-graph": read_commit_graph, "midx": read_midx, "bitmap": read_bitmap_art}


def _pack_result(t):
    oc, exc, msg, wall, v = t
    return {"outcome": oc, "exc": exc, "msg": msg, "wall_ms": round(wall, 2), "value": v}


# --------------------------------------------------------------------------- bombs
def _zeros_deflated(total, prefix=b""):
    """zlib stream of prefix + `total` zero bytes, built without materialising the payload"""
    c = zlib.compressobj(9)
    out = [c.compress(prefix)]
    chunk = b"\0" * (1 << 20)
    for _ in range(total >> 20):
        out.append(c.compress(chunk))
    out.append(c.flush())
    return b"".join(out)


def bomb_case(env, which):
    """decompression bombs: crafted streams, measured growth of the peak resident set (KiB)."""
    import struct
    big = 64 * 1024 * 1024
    gc.collect()
    if which == "pack-entry-overlong":
        # declared size 10, stream inflates to 64 MiB
        body = b"PACK" + struct.pack(">LL", 2, 1) + L.obj_hdr(L.OBJ_BLOB, 10) + _zeros_deflated(big)
        data = body + sha1(body).digest()
        r0 = resource.getrusage(resource.RUSAGE_SELF).ru_maxrss
        evs = [run_ingest(env, p, data) for p in ("disk.add_pack", "mem.add_pack", "disk.add_thin_pack", "stream")]
        n_in = len(data)
    elif which == "loose-overlong":
        from dulwich.object_store import DiskObjectStore
        d = env.fresh("disk")
        h = "ab" * 20
        os.makedirs(os.path.join(d, h[:2]), exist_ok=True)
        comp = _zeros_deflated(big, b"blob %d\0" % big)
        with open(os.path.join(d, h[:2], h[2:]), "wb") as f:
            f.write(comp)
        n_in = len(comp)
        del comp
        r0 = resource.getrusage(resource.RUSAGE_SELF).ru_maxrss

        def rd():
            st = DiskObjectStore(d, loose_object_size_limit=1024 * 1024)
            try:
                return len(st[h.encode()].as_raw_string())
            finally:
                st.close()
        t = timed(rd)
        evs = [{"path": "loose(limit=1MiB)", "outcome": t[0], "exc": t[1], "msg": t[2], "wall_ms": round(t[3], 2), "value": t[4]}]
        shutil.rmtree(d, ignore_errors=True)
    else:
        raise ValueError(which)
    r1 = resource.getrusage(resource.RUSAGE_SELF).ru_maxrss
    return {"which": which, "events": evs, "rss_growth_kb": r1 - r0, "input_kb": n_in // 1024, "inflates_to_kb": big // 1024}


# --------------------------------------------------------------------------- loose-object bomb family
LOOSE_SMALL_CAP = 64 * 1024
_LOOSE_CACHE = {}


def loose_file(enc, size):
    """(file bytes, hex name) of a loose blob of `size` zero bytes in the legacy encoding (one zlib stream of
    "blob <n>\\0" + payload) or the new-style one (pack-like type/size header + zlib stream of the bare payload);
    built and hashed without materialising the payload.  The name is the true SHA-1."""
    key = (enc, size)
    if key not in _LOOSE_CACHE:
        hdr = b"blob %d\0" % size
        h = sha1(hdr)
        c = zlib.compressobj(6)
        out = [L.obj_hdr(L.OBJ_BLOB, size)] if enc == "newstyle" else [c.compress(hdr)]
        chunk = b"\0" * (1 << 20)
        left = size
        while left:
            piece = chunk if left >= len(chunk) else chunk[:left]
            out.append(c.compress(piece))
            h.update(piece)
            left -= len(piece)
        out.append(c.flush())
        _LOOSE_CACHE[key] = (b"".join(out), h.hexdigest())
    return _LOOSE_CACHE[key]


def loose_bomb_case(env, c):
    """one loose object (encoding x payload size) read through one route to the size limit and one read path,
    with the peak of traced allocations during the read."""
    import tracemalloc
    enc, route, path, size, cap = c["enc"], c["route"], c["path"], c["size"], c["cap"]
    data, h = loose_file(enc, size)
    d = env.fresh("repo" if route == "repo" else "disk")
    od = os.path.join(d, "objects") if route == "repo" else d
    os.makedirs(os.path.join(od, h[:2]), exist_ok=True)
    fpath = os.path.join(od, h[:2], h[2:])
    with open(fpath, "wb") as f:
        f.write(data)
    if route == "repo":
        with open(os.path.join(d, "config"), "ab") as f:
            f.write(b"[core]\n\tbigFileThreshold = %d\n" % cap)

    def open_store():
        from dulwich.object_store import DiskObjectStore
        if route == "default":
            return DiskObjectStore(od), None
        if route == "ctor":
            return DiskObjectStore(od, loose_object_size_limit=cap), None
        if route == "config":
            from dulwich.config import ConfigDict
            cfg = ConfigDict()
            cfg.set((b"core",), b"bigFileThreshold", str(cap).encode())
            return DiskObjectStore.from_config(od, cfg), None
        if route == "repo":
            from dulwich.repo import Repo
            r = Repo(d)
            return r.object_store, r
        raise ValueError(route)

    def rd():
        from dulwich.objects import Blob, ShaFile
        kw = {} if cap is None or route == "direct-default" else {"max_size": cap}
        if path == "from_path":
            return len(ShaFile.from_path(fpath, h.encode(), **kw).as_raw_string())
        if path == "blob_from_path":
            return len(Blob.from_path(fpath, h.encode(), **kw).as_raw_string())
        if path == "from_file":
            with open(fpath, "rb") as f:
                return len(ShaFile.from_file(f, h.encode(), **kw).as_raw_string())
        st, owner = open_store()
        try:
            if path == "getitem":
                return len(st[h.encode()].as_raw_string())
            if path == "get_raw":
                return len(st.get_raw(h.encode())[1])
            if path == "contains":
                return -1 if h.encode() in st else -2
            raise ValueError(path)
        finally:
            (owner or st).close()
    gc.collect()
    tracemalloc.start()
    try:
        t = timed(rd, soft=c.get("soft"))
        peak = tracemalloc.get_traced_memory()[1]
    finally:
        tracemalloc.stop()
    shutil.rmtree(d, ignore_errors=True)
    gc.collect()
    return {"event": {"path": f"loose:{path}", "outcome": t[0], "exc": t[1], "msg": t[2], "wall_ms": round(t[3], 2)},
            "returned": t[4], "peak_kb": peak // 1024, "file_kb": len(data) // 1024}


# --------------------------------------------------------------------------- failed transfer: a deepening fetch whose pack is damaged in transit
_FETCH = {}


def _mk_commit(store, parents, n):
    from dulwich.objects import Blob, Commit, Tree
    b = Blob.from_string(b"contents of file, revision %d\n" % n * 5)
    t = Tree()
    t.add(b"f", 0o100644, b.id)
    c = Commit()
    c.tree = t.id
    c.parents = parents
    c.author = c.committer = L.ID
    c.author_time = c.commit_time = 1000 + n
    c.author_timezone = c.commit_timezone = 0
    c.message = b"commit %d\n" % n
    for o in (b, t, c):
        store.add_object(o)
    return c.id


def repo_state(path):
    """everything a transfer can touch, as seen by a fresh reader: visible objects, and every file of the control
    directory outside objects/ (shallow, refs, packed-refs, HEAD, FETCH_HEAD, config, ...) with its content hash.
    Lock files and in-flight temporary packs are not part of the observable state."""
    from dulwich.repo import Repo
    r = Repo(path)
    try:
        ids, bad = L.observe_store(r.object_store)
        cd = r.controldir()
    finally:
        r.close()
    items = ["obj:" + h for h in ids]
    for dp, dn, fn in os.walk(cd):
        rel = os.path.relpath(dp, cd)
        if rel == "objects" or rel.startswith("objects" + os.sep):
            continue
        for f in fn:
            if f.endswith(".lock"):
                continue
            with open(os.path.join(dp, f), "rb") as fh:
                items.append("file:" + os.path.normpath(os.path.join(rel, f)) + "=" + sha1(fh.read()).hexdigest()[:16])
    return sorted(items), bad


class corrupting_transport:
    """the pack stream a wire client receives is damaged on its way into the repository (one bit flipped, or
    everything from a position on lost): wraps the pack_data callback every fetch entry point hands to fetch_pack"""

    def __init__(self, mut, counter=None):
        self.mut, self.counter = mut, counter

    def __enter__(self):
        import dulwich.client as dc
        self.cls = dc.TraditionalGitClient
        self.orig = self.cls.fetch_pack
        mut, counter, orig = self.mut, self.counter, self.orig

        def fetch_pack(client, path, determine_wants, graph_walker, pack_data, *a, **kw):
            seen = [0]

            def damaged(data):
                start = seen[0]
                seen[0] += len(data)
                if counter is not None:
                    counter[0] += len(data)
                if mut is None:
                    return pack_data(data)
                kind, pos = mut[0], mut[1]
                if kind == "bit" and start <= pos < start + len(data):
                    b = bytearray(data)
                    b[pos - start] ^= 1 << mut[2]
                    data = bytes(b)
                elif kind == "trunc":          # a (hostile) server ends the pack early
                    if start >= pos:
                        return None
                    data = data[:pos - start]
                elif kind == "hangup" and start + len(data) > pos:     # the connection drops inside the pack
                    from dulwich.errors import HangupException
                    if pos > start:
                        pack_data(data[:pos - start])
                    raise HangupException()
                return pack_data(data)
            return orig(client, path, determine_wants, graph_walker, damaged, *a, **kw)
        self.cls.fetch_pack = fetch_pack
        return self

    def __exit__(self, *a):
        self.cls.fetch_pack = self.orig
        return False


def fetch_setup(env):
    """in-process git:// server with a three-commit history, a depth-1 clone of it, and the length of the pack a
    deepening fetch (depth 2) transfers"""
    if _FETCH:
        return _FETCH
    import threading

    from dulwich.client import TCPGitClient
    from dulwich.repo import Repo
    from dulwich.server import DictBackend, TCPGitServer
    root = os.path.join(env.scratch, "fetch")
    os.makedirs(root)
    src = Repo.init(os.path.join(root, "src"), mkdir=True)
    c1 = _mk_commit(src.object_store, [], 1)
    c2 = _mk_commit(src.object_store, [c1], 2)
    c3 = _mk_commit(src.object_store, [c2], 3)
    src.refs[b"refs/heads/master"] = c3
    server = TCPGitServer(DictBackend({b"/": src}), "127.0.0.1", 0)
    port = server.server_address[1]
    threading.Thread(target=server.serve_forever, daemon=True).start()
    pristine = os.path.join(root, "pristine")
    dst = Repo.init(pristine, mkdir=True)
    TCPGitClient("127.0.0.1", port=port).fetch(b"/", dst, depth=1)
    dst.refs[b"refs/heads/master"] = c3
    cfg = dst.get_config()
    cfg.set((b"remote", b"origin"), b"url", b"git://127.0.0.1:%d/" % port)
    cfg.set((b"remote", b"origin"), b"fetch", b"+refs/heads/*:refs/remotes/origin/*")
    cfg.write_to_path()
    dst.close()
    n = [0]
    probe = os.path.join(root, "probe")
    shutil.copytree(pristine, probe)
    r = Repo(probe)
    try:
        with corrupting_transport(None, n):
            TCPGitClient("127.0.0.1", port=port).fetch(b"/", r, depth=2)
    finally:
        r.close()
    good, _ = repo_state(probe)
    before, _ = repo_state(pristine)
    if n[0] < 40 or good == before or not any(x.startswith("file:shallow=") for x in before):
        raise RuntimeError(f"fetch scenario not as expected: pack {n[0]} bytes")
    _FETCH.update(server=server, port=port, pristine=pristine, n=n[0], before=before, good=good, root=root, src=src)
    return _FETCH


def fetch_muts(n, step):
    pos = sorted(set(range(0, n, step)) | set(range(max(0, n - 20), n)))
    # trunc@<12 (no pack at all) is not a failed ingestion: nothing is ingested and the call succeeds -- whether the shallow
    # boundary may then move belongs to the completeness of a transfer (C05), not to containment
    return ([["bit", p, p % 8] for p in pos] + [["trunc", p] for p in pos[::2] if p >= 12]
            + [["hangup", p] for p in pos[1::4]])


def fetch_case(env, c):
    import io

    from dulwich.repo import Repo
    F = fetch_setup(env)
    muts = fetch_muts(F["n"], c["step"])[c["part"]::c["parts"]] if c.get("mut") is None else [c["mut"]]
    evs = []
    for mut in muts:
        env.n += 1
        work = os.path.join(env.scratch, f"fetchwork{env.n}")
        shutil.copytree(F["pristine"], work)

        def go():
            with corrupting_transport(mut):
                if c["entry"] == "client":
                    from dulwich.client import TCPGitClient
                    r = Repo(work)
                    try:
                        TCPGitClient("127.0.0.1", port=F["port"]).fetch(b"/", r, depth=2)
                    finally:
                        r.close()
                else:
                    from dulwich import porcelain
                    porcelain.fetch(work, "origin", outstream=io.StringIO(), errstream=io.BytesIO(), depth=2)
        oc, exc, msg, wall, v = timed(go)
        post, bad = repo_state(work)
        evs.append({"mut": mut, "path": "fetch:" + c["entry"], "outcome": oc, "exc": exc, "msg": msg, "wall_ms": round(wall, 2),
                    "pre": F["before"], "post": post, "bad": bad, "as_good": post == F["good"]})
        shutil.rmtree(work, ignore_errors=True)
    return {"events": evs, "pack_len": F["n"]}


# --------------------------------------------------------------------------- (c) one ingestion under os-level interposition
KEY_OPS = {"open_excl": "create", "open_w": "create", "chmod": "chmod", "fwrite": "write", "write": "write", "fflush": "flush",
           "fclose": "close", "close": "close", "unlink": "unlink", "rename": "rename", "replace": "replace", "utime": "utime"}


def role_of(rel):
    if rel is None:
        return "other"
    b = os.path.basename(rel)
    if b.startswith("tmp_pack_") or (b.startswith("tmp") and b.endswith(".pack")):
        return "tmp"
    if b.endswith(".idx.lock"):
        return "lock"
    if b.startswith("pack-") and b.endswith(".pack"):
        return "pack"
    if b.startswith("pack-") and b.endswith(".idx"):
        return "idx"
    return "other"


def tx_fault_pred(op, p):
    # faults hit the calls of the transaction itself; a failing unlink of what it installed (rollback) or of
    # its lock file cannot be handled by any implementation and is not injected
    r = role_of(p)
    return r in ("tmp", "pack", "lock", "idx") and not (op == "unlink" and r in ("pack", "idx", "lock"))


def tx_exc(name):
    import errno
    return {"EIO": lambda: OSError(errno.EIO, "I/O error (injected)"),
            "ENOSPC": lambda: OSError(errno.ENOSPC, "No space left on device (injected)"),
            "KeyboardInterrupt": lambda: KeyboardInterrupt()}[name]()


class TxRun:
    """one ingestion on a fresh copy of the template store, every interposed call logged (and possibly failed)."""

    def __init__(self, env, path, data, fault_k=None, fault_exc=None):
        from . import sched
        self.sched = sched
        self.env, self.path, self.data = env, path, data
        kind = "repo" if path == "recv" else "disk"
        self.dir = env.fresh(kind)
        self.objdir = os.path.join(self.dir, "objects") if kind == "repo" else self.dir
        self.pre = env.pre_disk()
        self.pre_files = set(os.listdir(os.path.join(self.objdir, "pack")))
        fault = sched.Fault(0, fault_k, tx_exc(fault_exc)) if fault_k is not None else None
        self.world = sched.World(self.dir, observe=self.observe, fault=fault)
        self.world.fault_pred = tx_fault_pred
        self.events = []
        self._last = None

    def fs_state(self):
        real = self.sched._real
        listdir = real.get("listdir", os.listdir)
        pd = os.path.join(self.objdir, "pack")
        try:
            names = set(listdir(pd))
        except OSError:
            names = set()
        new = names - self.pre_files
        try:
            top = listdir(self.objdir)
        except OSError:
            top = []
        st = {"tmp": any(role_of(n) == "tmp" for n in new) or any(n.startswith("tmp_pack_") for n in top),
              "pack": any(role_of(n) == "pack" for n in new), "lock": any(role_of(n) == "lock" for n in new),
              "idx": any(role_of(n) == "idx" for n in new), "partialvisible": False}
        for n in new:
            if role_of(n) == "pack" and n[:-5] + ".idx" in new:
                base = os.path.join(pd, n[:-5])
                if L.pack_file_class(base + ".pack") != "complete" or L.idx_file_class(base + ".idx", base + ".pack") != "complete":
                    st["partialvisible"] = True
        return st

    def observe(self, world, ev):
        op = ev["op"]
        if op == "ret" or op not in KEY_OPS:
            return
        role = role_of(ev.get("p2") if op in ("rename", "replace") else ev.get("p"))
        if role == "other":
            return
        lab = KEY_OPS[op]
        if lab in ("rename", "replace"):
            lab = "rename" if role == "pack" else "replace"
        ok = bool(ev.get("ok", False))
        head = (lab, role, ok)
        if lab == "write" and ok and self._last is not None and self._last[0] == head:
            return                                   # a run of buffered writes: one event
        e = {"op": lab, "role": role, "ok": ok}
        e.update(self.fs_state())
        self._last = (head, e)
        self.events.append(e)

    def run(self):
        path, data = self.path, self.data

        def go():
            if path == "recv":
                first = L.artefacts()["pack.blobs"]["info"][0][0].hex()
                r = p_receive_pack(self.dir, data, first)
                if r["unpack"] != "ok":
                    raise UnpackFailed(r["unpack"])
                return "ok"
            from dulwich.object_store import DiskObjectStore
            st = DiskObjectStore(self.dir)
            try:
                STORE_PATHS[path.split(".", 1)[1]](st, data)
            finally:
                st.close()
            return "ok"
        t0 = time.process_time()          # CPU time, like every other budget here: immune to a loaded machine
        s = self.sched.Scheduler(self.world, {0: go}, collect="exc")
        with self.sched.Interposer(self.world):
            s.run()
        wall_ms = (time.process_time() - t0) * 1000
        res = s.results[0]
        post, bad = L.visible_disk(self.objdir)
        packs, junk = L.pack_dir_state(self.objdir)
        ev = list(self.events)
        ev.append({"op": "ret", "role": "none", "ok": res.exc is None, **self.fs_state()})
        exc = res.exc
        oc = "ok" if exc is None else ("fatal" if exc in ("MemoryError", "RecursionError") else "error")
        w = self.world
        elig = [[e["op"], e.get("p")] for e in w.events if e.get("op") in w.MUTATING and tx_fault_pred(e["op"], e.get("p"))]
        fired = w.fault.fired_at if w.fault is not None else None
        shutil.rmtree(self.dir, ignore_errors=True)
        return {"trace": ev, "exc": exc, "msg": res.exc_msg, "ncalls": w.ncalls.get(0, 0), "elig": elig,
                "fired": ([KEY_OPS.get(fired["op"], fired["op"]), role_of(fired.get("p"))] if fired else None),
                "event": {"path": path, "outcome": oc, "exc": exc, "msg": res.exc_msg, "pre": self.pre, "post": post, "bad": bad,
                          "packs": [[p["pack"], p["idx"]] for p in packs], "junk": junk, "wall_ms": round(wall_ms, 2)}}


# --------------------------------------------------------------------------- dispatch
def run_case(env, c):
    k = c["kind"]
    if k == "attack":
        data, meta = L.build_attack_pack(c["shape"])
        first = meta["ids"][1]
        out = {"events": []}
        for p in c["paths"]:
            if p == "direct":
                ents = [(meta["ids"][i], meta["offs"][i]) for i in range(1, meta["n"] + 1)]
                out["events"].append(run_direct(env, data, ents, expect_hang=c.get("hang", ())))
            else:
                out["events"].append(run_ingest(env, p, data, first))
        out["ids"] = meta["ids"]
        return out
    if k == "damage":
        A = L.artefacts()
        art = A[c["art"]]
        if c["mut"][0] == "redir":          # multi-pack-index: offset of object i := offset of object j
            data = L.midx_redirect(art["data"], c["mut"][1], c["mut"][2])
        elif c["mut"][0] == "splice":       # intact pack index over ANOTHER pack of the same layout
            data, art = art["data"], dict(art, splice=True)
        else:
            data = L.apply_mutation(art["data"], tuple(c["mut"]))
        if data is None:
            return {"skip": True}
        if art["kind"] == "pack":
            first = art["info"][0][0].hex()
            evs = [run_ingest(env, p, data, first) for p in c["paths"] if p != "direct"]
            if "direct" in c["paths"]:
                # the pack under its (valid) index, read through the store
                ents = [(i[0].hex(), i[1]) for i in art["info"]]
                evs.append(run_direct(env, data, ents, idxdata=write_idx_v2([(i[0], i[1], i[2]) for i in art["info"]], art["data"][-20:])))
            return {"events": evs, "trailer_ok": len(data) >= 20 and sha1(data[:-20]).digest() == data[-20:]}
        r = READERS[art["kind"]](env, art, data)
        res = {"reads": {k2: _pack_result(v) for k2, v in r.items()}}
        if art["kind"] in SEQ_READERS:
            res["seq"] = seq_case(env, c["art"], art, data)
        return res
    if k == "bomb":
        return bomb_case(env, c["which"])
    if k == "loosebomb":
        return loose_bomb_case(env, c)
    if k == "fetch":
        return fetch_case(env, c)
    if k == "tx":
        data = L.tx_scenarios()[c["scenario"]]
        return TxRun(env, c["path"], data, c.get("k"), c.get("exc")).run()
    raise ValueError(k)


def main(argv):
    cases_path, out_path, scratch = argv
    warnings.simplefilter("ignore")
    import logging
    logging.disable(logging.CRITICAL)
    lim = int(os.environ.get("C04_AS_LIMIT_MB", "3072")) * 1024 * 1024
    resource.setrlimit(resource.RLIMIT_AS, (lim, lim))
    signal.signal(signal.SIGALRM, _on_alarm)
    signal.signal(signal.SIGPROF, _on_alarm)
    os.makedirs(scratch, exist_ok=True)
    env = Env(scratch)
    with open(cases_path) as f:
        cases = json.load(f)
    ndone = 0
    with open(out_path, "a") as out:
        for c in cases:
            out.write(json.dumps({"start": c["id"]}) + "\n")
            out.flush()
            try:
                r = run_case(env, c)
            except _Timeout:
                r = {"machinery": "late alarm"}
            except Exception as e:      # noqa: BLE001  (harness bug, reported as machinery failure by the parent)
                import traceback
                r = {"machinery": f"{type(e).__name__}: {e}", "tb": traceback.format_exc()[-1500:]}
            r["id"] = c["id"]
            out.write(json.dumps(r, default=repr) + "\n")
            out.flush()
            ndone += 1
            if ndone % 25 == 0:
                gc.collect()
    shutil.rmtree(scratch, ignore_errors=True)


if __name__ == "__main__":
    main(sys.argv[1:])

#!/bin/sh
# Run once after a fresh restore, offline.  Parses every specification and builds the Rust
# extensions from /repo/crates into /verif/out/cargo-target (checks rebuild incrementally).
cd "$(dirname "$0")" || exit 2
mkdir -p out evidence
rc=0
for f in specs/*.tla; do
  ( cd specs && java -cp /opt/veriftools/tla/tla2tools.jar:/opt/veriftools/tla/CommunityModules-deps.jar tla2sany.SANY "$(basename "$f")" ) > out/sany.log 2>&1 || { echo "SANY failed: $f (reported only: a check whose specification does not parse fails itself with exit 2)"; tail -5 out/sany.log; }
  if grep -q "Semantic errors\|Parse Error\|Fatal errors" out/sany.log; then echo "SANY errors: $f (reported only)"; tail -5 out/sany.log; fi
done
if [ -d /repo/crates ]; then
  CARGO_NET_OFFLINE=true PYO3_PYTHON=/venv/bin/python CARGO_TARGET_DIR=/verif/out/cargo-target \
    cargo build --release --offline --manifest-path /repo/Cargo.toml > out/cargo.log 2>&1 || { echo "cargo build failed (checks that need Rust will retry and report)"; tail -5 out/cargo.log; }
fi
/venv/bin/python -c "import greenlet, hypothesis, dulwich; print('python deps ok', dulwich.__file__)" || rc=1
exit $rc

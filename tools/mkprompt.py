import sys
T = open('/verif/tools/builder_prompt.txt').read()
ID, modules, extra = sys.argv[1], sys.argv[2], sys.argv[3] if len(sys.argv) > 3 else ""
print(T.replace("{ID}", ID).replace("{id}", ID.lower()).replace("{MODULES}", modules).replace("{EXTRA}", extra))

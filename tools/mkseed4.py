import json, sys
T = open('/verif/tools/seeder_prompt4.txt').read()
pid, n = sys.argv[1], sys.argv[2]
tag = sys.argv[3] if len(sys.argv) > 3 else f"seed-{pid}"
for l in open('/verif/properties.jsonl'):
    p = json.loads(l)
    if p['id'] == pid:
        break
print(T.replace("{WT}", f"/tmp/wt-{tag}").replace("{TAG}", tag).replace("{TITLE}", p['title'])
      .replace("{STATEMENT}", p['statement']).replace("{QUANT}", p['quantifier']['text']).replace("{N}", n).replace("{ID}", pid))

#!/venv/bin/python
"""tools/keep_seed_wt.py <srcdir> <name> <ID> <worktree> [--tests "tests/a.py ..."] [--tier quick]
Same confirmation as tools/keep_seed.py, but everything runs in a scratch worktree (brought to /repo's HEAD first) with
VERIF_REPO=<worktree>, so /repo is never touched and several seeds can be confirmed in parallel while other checks run.
Evidence of these runs goes to out/evidence-alt, never to evidence/."""
import argparse, json, os, shutil, subprocess, sys

ap = argparse.ArgumentParser()
ap.add_argument("src"); ap.add_argument("name"); ap.add_argument("pid"); ap.add_argument("wt")
ap.add_argument("--tests", default=""); ap.add_argument("--tier", default="quick")
a = ap.parse_args()
patch = os.path.abspath(os.path.join(a.src, "patch.diff"))
demo = os.path.join(a.src, "demo.py")
wt = a.wt


def sh(cmd, **kw):
    return subprocess.run(cmd, shell=True, text=True, capture_output=True, **kw)


head = sh("git -C /repo rev-parse HEAD").stdout.strip()
sh(f"git -C {wt} checkout -q -- . && git -C {wt} clean -fdq && git -C {wt} checkout -q --detach {head}")
assert sh(f"git -C {wt} rev-parse HEAD").stdout.strip() == head, "worktree not at /repo HEAD"
env = dict(os.environ, PYTHONPATH=wt, DULWICH_WT=wt, DULWICH_TREE=wt)
clean = subprocess.run(["/venv/bin/python", demo], env=env, capture_output=True, text=True, cwd=a.src, timeout=900)
ap_ = sh(f"git -C {wt} apply {patch}")
assert ap_.returncode == 0, "patch does not apply: " + ap_.stderr
try:
    with_p = subprocess.run(["/venv/bin/python", demo], env=env, capture_output=True, text=True, cwd=a.src, timeout=900)
    tests = None
    if a.tests:
        tests = sh(f"cd {wt} && PYTHONPATH={wt} /venv/bin/python -m pytest -q -p no:cacheprovider -n 4 {a.tests} 2>&1 | tail -3")
    chk = subprocess.run(["./check", a.pid, "--tier", a.tier], cwd="/verif", capture_output=True, text=True,
                         env=dict(os.environ, VERIF_REPO=wt))
finally:
    sh(f"git -C {wt} checkout -q -- . && git -C {wt} clean -fdq")
viol = [l for l in chk.stdout.splitlines() if l.startswith("VIOLATION")]
sigs = [l.strip() for l in chk.stdout.splitlines() if l.strip().startswith("signature:")]
print(a.name, "| demo clean rc", clean.returncode, "| demo with patch rc", with_p.returncode, "| check rc", chk.returncode,
      "violations", len(viol))
tline = (tests.stdout.strip().splitlines()[-1] if tests and tests.stdout.strip() else "see tests_run")
print("  tests:", tline)
ok = clean.returncode == 0 and with_p.returncode != 0
dst = os.path.join("/verif/seeded", a.name)
os.makedirs(dst, exist_ok=True)
shutil.copy(patch, os.path.join(dst, "patch.diff"))
shutil.copy(demo, os.path.join(dst, "demo.py"))
meta = {}
mp = os.path.join(a.src, "meta.json")
if os.path.exists(mp):
    try:
        meta = json.load(open(mp))
    except Exception:
        meta = {"raw": open(mp).read()}
meta.update({
    "property": a.pid,
    "origin": "independent sub-agent given only the property text and a scratch worktree (round 5)",
    "confirmed": {"demo_exit_clean_tree": clean.returncode, "demo_exit_with_change": with_p.returncode,
                  "existing_tests_with_change": tline, "demonstration_valid": ok, "repo_head": head[:7]},
    "ran": f"VERIF_REPO=<worktree with seeded/{a.name}/patch.diff> ./check {a.pid} --tier {a.tier}",
    "check_exit": chk.returncode,
    "detected": bool(viol) and chk.returncode == 1,
    "detected_by": sigs[:3],
})
if not meta["detected"]:
    meta["missed_by_first_version"] = True
json.dump(meta, open(os.path.join(dst, "meta.json"), "w"), indent=1)
print("  kept" if ok else "  DEMO NOT CONFIRMED", dst, "detected" if meta["detected"] else "MISSED", sigs[:1])

#!/bin/sh
# Run the repository's baseline suite (guard off) and compare with /root/.vp/BASELINE.json stable_pass.
OUT=${1:-/tmp/baseline.junit.xml}
cd /repo && env -u DULWICH_VERIF /venv/bin/python -m pytest -ra -q -p no:cacheprovider --timeout=900 --continue-on-collection-errors --junitxml=$OUT > /tmp/baseline.log 2>&1
tail -3 /tmp/baseline.log
/venv/bin/python - "$OUT" <<'PY'
import json, sys, xml.etree.ElementTree as ET
base = json.load(open('/root/.vp/BASELINE.json'))
stable = set(base['stable_pass'])
passed = set()
for tc in ET.parse(sys.argv[1]).getroot().iter('testcase'):
    bad = any(ch.tag in ('failure', 'error', 'skipped') for ch in tc)
    if not bad:
        passed.add(f"{tc.get('classname')}::{tc.get('name')}")
miss = sorted(stable - passed)
print("stable_pass:", len(stable), "passed now:", len(passed), "stable tests not passing now:", len(miss))
for m in miss[:20]:
    print("  MISSING", m)
PY

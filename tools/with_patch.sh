#!/bin/sh
# tools/with_patch.sh <patch.diff> <command...> : apply a seeded change to /repo, run the command, always undo it.
P="$(realpath "$1")"; shift
# one user of /repo at a time (builders and the lead share it)
exec 9>/tmp/verif-repo.lock; flock 9
git -C /repo diff --quiet || { echo "/repo has uncommitted changes" >&2; exit 2; }
git -C /repo apply "$P" || { echo "patch does not apply" >&2; exit 2; }
# evidence/ describes the unchanged tree only: a run against a patched /repo writes its evidence elsewhere
VERIF_EVIDENCE_DIR=/verif/out/evidence-alt/patched "$@"; rc=$?
git -C /repo checkout -- .
exit $rc

#!/venv/bin/python
"""tools/matrix_from_meta.py : (re)write seeded/MATRIX.json from the meta.json of every kept seeded change (each meta.json
holds the outcome of the latest tools/run_seeds.py / keep_seed.py run of that change)."""
import glob, json, os, subprocess
rows = []
for d in sorted(glob.glob('/verif/seeded/*/')):
    mp = os.path.join(d, 'meta.json')
    if not os.path.exists(mp):
        continue
    m = json.load(open(mp))
    name = os.path.basename(d.rstrip('/'))
    if 'NEUTRALISED' in name:
        rows.append({"seed": name, "property": m.get("property"), "result": "not a valid target any more (neutralised by a fix commit)", "first_signature": ""})
        continue
    rows.append({"seed": name, "property": m.get("property"),
                 "result": "detected" if m.get("detected") else f"MISSED (rc={m.get('check_exit')})",
                 "first_signature": (m.get("detected_by") or [""])[0]})
head = subprocess.run(["git", "-C", "/repo", "log", "--format=%h", "-1"], capture_output=True, text=True).stdout.strip()
valid = [r for r in rows if not r["result"].startswith("not a valid")]
out = {"repo_head": head,
       "note": "one row per kept seeded change, from the latest run recorded in its meta.json: the full matrix ran at /repo 46da698 "
               "(197/200: one patch needed re-porting, two C09 seeds needed the extensions described in DESIGN 10.3); the C08 and "
               "C09 rows were re-run at 545edd4 after the last extensions of those two checks; session 3: the C09 rows were re-run at e84d670 "
               "after the composite scenarios were added, and the 13 round-5 rows (CXX-s10/s11 of C02 C05 C06 C13 C14 C16 C17 C18) come "
               "from tools/keep_seed_wt.py at e84d670 after the extensions described in DESIGN 10.3 (3 of 13 were detected before them)",
       "detected": sum(1 for r in valid if r["result"] == "detected"), "total": len(valid), "rows": rows}
json.dump(out, open('/verif/seeded/MATRIX.json', 'w'), indent=1)
print(out["detected"], "/", out["total"], [r["seed"] for r in valid if r["result"] != "detected"])

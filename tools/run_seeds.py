#!/venv/bin/python
"""tools/run_seeds.py [ID ...] : apply every kept seeded change to /repo in turn, run the quick check of
its property, undo, and print the detection matrix (also written to out/seed_matrix.json)."""
import glob, json, os, subprocess, sys
import fcntl
_lock = open("/tmp/verif-repo.lock", "w")
fcntl.flock(_lock, fcntl.LOCK_EX)
want = set(a.upper() for a in sys.argv[1:])
rows = []
for d in sorted(glob.glob("/verif/seeded/*/")):
    mp = os.path.join(d, "meta.json")
    if not os.path.exists(mp):
        continue
    m = json.load(open(mp))
    pid = m.get("property")
    if want and pid not in want:
        continue
    if "NEUTRALISED" in d or m.get("status", "").startswith("not kept"):
        continue
    patch = os.path.join(d, "patch.diff")
    if subprocess.run(["git", "-C", "/repo", "diff", "--quiet"]).returncode != 0:
        print("/repo dirty"); sys.exit(2)
    if subprocess.run(["git", "-C", "/repo", "apply", patch]).returncode != 0:
        rows.append((os.path.basename(d.rstrip("/")), pid, "PATCH DOES NOT APPLY", ""))
        continue
    try:
        p = subprocess.run(["./check", pid, "--tier", "quick"], cwd="/verif", capture_output=True, text=True)
    finally:
        subprocess.run(["git", "-C", "/repo", "checkout", "--", "."])
    sig = [l.strip()[len("signature: "):] for l in p.stdout.splitlines() if l.strip().startswith("signature:")]
    viol = any(l.startswith("VIOLATION") for l in p.stdout.splitlines())
    rows.append((os.path.basename(d.rstrip("/")), pid, "detected" if viol and p.returncode == 1 else f"MISSED (rc={p.returncode})", sig[0] if sig else ""))
    print(rows[-1], flush=True)
os.makedirs("/verif/out", exist_ok=True)
json.dump(rows, open("/verif/out/seed_matrix.json", "w"), indent=1)
print(f"{sum(1 for r in rows if r[2]=='detected')}/{len(rows)} detected")

#!/venv/bin/python
"""tools/run_seeds.py [-j N] [ID ...] : run the quick check of its property against every kept seeded
change and print the detection matrix (also written to out/seed_matrix.json; each meta.json's
check_exit/detected/detected_by is brought up to date, `missed_by_first_version` is never cleared).

-j 1 (default): apply to /repo in turn, run, undo (git -C /repo apply / checkout -- .), under the repo lock.
-j N: N scratch worktrees of /repo's HEAD under /tmp (removed afterwards), checks run with
      VERIF_REPO=<worktree>; evidence of those runs goes to out/evidence-alt, never to evidence/."""
import argparse, glob, json, os, shutil, subprocess, sys, fcntl
from concurrent.futures import ThreadPoolExecutor
import queue

ap = argparse.ArgumentParser()
ap.add_argument("-j", type=int, default=1)
ap.add_argument("ids", nargs="*")
a = ap.parse_args()
want = set(x.upper() for x in a.ids)

seeds = []
for d in sorted(glob.glob("/verif/seeded/*/")):
    mp = os.path.join(d, "meta.json")
    if not os.path.exists(mp):
        continue
    m = json.load(open(mp))
    pid = m.get("property")
    if want and pid not in want:
        continue
    if "NEUTRALISED" in d or m.get("status", "").startswith("not kept"):
        continue
    seeds.append((d, mp, m, pid))


def judge(d, mp, m, pid, p, cmd):
    out = p.stdout
    sig = [l.strip()[len("signature: "):] for l in out.splitlines() if l.strip().startswith("signature:")]
    viol = any(l.startswith("VIOLATION") for l in out.splitlines())
    det = viol and p.returncode == 1
    if m.get("detected") is False and det:
        m["missed_by_first_version"] = True
    m.update({"ran": cmd, "check_exit": p.returncode, "detected": bool(det), "detected_by": sig[:5]})
    json.dump(m, open(mp, "w"), indent=1)
    row = (os.path.basename(d.rstrip("/")), pid, "detected" if det else f"MISSED (rc={p.returncode})", sig[0] if sig else "")
    print(row, flush=True)
    return row


rows = []
if a.j <= 1:
    _lock = open("/tmp/verif-repo.lock", "w")
    fcntl.flock(_lock, fcntl.LOCK_EX)
    for d, mp, m, pid in seeds:
        patch = os.path.join(d, "patch.diff")
        if subprocess.run(["git", "-C", "/repo", "diff", "--quiet"]).returncode != 0:
            print("/repo dirty"); sys.exit(2)
        if subprocess.run(["git", "-C", "/repo", "apply", patch]).returncode != 0:
            rows.append((os.path.basename(d.rstrip("/")), pid, "PATCH DOES NOT APPLY", "")); print(rows[-1]); continue
        try:
            p = subprocess.run(["./check", pid, "--tier", "quick"], cwd="/verif", capture_output=True, text=True,
                               env=dict(os.environ, VERIF_EVIDENCE_DIR="/verif/out/evidence-alt/patched"))
        finally:
            subprocess.run(["git", "-C", "/repo", "checkout", "--", "."])
        rows.append(judge(d, mp, m, pid, p, f"tools/with_patch.sh seeded/{os.path.basename(d.rstrip('/'))}/patch.diff ./check {pid} --tier quick"))
else:
    wts = queue.Queue()
    made = []
    for i in range(a.j):
        wt = f"/tmp/wt-seedrun-{os.getpid()}-{i}"
        subprocess.run(["git", "-C", "/repo", "worktree", "remove", "--force", wt], capture_output=True)
        assert subprocess.run(["git", "-C", "/repo", "worktree", "add", "--detach", wt, "HEAD"], capture_output=True).returncode == 0
        made.append(wt); wts.put(wt)

    def one(s):
        d, mp, m, pid = s
        wt = wts.get()
        try:
            patch = os.path.join(d, "patch.diff")
            if subprocess.run(["git", "-C", wt, "apply", patch]).returncode != 0:
                row = (os.path.basename(d.rstrip("/")), pid, "PATCH DOES NOT APPLY", ""); print(row); return row
            try:
                p = subprocess.run(["./check", pid, "--tier", "quick"], cwd="/verif", capture_output=True, text=True,
                                   env=dict(os.environ, VERIF_REPO=wt))
            finally:
                subprocess.run(["git", "-C", wt, "checkout", "--", "."])
                subprocess.run(["git", "-C", wt, "clean", "-fdq"])
            return judge(d, mp, m, pid, p, f"VERIF_REPO=<worktree with seeded/{os.path.basename(d.rstrip('/'))}/patch.diff> ./check {pid} --tier quick")
        finally:
            wts.put(wt)
    try:
        with ThreadPoolExecutor(a.j) as ex:
            rows = list(ex.map(one, seeds))
    finally:
        import hashlib
        for wt in made:
            subprocess.run(["git", "-C", "/repo", "worktree", "remove", "--force", wt], capture_output=True)
            shutil.rmtree("/tmp/verif-cargo-" + hashlib.sha1(os.path.realpath(wt).encode()).hexdigest()[:10], ignore_errors=True)
            shutil.rmtree(f"/verif/out/evidence-alt/{os.path.basename(wt)}", ignore_errors=True)
            shutil.rmtree(f"/verif/out/replay-alt/{os.path.basename(wt)}", ignore_errors=True)
        subprocess.run(["git", "-C", "/repo", "worktree", "prune"])
os.makedirs("/verif/out", exist_ok=True)
json.dump(rows, open("/verif/out/seed_matrix.json", "w"), indent=1)
if not want:
    # the full matrix is kept under version control next to the seeds
    head = subprocess.run(["git", "-C", "/repo", "log", "--format=%h", "-1"], capture_output=True, text=True).stdout.strip()
    json.dump({"repo_head": head, "detected": sum(1 for r in rows if r[2] == "detected"), "total": len(rows),
               "rows": [{"seed": r[0], "property": r[1], "result": r[2], "first_signature": r[3]} for r in rows]},
              open("/verif/seeded/MATRIX.json", "w"), indent=1)
print(f"{sum(1 for r in rows if r[2]=='detected')}/{len(rows)} detected")

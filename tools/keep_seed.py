#!/venv/bin/python
"""tools/keep_seed.py <srcdir> <name> <ID> [--patch file] [--tests "tests/a.py tests/b.py"]
Confirm a seeded change (demo fails with it / passes without; related existing tests pass with it;
the registered check reports a VIOLATION with it and is quiet without), then keep it under
/verif/seeded/<name>/ (patch.diff, demo.py, meta.json)."""
import argparse, json, os, shutil, subprocess, sys

ap = argparse.ArgumentParser()
ap.add_argument("src"); ap.add_argument("name"); ap.add_argument("pid")
ap.add_argument("--patch"); ap.add_argument("--tests", default="")
ap.add_argument("--tier", default="quick")
a = ap.parse_args()
patch = os.path.abspath(a.patch or os.path.join(a.src, "patch.diff"))
demo = os.path.join(a.src, "demo.py")
R = "/repo"


def sh(cmd, **kw):
    return subprocess.run(cmd, shell=True, text=True, capture_output=True, **kw)


import fcntl
_lock = open("/tmp/verif-repo.lock", "w")
fcntl.flock(_lock, fcntl.LOCK_EX)   # one user of /repo at a time
assert sh(f"git -C {R} diff --quiet").returncode == 0, "/repo dirty"
env = dict(os.environ, PYTHONPATH=R, DULWICH_WT=R, DULWICH_TREE=R)
clean = subprocess.run(["/venv/bin/python", demo], env=env, capture_output=True, text=True, cwd=a.src, timeout=600)
assert sh(f"git -C {R} apply {patch}").returncode == 0, "patch does not apply"
try:
    with_p = subprocess.run(["/venv/bin/python", demo], env=env, capture_output=True, text=True, cwd=a.src, timeout=600)
    tests = None
    if a.tests:
        tests = sh(f"cd {R} && /venv/bin/python -m pytest -q -p no:cacheprovider {a.tests} 2>&1 | tail -3")
    chk = sh(f"cd /verif && VERIF_EVIDENCE_DIR=/verif/out/evidence-alt/patched ./check {a.pid} --tier {a.tier}")
finally:
    sh(f"git -C {R} checkout -- .")
viol = [l for l in chk.stdout.splitlines() if l.startswith("VIOLATION")]
sigs = [l.strip() for l in chk.stdout.splitlines() if l.strip().startswith("signature:")]
print("demo clean rc", clean.returncode, "| demo with patch rc", with_p.returncode, "| check rc", chk.returncode, "violations", len(viol))
if tests:
    print("tests:", tests.stdout.strip().splitlines()[-1] if tests.stdout.strip() else tests.stderr[-200:])
ok = clean.returncode == 0 and with_p.returncode != 0
dst = os.path.join("/verif/seeded", a.name)
os.makedirs(dst, exist_ok=True)
shutil.copy(patch, os.path.join(dst, "patch.diff"))
shutil.copy(demo, os.path.join(dst, "demo.py"))
meta = {}
mp = os.path.join(a.src, "meta.json")
if os.path.exists(mp):
    try:
        meta = json.load(open(mp))
    except Exception:
        meta = {"raw": open(mp).read()}
meta.update({
    "property": a.pid,
    "origin": "independent sub-agent given only the property text and a scratch worktree",
    "confirmed": {"demo_exit_clean_tree": clean.returncode, "demo_exit_with_change": with_p.returncode,
                  "existing_tests_with_change": (tests.stdout.strip().splitlines()[-1] if tests and tests.stdout.strip() else "see tests_run"),
                  "demonstration_valid": ok},
    "ran": f"tools/with_patch.sh seeded/{a.name}/patch.diff ./check {a.pid} --tier {a.tier}",
    "check_exit": chk.returncode,
    "detected": bool(viol),
    "detected_by": sigs[:3],
})
json.dump(meta, open(os.path.join(dst, "meta.json"), "w"), indent=1)
print("kept" if ok else "DEMO NOT CONFIRMED", dst, "detected" if viol else "MISSED")

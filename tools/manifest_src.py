ENGINES = [
    {"name": "tlc+conformance", "path": "/verif/check",
     "serves_properties": [],
     "kind_free_text": "explicit TLA+ specifications (specs/*.tla) checked by TLC 1.8; bound to the implementation by replay of TLC behaviours into the real code and by TLC batch validation of traces recorded from the real code (harness/)"},
]
NOTES = ("All checks: ./check <ID> --tier quick|thorough. Exit 0 = held, 1 = VIOLATION line printed, 2 = machinery failure. "
         "SPEC-DRIFT lines are informational (the code left the modelled protocol without violating the property). "
         "known_findings.jsonl lists genuine defects recorded instead of repaired and the fixed ones.")

CHECKS = [
    {"id": "C07",
     "text": "LockFile.tla models _GitFile at system-call grain (3 actors, faults); TLC checks Mutex, NoForeignRelease, AtomicReplace, FailedKeepsOld, ReleasedAtExit exhaustively and termination under fairness. The real code is bound three ways: every transition of the 2-actor TLC state graph is replayed on the real _GitFile and compared state by state; every schedule with a bounded number of preemptions of real writer programs and every (call, errno) fault position in _GitFile and in 18 lock-protocol callers is executed under an os-level interposition layer, and each recorded execution is validated by TLC against LockFileTrace with all property clauses evaluated at every step.",
     "design_ref": "DESIGN.md section 3 C07",
     "note": "Trusted: POSIX O_EXCL/rename/unlink semantics (exercised on the real kernel), greenlet actors with private handles stand for processes, finalizers run before 'exit' is judged. Bounds: <=3 actors, <=2-3 chunks, one-shot faults; Windows rename path out of scope.",
     "technique": "TLC exhaustive model checking of LockFile.tla + TLC trace validation of real executions (systematic schedules, fault injection) + state-graph replay"},
]
NOT_APPLICABLE = [
    {"property_id": "C01", "reason": "check under construction in this round (TLA+ module planned in DESIGN.md section 3); not claimed until its check is registered"},
    {"property_id": "C02", "reason": "check under construction in this round (TLA+ module planned in DESIGN.md section 3); not claimed until its check is registered"},
    {"property_id": "C03", "reason": "check under construction in this round (TLA+ module planned in DESIGN.md section 3); not claimed until its check is registered"},
    {"property_id": "C04", "reason": "check under construction in this round (TLA+ module planned in DESIGN.md section 3); not claimed until its check is registered"},
    {"property_id": "C05", "reason": "check under construction in this round (TLA+ module planned in DESIGN.md section 3); not claimed until its check is registered"},
    {"property_id": "C06", "reason": "check under construction in this round (TLA+ module planned in DESIGN.md section 3); not claimed until its check is registered"},
    {"property_id": "C08", "reason": "check under construction in this round (TLA+ module planned in DESIGN.md section 3); not claimed until its check is registered"},
    {"property_id": "C09", "reason": "check under construction in this round (TLA+ module planned in DESIGN.md section 3); not claimed until its check is registered"},
    {"property_id": "C10", "reason": "check under construction in this round (TLA+ module planned in DESIGN.md section 3); not claimed until its check is registered"},
    {"property_id": "C11", "reason": "check under construction in this round (TLA+ module planned in DESIGN.md section 3); not claimed until its check is registered"},
    {"property_id": "C12", "reason": "check under construction in this round (TLA+ module planned in DESIGN.md section 3); not claimed until its check is registered"},
    {"property_id": "C13", "reason": "check under construction in this round (TLA+ module planned in DESIGN.md section 3); not claimed until its check is registered"},
    {"property_id": "C14", "reason": "check under construction in this round (TLA+ module planned in DESIGN.md section 3); not claimed until its check is registered"},
    {"property_id": "C15", "reason": "check under construction in this round (TLA+ module planned in DESIGN.md section 3); not claimed until its check is registered"},
    {"property_id": "C16", "reason": "check under construction in this round (TLA+ module planned in DESIGN.md section 3); not claimed until its check is registered"},
    {"property_id": "C17", "reason": "check under construction in this round (TLA+ module planned in DESIGN.md section 3); not claimed until its check is registered"},
    {"property_id": "C18", "reason": "check under construction in this round (TLA+ module planned in DESIGN.md section 3); not claimed until its check is registered"},
    {"property_id": "C19", "reason": "check under construction in this round (TLA+ module planned in DESIGN.md section 3); not claimed until its check is registered"},
    {"property_id": "C20", "reason": "check under construction in this round (TLA+ module planned in DESIGN.md section 3); not claimed until its check is registered"},
]

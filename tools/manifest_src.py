ENGINES = [
    {"name": "tlc+conformance", "path": "/verif/check",
     "serves_properties": [],
     "kind_free_text": "explicit TLA+ specifications (specs/*.tla) checked by TLC 1.8; bound to the implementation by replay of TLC behaviours into the real code and by TLC batch validation of traces recorded from the real code (harness/)"},
]
NOTES = ("All checks: ./check <ID> --tier quick|thorough. Exit 0 = held, 1 = VIOLATION line printed, 2 = machinery failure. "
         "SPEC-DRIFT lines are informational (the code left the modelled protocol without violating the property). "
         "known_findings.jsonl lists genuine defects recorded instead of repaired and the fixed ones.")

CHECKS = [
    {"id": "C07",
     "text": "LockFile.tla models _GitFile at system-call grain (3 actors, faults); TLC checks Mutex, NoForeignRelease, AtomicReplace, FailedKeepsOld, ReleasedAtExit exhaustively and termination under fairness. The real code is bound three ways: every transition of the 2-actor TLC state graph is replayed on the real _GitFile and compared state by state; every schedule with a bounded number of preemptions of real writer programs and every (call, errno) fault position in _GitFile and in 18 lock-protocol callers is executed under an os-level interposition layer, and each recorded execution is validated by TLC against LockFileTrace with all property clauses evaluated at every step.",
     "design_ref": "DESIGN.md section 3 C07",
     "note": "Trusted: POSIX O_EXCL/rename/unlink semantics (exercised on the real kernel), greenlet actors with private handles stand for processes, finalizers run before 'exit' is judged. Bounds: <=3 actors, <=2-3 chunks, one-shot faults; Windows rename path out of scope.",
     "technique": "TLC exhaustive model checking of LockFile.tla + TLC trace validation of real executions (systematic schedules, fault injection) + state-graph replay"},
    {"id": "C08",
     "text": "RefsFiles.tla models the files ref backend (loose file, packed-refs, both lock files, per-process packed snapshot) at the grain of observable file-system calls as a refinement of an atomic ref cell; TLC checks VisIsAbs/CasSound/AddSound/DelSound/ReadSound/NoLockLeft exhaustively for 2 actors over the full operation menu and the update-soundness invariants for 3 actors, and re-finds the historical orders as negative controls. The real code is explored directly: 2-3 actors with private DiskRefsContainer/Repo objects run real ref operations and commits under a deterministic scheduler at system-call grain, every schedule with a bounded number of preemptions from every initial layout {absent, loose, packed, both}; every recorded history is judged by TLC against RefsLin.tla (linearizability w.r.t. the sequential contract, operations that raised must have no effect, NoLostCommit on the real commit ancestry), and the observable event sequence of the executions is validated against RefsFiles (shape, drift only).",
     "design_ref": "DESIGN.md section 3 C08",
     "note": "Trusted: greenlet actors with private containers stand for processes (only the file system is shared); scheduling points are the interposed os-level calls on ref paths. Bounds: one contended ref + HEAD symref, <=3 actors, <=2 ops per actor, preemption bound 2 (quick) / 3 (thorough). One open known finding (pack_refs gathers values before taking packed-refs.lock), modelled as the named PackRead/PackWrite deviation in RefsLin.tla so that only histories explained exactly by it are suppressed. Reflog content not modelled.",
     "technique": "TLC model checking of RefsFiles.tla (refinement of an atomic ref) + systematic schedule exploration of the real code with TLC linearizability checking of recorded histories (RefsLin.tla) + TLC shape conformance (RefsFilesTrace.tla)"},
    {"id": "C09",
     "text": "Crash.tla states RecoveryInv (every ref old-or-new and parsable, closure of every ref readable, everything reachable before still readable, no half-written index/config/packed-refs visible) and the ordering obligations (object before ref, new copy before old copy removed, packed-refs before the superseded loose ref) over abstract repository states. Each of 15 repository-changing operations x starting layouts {loose, packed, mixed} x fsync {off,on} runs once on a real repository under os-level interposition; after EVERY mutating file-system call the directory is snapshotted (process-crash state; user-space buffers lost), with fsync on also as a power-loss variant (data not covered by an fsync dropped); every state is (a) projected and judged by TLC against Crash.tla and (b) materialised and put through the real recovery check (Repo opens, refs old-or-new, all closures and all listed objects re-hash, index/config parse). Additionally KeyboardInterrupt/EIO is injected at every call and the unwound directory checked. Abstract and real verdicts must agree (else drift).",
     "design_ref": "DESIGN.md section 3 C09",
     "note": "Trusted: the snapshot between two interposed calls is what a process crash leaves; power-loss model = per-file data as of its last fsync with directory operations durable in order (evaluated only with core.fsyncObjectFiles=true); hashlib/zlib and dulwich's Index/Config parsers classify files in the projection. Exhaustive over call boundaries per scenario in the thorough tier; quick covers every operation on two of the three layouts and every third exception point. receive-pack/fetch are covered through add_thin_pack/add_objects/ref updates, not end-to-end.",
     "technique": "crash-point enumeration on the real code via interposition snapshots + TLC evaluation of Crash.tla (RecoveryInv, ordering obligations) on every recorded state sequence + real recovery check on every materialised crash state"},
]
NOT_APPLICABLE = [
    {"property_id": "C01", "reason": "check under construction in this round (TLA+ module planned in DESIGN.md section 3); not claimed until its check is registered"},
    {"property_id": "C02", "reason": "check under construction in this round (TLA+ module planned in DESIGN.md section 3); not claimed until its check is registered"},
    {"property_id": "C03", "reason": "check under construction in this round (TLA+ module planned in DESIGN.md section 3); not claimed until its check is registered"},
    {"property_id": "C04", "reason": "check under construction in this round (TLA+ module planned in DESIGN.md section 3); not claimed until its check is registered"},
    {"property_id": "C05", "reason": "check under construction in this round (TLA+ module planned in DESIGN.md section 3); not claimed until its check is registered"},
    {"property_id": "C06", "reason": "check under construction in this round (TLA+ module planned in DESIGN.md section 3); not claimed until its check is registered"},
    {"property_id": "C10", "reason": "check under construction in this round (TLA+ module planned in DESIGN.md section 3); not claimed until its check is registered"},
    {"property_id": "C11", "reason": "check under construction in this round (TLA+ module planned in DESIGN.md section 3); not claimed until its check is registered"},
    {"property_id": "C12", "reason": "check under construction in this round (TLA+ module planned in DESIGN.md section 3); not claimed until its check is registered"},
    {"property_id": "C13", "reason": "check under construction in this round (TLA+ module planned in DESIGN.md section 3); not claimed until its check is registered"},
    {"property_id": "C14", "reason": "check under construction in this round (TLA+ module planned in DESIGN.md section 3); not claimed until its check is registered"},
    {"property_id": "C15", "reason": "check under construction in this round (TLA+ module planned in DESIGN.md section 3); not claimed until its check is registered"},
    {"property_id": "C16", "reason": "check under construction in this round (TLA+ module planned in DESIGN.md section 3); not claimed until its check is registered"},
    {"property_id": "C17", "reason": "check under construction in this round (TLA+ module planned in DESIGN.md section 3); not claimed until its check is registered"},
    {"property_id": "C18", "reason": "check under construction in this round (TLA+ module planned in DESIGN.md section 3); not claimed until its check is registered"},
    {"property_id": "C19", "reason": "check under construction in this round (TLA+ module planned in DESIGN.md section 3); not claimed until its check is registered"},
    {"property_id": "C20", "reason": "check under construction in this round (TLA+ module planned in DESIGN.md section 3); not claimed until its check is registered"},
]

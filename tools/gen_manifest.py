#!/venv/bin/python
"""Regenerate MANIFEST.json from tools/manifest_src.py (single source of truth for per-property text)."""
import json, os, sys
sys.path.insert(0, os.path.dirname(os.path.dirname(os.path.abspath(__file__))))
from tools.manifest_src import CHECKS, NOT_APPLICABLE, ENGINES, NOTES

BASELINE = json.load(open("/root/.vp/BASELINE.json"))["cmd"] if os.path.exists("/root/.vp/BASELINE.json") else \
    "cd /repo && /venv/bin/python -m pytest -ra -q -p no:cacheprovider --timeout=900 --continue-on-collection-errors --junitxml=<file>"
m = {
    "version": 1,
    "setup_cmd": "./setup.sh",
    "hooks": {
        "guard": "DULWICH_VERIF",
        "enable": "no source hooks: ./check sets DULWICH_VERIF=1 in its own process and interposes os.*/open from harness/sched.py; /repo is imported as it is (editable install), Rust crates are rebuilt from /repo/crates into /verif/out/cargo-target by the checks that need them",
        "baseline_off_cmd": "cd /repo && env -u DULWICH_VERIF /venv/bin/python -m pytest -ra -q -p no:cacheprovider --timeout=900 --continue-on-collection-errors",
        "source_commits": [],
        "add_only": True,
    },
    "engines": ENGINES,
    "checks": [],
    "notes": NOTES,
    "not_applicable": NOT_APPLICABLE,
}
for c in CHECKS:
    pid = c["id"]
    m["checks"].append({
        "property_id": pid,
        "quick_cmd": f"./check {pid} --tier quick",
        "thorough_cmd": f"./check {pid} --tier thorough",
        "evidence_file": f"/verif/evidence/{pid}.json",
        "replay_cmd_template": f"./check {pid} --replay {{path}}",
        "engine": c.get("engine", "tlc+conformance"),
        "level_claimed": {"category": c.get("category", "model_checking"), "text": c["text"], "design_ref": c["design_ref"]},
        "level_note": c["note"],
        "technique": c["technique"],
    })
json.dump(m, open(os.path.join(os.path.dirname(__file__), "..", "MANIFEST.json"), "w"), indent=1)
print("wrote MANIFEST.json with", len(m["checks"]), "checks;", len(NOT_APPLICABLE), "not applicable")

#!/bin/sh
# tools/regen_evidence.sh [ID ...] : run the quick check of every (or the given) property on the unchanged /repo, holding
# the repo lock so that no seeded patch is applied meanwhile; evidence/<ID>.json is rewritten by each run.
cd /verif || exit 2
exec 9>/tmp/verif-repo.lock; flock 9
git -C /repo diff --quiet || { echo "/repo has uncommitted changes" >&2; exit 2; }
IDS="${*:-C01 C02 C03 C04 C05 C06 C07 C08 C09 C10 C11 C12 C13 C14 C15 C16 C17 C18 C19 C20}"
rc=0
for id in $IDS; do
  s=$(date +%s)
  ./check $id --tier quick > out/regen_$id.log 2>&1; r=$?
  e=$(date +%s)
  echo "$id exit=$r $((e-s))s $(grep -c '^VIOLATION' out/regen_$id.log) violations $(grep -c '^KNOWN-FINDING' out/regen_$id.log) known $(grep -c '^SPEC-DRIFT' out/regen_$id.log) drift"
  [ $r -ne 0 ] && rc=1
done
exit $rc
